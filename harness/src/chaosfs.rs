//! ChaosFs: serves local files with short reads, Pending returns and injected
//! I/O errors. Parameters are carried in the path so that plain SQL selects
//! them:  chaos:r<max_read>,p<pending_percent>,s<seed>,e<error_at>:/abs/path
use std::io::SeekFrom;
use std::sync::atomic::{AtomicU64, Ordering};
use std::task::{Context, Poll};

use glaredb_core::runtime::filesystem::directory::DirHandleNotImplemented;
use glaredb_core::runtime::filesystem::dispatch::FileSystemDispatch;
use glaredb_core::runtime::filesystem::{
    FileHandle, FileOpenContext, FileStat, FileSystem, FileType, OpenFlags,
};
use glaredb_core::runtime::system::SystemRuntime;
use glaredb_error::{DbError, Result};
use glaredb_rt_native::verif_exports::LocalFileSystem;
use std::sync::Arc;

use crate::exec_det::DetInstant;
use crate::rng::Rng;

pub static CHAOS_READS: AtomicU64 = AtomicU64::new(0);
pub static CHAOS_PENDINGS: AtomicU64 = AtomicU64::new(0);
pub static CHAOS_ERRORS: AtomicU64 = AtomicU64::new(0);
pub static CHAOS_BYTES: AtomicU64 = AtomicU64::new(0);

#[derive(Debug, Clone)]
struct Params {
    max_read: usize,
    pending_pct: u64,
    seed: u64,
    error_at: Option<u64>,
    random_len: bool,
}

fn parse_path(path: &str) -> Result<(Params, String)> {
    let rest = path
        .strip_prefix("chaos:")
        .ok_or_else(|| DbError::new("not a chaos path"))?;
    let (params, real) = rest
        .split_once(':')
        .ok_or_else(|| DbError::new("chaos path missing ':'"))?;
    let mut p = Params {
        max_read: usize::MAX,
        pending_pct: 0,
        seed: 0,
        error_at: None,
        random_len: false,
    };
    for part in params.split(',') {
        if part.is_empty() {
            continue;
        }
        let (k, v) = part.split_at(1);
        let n: u64 = v
            .parse()
            .map_err(|_| DbError::new(format!("bad chaos param '{part}'")))?;
        match k {
            "r" => p.max_read = n as usize,
            "R" => {
                p.max_read = n as usize;
                p.random_len = true;
            }
            "p" => p.pending_pct = n,
            "s" => p.seed = n,
            "e" => p.error_at = Some(n),
            _ => return Err(DbError::new(format!("bad chaos param '{part}'"))),
        }
    }
    Ok((p, real.to_string()))
}

#[derive(Debug)]
pub struct ChaosFile {
    path: String,
    data: Vec<u8>,
    pos: u64,
    params: Params,
    rng: Rng,
    pending_armed: bool,
    errored: bool,
}

impl FileHandle for ChaosFile {
    fn path(&self) -> &str {
        &self.path
    }

    fn size(&self) -> u64 {
        self.data.len() as u64
    }

    fn poll_read(&mut self, cx: &mut Context, buf: &mut [u8]) -> Poll<Result<usize>> {
        // Possibly return Pending first (waking ourselves, as an async I/O
        // completion would).
        if self.params.pending_pct > 0 && !self.pending_armed {
            if self.rng.below(100) < self.params.pending_pct as usize {
                self.pending_armed = true;
                CHAOS_PENDINGS.fetch_add(1, Ordering::Relaxed);
                cx.waker().wake_by_ref();
                return Poll::Pending;
            }
        }
        self.pending_armed = false;

        let remaining = (self.data.len() as u64).saturating_sub(self.pos) as usize;
        let mut n = remaining.min(buf.len()).min(self.params.max_read.max(1));
        if self.params.random_len && n > 1 {
            n = 1 + self.rng.below(n);
        }
        if let Some(at) = self.params.error_at {
            if !self.errored && self.pos + n as u64 > at {
                // Serve bytes up to the error position first, then fail once.
                let upto = at.saturating_sub(self.pos) as usize;
                if upto == 0 {
                    self.errored = true;
                    CHAOS_ERRORS.fetch_add(1, Ordering::Relaxed);
                    return Poll::Ready(Err(DbError::new("chaosfs: injected I/O error")));
                }
                n = upto;
            }
        }
        let start = self.pos as usize;
        buf[..n].copy_from_slice(&self.data[start..start + n]);
        self.pos += n as u64;
        CHAOS_READS.fetch_add(1, Ordering::Relaxed);
        CHAOS_BYTES.fetch_add(n as u64, Ordering::Relaxed);
        Poll::Ready(Ok(n))
    }

    fn poll_write(&mut self, _cx: &mut Context, _buf: &[u8]) -> Poll<Result<usize>> {
        Poll::Ready(Err(DbError::new("chaosfs: write not supported")))
    }

    fn poll_seek(&mut self, _cx: &mut Context, seek: SeekFrom) -> Poll<Result<()>> {
        let len = self.data.len() as i128;
        let new = match seek {
            SeekFrom::Start(n) => n as i128,
            SeekFrom::End(n) => len + n as i128,
            SeekFrom::Current(n) => self.pos as i128 + n as i128,
        };
        if new < 0 {
            return Poll::Ready(Err(DbError::new("chaosfs: seek before start")));
        }
        self.pos = new as u64;
        Poll::Ready(Ok(()))
    }

    fn poll_flush(&mut self, _cx: &mut Context) -> Poll<Result<()>> {
        Poll::Ready(Ok(()))
    }
}

#[derive(Debug)]
pub struct ChaosFs;

impl FileSystem for ChaosFs {
    const NAME: &str = "Chaos";

    type FileHandle = ChaosFile;
    type ReadDirHandle = DirHandleNotImplemented;
    type State = ();

    async fn load_state(&self, _context: FileOpenContext<'_>) -> Result<Self::State> {
        Ok(())
    }

    async fn open(&self, _flags: OpenFlags, path: &str, _state: &()) -> Result<Self::FileHandle> {
        let (params, real) = parse_path(path)?;
        let data = std::fs::read(&real)
            .map_err(|e| DbError::new(format!("chaosfs: cannot read '{real}': {e}")))?;
        Ok(ChaosFile {
            path: path.to_string(),
            data,
            pos: 0,
            rng: Rng::new(params.seed),
            params,
            pending_armed: false,
            errored: false,
        })
    }

    async fn stat(&self, path: &str, _state: &()) -> Result<Option<FileStat>> {
        let (_, real) = parse_path(path)?;
        match std::fs::metadata(&real) {
            Ok(m) if m.is_file() => Ok(Some(FileStat {
                file_type: FileType::File,
            })),
            Ok(_) => Ok(Some(FileStat {
                file_type: FileType::Directory,
            })),
            Err(_) => Ok(None),
        }
    }

    fn can_handle_path(&self, path: &str) -> bool {
        path.starts_with("chaos:")
    }
}

#[derive(Debug, Clone)]
pub struct VerifSystemRuntime {
    dispatch: Arc<FileSystemDispatch>,
}

impl VerifSystemRuntime {
    pub fn new() -> Self {
        let mut dispatch = FileSystemDispatch::empty();
        dispatch.register_filesystem(ChaosFs);
        dispatch.register_filesystem(LocalFileSystem {});
        VerifSystemRuntime {
            dispatch: Arc::new(dispatch),
        }
    }
}

impl SystemRuntime for VerifSystemRuntime {
    type Instant = DetInstant;

    fn filesystem_dispatch(&self) -> &FileSystemDispatch {
        &self.dispatch
    }
}
