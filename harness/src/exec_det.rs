//! Deterministic controlled scheduler: a `PipelineRuntime` that owns every
//! partition pipeline and decides which task is polled next.
use std::future::Future;
use std::pin::Pin;
use std::sync::Arc;
use std::sync::atomic::{AtomicBool, Ordering};
use std::task::{Context, Poll, Wake, Waker};
use std::time::Duration;

use glaredb_core::execution::partition_pipeline::ExecutablePartitionPipeline;
use glaredb_core::runtime::pipeline::{ErrorSink, PipelineRuntime, QueryHandle};
use glaredb_core::runtime::profile_buffer::{ProfileBuffer, ProfileSink};
use glaredb_core::runtime::time::RuntimeInstant;
use glaredb_error::DbError;
use parking_lot::Mutex;

use crate::monitor::HarnessMonitor;
use crate::rng::Rng;

/// Instant that never reads the clock (keeps det runs reproducible).
#[derive(Debug, Clone, Copy)]
pub struct DetInstant;

impl RuntimeInstant for DetInstant {
    fn now() -> Self {
        DetInstant
    }
    fn duration_since(&self, _earlier: Self) -> Duration {
        Duration::ZERO
    }
}

#[derive(Debug, Clone, Copy, PartialEq)]
pub enum Policy {
    Fifo,
    Lifo,
    Random,
    /// PCT-like: random priorities, `d` priority change points.
    Pct { d: usize, k: usize },
    /// Task number `k` (mod alive tasks) runs only if nothing else can.
    Starve { k: usize },
    ClientLast,
    ClientFirst,
}

#[derive(Debug, Clone)]
pub struct DetConfig {
    pub policy: Policy,
    pub seed: u64,
    pub spurious_p: f64,
    pub dup_wake_p: f64,
    pub step_budget: u64,
    pub partitions: usize,
}

struct TaskSlot {
    pipeline: Option<ExecutablePartitionPipeline>,
    errors: Arc<dyn ErrorSink>,
    sink: Option<ProfileSink>,
    handle: Arc<DetHandle>,
    errored: bool,
    priority: u64,
}

#[derive(Debug, Default, Clone)]
pub struct DetStats {
    pub polls: u64,
    pub client_polls: u64,
    pub wakes: u64,
    pub dup_wakes: u64,
    pub spurious_polls: u64,
    pub polls_after_error: u64,
    pub sched_hash: u64,
    pub tasks_spawned: u64,
    pub tasks_finished: u64,
    pub parked_at_end: Vec<usize>,
}

pub struct DetShared {
    woken: Mutex<Vec<usize>>,
    wake_count: Mutex<(u64, u64)>,
    dup_rng: Mutex<(Rng, f64)>,
}

struct TaskWaker {
    id: usize,
    shared: Arc<DetShared>,
}

impl Wake for TaskWaker {
    fn wake(self: Arc<Self>) {
        self.wake_by_ref()
    }
    fn wake_by_ref(self: &Arc<Self>) {
        // Nothing runs inside wake (wakers are invoked under operator locks).
        let dup = {
            let mut g = self.shared.dup_rng.lock();
            let p = g.1;
            g.0.chance(p)
        };
        let mut w = self.shared.woken.lock();
        let mut c = self.shared.wake_count.lock();
        c.0 += 1;
        if !w.contains(&self.id) {
            w.push(self.id);
            if dup {
                w.push(self.id);
                c.1 += 1;
            }
        } else if dup {
            w.push(self.id);
            c.1 += 1;
        }
    }
}

#[derive(Debug)]
pub struct DetHandle {
    profiles: ProfileBuffer,
    canceled: AtomicBool,
}

impl QueryHandle for DetHandle {
    fn cancel(&self) {
        self.canceled.store(true, Ordering::SeqCst);
    }
    fn get_profile_buffer(&self) -> &ProfileBuffer {
        &self.profiles
    }
}

pub struct DetInner {
    tasks: Mutex<Vec<TaskSlot>>, // task id = index + 1
    shared: Arc<DetShared>,
    cfg: Mutex<DetConfig>,
    prio_rng: Mutex<Rng>,
}

#[derive(Clone)]
pub struct DetRuntime {
    pub inner: Arc<DetInner>,
}

impl std::fmt::Debug for DetRuntime {
    fn fmt(&self, f: &mut std::fmt::Formatter<'_>) -> std::fmt::Result {
        f.debug_struct("DetRuntime").finish_non_exhaustive()
    }
}

impl PipelineRuntime for DetRuntime {
    fn default_partitions(&self) -> usize {
        self.inner.cfg.lock().partitions
    }

    fn spawn_pipelines(
        &self,
        pipelines: Vec<ExecutablePartitionPipeline>,
        errors: Arc<dyn ErrorSink>,
    ) -> Arc<dyn QueryHandle> {
        let (profiles, sinks) = ProfileBuffer::new(pipelines.len());
        let handle = Arc::new(DetHandle {
            profiles,
            canceled: AtomicBool::new(false),
        });
        let mut tasks = self.inner.tasks.lock();
        let mut woken = self.inner.shared.woken.lock();
        let mut prng = self.inner.prio_rng.lock();
        for (p, sink) in pipelines.into_iter().zip(sinks) {
            tasks.push(TaskSlot {
                pipeline: Some(p),
                errors: errors.clone(),
                sink: Some(sink),
                handle: handle.clone(),
                errored: false,
                priority: prng.next_u64() | 1,
            });
            woken.push(tasks.len());
        }
        handle
    }
}

pub enum RunOutcome<T> {
    Done(T),
    Deadlock { kind: &'static str, parked: Vec<usize> },
    Diverged,
}

impl DetRuntime {
    pub fn new(cfg: DetConfig) -> Self {
        let shared = Arc::new(DetShared {
            woken: Mutex::new(Vec::new()),
            wake_count: Mutex::new((0, 0)),
            dup_rng: Mutex::new((Rng::new(cfg.seed ^ 0x5151), cfg.dup_wake_p)),
        });
        DetRuntime {
            inner: Arc::new(DetInner {
                tasks: Mutex::new(Vec::new()),
                shared,
                prio_rng: Mutex::new(Rng::new(cfg.seed ^ 0x7777)),
                cfg: Mutex::new(cfg),
            }),
        }
    }

    pub fn reconfigure(&self, cfg: DetConfig) {
        *self.inner.shared.dup_rng.lock() = (Rng::new(cfg.seed ^ 0x5151), cfg.dup_wake_p);
        *self.inner.prio_rng.lock() = Rng::new(cfg.seed ^ 0x7777);
        *self.inner.cfg.lock() = cfg;
    }

    /// Drop all tasks of finished queries (called between steps).
    pub fn clear_tasks(&self) {
        // Keep indices stable within a step only.
        let mut tasks = self.inner.tasks.lock();
        tasks.clear();
        self.inner.shared.woken.lock().clear();
    }

    fn waker_for(&self, id: usize) -> Waker {
        Arc::new(TaskWaker {
            id,
            shared: self.inner.shared.clone(),
        })
        .into()
    }

    /// Poll pipeline task `id`. Returns a small result code for the schedule
    /// hash: 0 pending, 1 done, 2 error, 3 skipped.
    fn poll_task(&self, id: usize, mon: &HarnessMonitor, stats: &mut DetStats) -> u8 {
        // Take the pipeline out of the slot so the task list is not locked
        // while polling (spawn_pipelines may be called re-entrantly by a client
        // poll, not by pipelines, but keep it simple and safe).
        let (mut pipeline, errors, handle, errored) = {
            let mut tasks = self.inner.tasks.lock();
            let slot = match tasks.get_mut(id - 1) {
                Some(s) => s,
                None => return 3,
            };
            match slot.pipeline.take() {
                Some(p) => (p, slot.errors.clone(), slot.handle.clone(), slot.errored),
                None => return 3,
            }
        };
        if handle.canceled.load(Ordering::SeqCst) {
            errors.set_error(DbError::new("Query canceled"));
            // Drop the pipeline: canceled.
            stats.tasks_finished += 1;
            return 2;
        }
        if errored {
            stats.polls_after_error += 1;
        }
        let waker = self.waker_for(id);
        let mut cx = Context::from_waker(&waker);
        mon.begin_poll(id);
        let res = pipeline.poll_execute::<DetInstant>(&mut cx);
        mon.end_poll();
        stats.polls += 1;
        match res {
            Poll::Ready(Ok(prof)) => {
                let mut tasks = self.inner.tasks.lock();
                if let Some(s) = tasks[id - 1].sink.take() {
                    s.put(prof);
                }
                stats.tasks_finished += 1;
                // pipeline dropped: a finished task cannot be polled again by
                // this executor.
                1
            }
            Poll::Ready(Err(e)) => {
                errors.set_error(e);
                let mut tasks = self.inner.tasks.lock();
                tasks[id - 1].pipeline = Some(pipeline);
                tasks[id - 1].errored = true;
                2
            }
            Poll::Pending => {
                let mut tasks = self.inner.tasks.lock();
                tasks[id - 1].pipeline = Some(pipeline);
                0
            }
        }
    }

    fn alive_tasks(&self) -> Vec<usize> {
        let tasks = self.inner.tasks.lock();
        tasks
            .iter()
            .enumerate()
            .filter(|(_, s)| s.pipeline.is_some() && !s.errored)
            .map(|(i, _)| i + 1)
            .collect()
    }

    /// Drive `fut` (the client: query + collect) together with all pipelines
    /// it spawns until the client finishes, a logical deadlock is detected or
    /// the step budget is exceeded.
    pub fn run<T>(
        &self,
        mut fut: Pin<Box<dyn Future<Output = T> + '_>>,
        mon: &HarnessMonitor,
        stats: &mut DetStats,
        cancel_after: Option<u64>,
        cancel_flag: &dyn Fn(),
    ) -> RunOutcome<T> {
        let cfg = self.inner.cfg.lock().clone();
        let mut rng = Rng::new(cfg.seed);
        let client_waker = self.waker_for(0);
        let mut client_prio: u64 = rng.next_u64() | 1;
        // client starts runnable
        self.inner.shared.woken.lock().insert(0, 0);
        let mut steps: u64 = 0;
        let mut hash: u64 = 0xcbf29ce484222325;
        let mut canceled = false;
        // PCT change points
        let mut change_points: Vec<u64> = Vec::new();
        if let Policy::Pct { d, k } = cfg.policy {
            for _ in 0..d {
                change_points.push(1 + rng.below(k.max(1)) as u64);
            }
        }
        let mut low_prio_next: u64 = 0; // decreasing low priorities handed out at change points (as negative offsets)

        loop {
            steps += 1;
            if steps > cfg.step_budget {
                stats.sched_hash = hash;
                stats.parked_at_end = self.alive_tasks();
                return RunOutcome::Diverged;
            }
            if let Some(n) = cancel_after {
                if !canceled && steps > n {
                    canceled = true;
                    cancel_flag();
                }
            }

            // Choose next task.
            let chosen: Option<usize> = {
                let mut w = self.inner.shared.woken.lock();
                // Drop entries of finished tasks (completed tasks ignore wakes).
                {
                    let tasks = self.inner.tasks.lock();
                    w.retain(|&id| id == 0 || tasks.get(id - 1).map(|s| s.pipeline.is_some()).unwrap_or(false));
                }
                if w.is_empty() {
                    None
                } else {
                    let idx = match cfg.policy {
                        Policy::Fifo => 0,
                        Policy::Lifo => w.len() - 1,
                        Policy::Random => rng.below(w.len()),
                        Policy::ClientLast => {
                            let non: Vec<usize> = (0..w.len()).filter(|&i| w[i] != 0).collect();
                            if non.is_empty() { 0 } else { non[rng.below(non.len())] }
                        }
                        Policy::ClientFirst => {
                            match w.iter().position(|&id| id == 0) {
                                Some(i) => i,
                                None => rng.below(w.len()),
                            }
                        }
                        Policy::Starve { k } => {
                            let tasks_n = self.inner.tasks.lock().len() + 1;
                            let victim = k % tasks_n;
                            let non: Vec<usize> = (0..w.len()).filter(|&i| w[i] != victim).collect();
                            if non.is_empty() { 0 } else { non[rng.below(non.len())] }
                        }
                        Policy::Pct { .. } => {
                            let tasks = self.inner.tasks.lock();
                            let mut best = 0;
                            let mut best_p = 0u64;
                            for (i, &id) in w.iter().enumerate() {
                                let p = if id == 0 { client_prio } else { tasks[id - 1].priority };
                                if i == 0 || p > best_p {
                                    best = i;
                                    best_p = p;
                                }
                            }
                            best
                        }
                    };
                    Some(w.remove(idx))
                }
            };

            let chosen = match chosen {
                Some(c) => {
                    // Spurious poll perturbation: sometimes poll a task that was
                    // not woken instead (the chosen one stays runnable).
                    if rng.chance(cfg.spurious_p) {
                        let alive = self.alive_tasks();
                        if !alive.is_empty() {
                            let s = alive[rng.below(alive.len())];
                            if s != c {
                                self.inner.shared.woken.lock().push(c);
                                stats.spurious_polls += 1;
                                s
                            } else {
                                c
                            }
                        } else {
                            c
                        }
                    } else {
                        c
                    }
                }
                None => {
                    // Nothing runnable and the client has not finished: logical
                    // deadlock. Classify by polling every parked task once more.
                    let parked = self.alive_tasks();
                    stats.sched_hash = hash;
                    stats.parked_at_end = parked.clone();
                    let before = self.inner.tasks.lock().iter().filter(|s| s.pipeline.is_some()).count();
                    for &id in &parked {
                        self.poll_task(id, mon, stats);
                    }
                    let after = self.inner.tasks.lock().iter().filter(|s| s.pipeline.is_some()).count();
                    let progressed = after != before || !self.inner.shared.woken.lock().is_empty();
                    let kind = if progressed { "lost_wakeup" } else { "stuck_barrier" };
                    return RunOutcome::Deadlock { kind, parked };
                }
            };

            // PCT priority change point.
            if let Policy::Pct { .. } = cfg.policy {
                if change_points.contains(&steps) {
                    low_prio_next += 1;
                    let lowp = 1000u64.saturating_sub(low_prio_next); // below every random prio (which are huge)
                    if chosen == 0 {
                        client_prio = lowp;
                    } else if let Some(s) = self.inner.tasks.lock().get_mut(chosen - 1) {
                        s.priority = lowp;
                    }
                }
            }

            if chosen == 0 {
                let mut cx = Context::from_waker(&client_waker);
                mon.begin_poll(0);
                let r = fut.as_mut().poll(&mut cx);
                stats.client_polls += 1;
                hash = (hash ^ 0xff).wrapping_mul(0x100000001b3);
                if let Poll::Ready(v) = r {
                    stats.sched_hash = hash;
                    stats.parked_at_end = self.alive_tasks();
                    let c = self.inner.shared.wake_count.lock();
                    stats.wakes = c.0;
                    stats.dup_wakes = c.1;
                    stats.tasks_spawned = self.inner.tasks.lock().len() as u64;
                    return RunOutcome::Done(v);
                }
            } else {
                let code = self.poll_task(chosen, mon, stats);
                hash = (hash ^ ((chosen as u64) << 2 | code as u64)).wrapping_mul(0x100000001b3);
            }
        }
    }

    /// After the client finished: run remaining runnable tasks to quiescence
    /// (bounded), so that late errors/panics in trailing pipelines surface.
    pub fn drain(&self, mon: &HarnessMonitor, stats: &mut DetStats, max: u64) {
        let mut n = 0;
        loop {
            let next = {
                let mut w = self.inner.shared.woken.lock();
                w.retain(|&id| id != 0);
                if w.is_empty() { None } else { Some(w.remove(0)) }
            };
            match next {
                Some(id) => {
                    self.poll_task(id, mon, stats);
                }
                None => break,
            }
            n += 1;
            if n > max {
                break;
            }
        }
    }
}
