//! vdrive: executes scripts of SQL cases against the real engine under a
//! chosen executor and records a typed history (JSON lines).
mod chaosfs;
mod exec_det;
mod monitor;
mod rng;
mod values;

use std::future::Future;
use std::io::{BufRead, Write};
use std::panic::AssertUnwindSafe;
use std::pin::Pin;
use std::sync::Arc;
use std::sync::atomic::{AtomicBool, Ordering};
use std::task::{Context, Poll, Wake, Waker};
use std::time::{Duration, Instant};

use chaosfs::VerifSystemRuntime;
use exec_det::{DetConfig, DetRuntime, DetStats, Policy, RunOutcome};
use glaredb_core::arrays::batch::Batch;
use glaredb_core::arrays::field::ColumnSchema;
use glaredb_core::engine::Engine;
use glaredb_core::engine::session::Session;
use glaredb_core::runtime::pipeline::{PipelineRuntime, QueryHandle};
use glaredb_error::DbError;
use glaredb_ext_csv::extension::CsvExtension;
use glaredb_ext_parquet::extension::ParquetExtension;
use glaredb_rt_native::runtime::ThreadedNativeExecutor;
use monitor::HarnessMonitor;
use parking_lot::Mutex;
use serde_json::{Map, Value, json};

static PANIC_INFO: Mutex<Option<(String, String, String)>> = Mutex::new(None);
static JOURNAL: Mutex<Option<std::fs::File>> = Mutex::new(None);

fn journal(v: &Value) {
    if let Some(f) = JOURNAL.lock().as_mut() {
        let _ = writeln!(f, "{}", v);
        let _ = f.flush();
    }
}

fn first_repo_frame(bt: &str) -> String {
    // Backtrace format: "  N: function\n             at file:line:col"
    let lines: Vec<&str> = bt.lines().collect();
    for i in 0..lines.len() {
        let l = lines[i].trim();
        if l.starts_with("at ") && l.contains("/repo/crates/") {
            let func = if i > 0 { lines[i - 1].trim() } else { "" };
            let func = func.splitn(2, ": ").nth(1).unwrap_or(func);
            let file = l.trim_start_matches("at ").trim();
            // strip line:col
            let file = file.rsplitn(3, ':').last().unwrap_or(file);
            let file = file.trim_start_matches("/repo/crates/");
            return format!("{} @ {}", func, file);
        }
    }
    String::new()
}

fn install_panic_hook() {
    std::panic::set_hook(Box::new(|info| {
        let msg = if let Some(s) = info.payload().downcast_ref::<&str>() {
            s.to_string()
        } else if let Some(s) = info.payload().downcast_ref::<String>() {
            s.clone()
        } else {
            "<non-string panic>".to_string()
        };
        let loc = info
            .location()
            .map(|l| format!("{}:{}", l.file(), l.line()))
            .unwrap_or_default();
        // Symbolizing a backtrace costs ~0.4 s; the panic location is enough
        // when it already lies in the repository.
        let frame = if loc.contains("/repo/crates/") && std::env::var("VDRIVE_BT").is_err() {
            String::new()
        } else {
            let bt = std::backtrace::Backtrace::force_capture().to_string();
            first_repo_frame(&bt)
        };
        let thread = std::thread::current().name().unwrap_or("").to_string();
        journal(&json!({"panic_hook": {"msg": msg, "loc": loc, "frame": frame, "thread": thread}}));
        *PANIC_INFO.lock() = Some((msg, loc, frame));
    }));
}

#[derive(Clone)]
struct ExecCfg {
    kind: String,
    threads: usize,
    policy: String,
    seed: u64,
    yield_p: f64,
    spurious_p: f64,
    dup_wake_p: f64,
    pause_p: f64,
    step_budget: u64,
    pct_d: usize,
    pct_k: usize,
    starve_k: usize,
    partitions: usize,
    timeout_s: f64,
    log_sched: bool,
}

fn exec_cfg(v: &Value, base: Option<&ExecCfg>) -> ExecCfg {
    let g = |k: &str| v.get(k);
    let b = base.cloned().unwrap_or(ExecCfg {
        kind: "det".into(),
        threads: 4,
        policy: "fifo".into(),
        seed: 0,
        yield_p: 0.0,
        spurious_p: 0.0,
        dup_wake_p: 0.0,
        pause_p: 0.0,
        step_budget: 50_000_000,
        pct_d: 2,
        pct_k: 1000,
        starve_k: 1,
        partitions: 4,
        timeout_s: 120.0,
        log_sched: false,
    });
    ExecCfg {
        kind: g("kind").and_then(|x| x.as_str()).map(|s| s.to_string()).unwrap_or(b.kind),
        threads: g("threads").and_then(|x| x.as_u64()).map(|x| x as usize).unwrap_or(b.threads),
        policy: g("policy").and_then(|x| x.as_str()).map(|s| s.to_string()).unwrap_or(b.policy),
        seed: g("seed").and_then(|x| x.as_u64()).unwrap_or(b.seed),
        yield_p: g("yield_p").and_then(|x| x.as_f64()).unwrap_or(b.yield_p),
        spurious_p: g("spurious_p").and_then(|x| x.as_f64()).unwrap_or(b.spurious_p),
        dup_wake_p: g("dup_wake_p").and_then(|x| x.as_f64()).unwrap_or(b.dup_wake_p),
        pause_p: g("pause_p").and_then(|x| x.as_f64()).unwrap_or(b.pause_p),
        step_budget: g("step_budget").and_then(|x| x.as_u64()).unwrap_or(b.step_budget),
        pct_d: g("pct_d").and_then(|x| x.as_u64()).map(|x| x as usize).unwrap_or(b.pct_d),
        pct_k: g("pct_k").and_then(|x| x.as_u64()).map(|x| x as usize).unwrap_or(b.pct_k),
        starve_k: g("starve_k").and_then(|x| x.as_u64()).map(|x| x as usize).unwrap_or(b.starve_k),
        partitions: g("partitions").and_then(|x| x.as_u64()).map(|x| x as usize).unwrap_or(b.partitions),
        timeout_s: g("timeout_s").and_then(|x| x.as_f64()).unwrap_or(b.timeout_s),
        log_sched: g("log_sched").and_then(|x| x.as_bool()).unwrap_or(b.log_sched),
    }
}

fn det_config(c: &ExecCfg) -> DetConfig {
    let policy = match c.policy.as_str() {
        "fifo" => Policy::Fifo,
        "lifo" => Policy::Lifo,
        "random" => Policy::Random,
        "pct" => Policy::Pct { d: c.pct_d, k: c.pct_k },
        "starve" => Policy::Starve { k: c.starve_k },
        "client_last" => Policy::ClientLast,
        "client_first" => Policy::ClientFirst,
        _ => Policy::Fifo,
    };
    DetConfig {
        policy,
        seed: c.seed,
        spurious_p: c.spurious_p,
        dup_wake_p: c.dup_wake_p,
        step_budget: c.step_budget,
        partitions: c.partitions,
    }
}

type StepOk = Option<(ColumnSchema, Vec<Batch>)>;
type StepRes = Result<StepOk, DbError>;

enum Driven {
    Done(StepRes),
    Deadlock(&'static str, Vec<usize>),
    Diverged,
    Timeout,
}

trait Driver {
    fn configure_step(&self, cfg: &ExecCfg, mon: &HarnessMonitor);
    fn drive(
        &self,
        fut: Pin<Box<dyn Future<Output = StepRes> + '_>>,
        cfg: &ExecCfg,
        mon: &HarnessMonitor,
        cancel_after: Option<u64>,
        cancel: &(dyn Fn() + Sync),
        stats: &mut Map<String, Value>,
    ) -> Driven;
    fn after_step(&self, mon: &HarnessMonitor, stats: &mut Map<String, Value>);
}

struct DetDriver {
    rt: DetRuntime,
}

impl Driver for DetDriver {
    fn configure_step(&self, cfg: &ExecCfg, mon: &HarnessMonitor) {
        self.rt.reconfigure(det_config(cfg));
        mon.configure(cfg.seed, cfg.yield_p, 0.0, true, false);
    }

    fn drive(
        &self,
        fut: Pin<Box<dyn Future<Output = StepRes> + '_>>,
        _cfg: &ExecCfg,
        mon: &HarnessMonitor,
        cancel_after: Option<u64>,
        cancel: &(dyn Fn() + Sync),
        stats: &mut Map<String, Value>,
    ) -> Driven {
        let mut st = DetStats::default();
        let out = self.rt.run(fut, mon, &mut st, cancel_after, &|| cancel());
        let r = match out {
            RunOutcome::Done(v) => {
                self.rt.drain(mon, &mut st, 100_000);
                Driven::Done(v)
            }
            RunOutcome::Deadlock { kind, parked } => Driven::Deadlock(kind, parked),
            RunOutcome::Diverged => Driven::Diverged,
        };
        stats.insert("polls".into(), json!(st.polls));
        stats.insert("client_polls".into(), json!(st.client_polls));
        stats.insert("wakes".into(), json!(st.wakes));
        stats.insert("dup_wakes".into(), json!(st.dup_wakes));
        stats.insert("spurious".into(), json!(st.spurious_polls));
        stats.insert("polls_after_error".into(), json!(st.polls_after_error));
        stats.insert("sched_hash".into(), json!(format!("{:016x}", st.sched_hash)));
        stats.insert("tasks".into(), json!(st.tasks_spawned));
        stats.insert("tasks_finished".into(), json!(st.tasks_finished));
        stats.insert("parked".into(), json!(st.parked_at_end.len()));
        r
    }

    fn after_step(&self, mon: &HarnessMonitor, stats: &mut Map<String, Value>) {
        self.rt.clear_tasks();
        let st = mon.state.lock();
        stats.insert("yields".into(), json!(st.yields));
        if !st.protocol_violations.is_empty() {
            stats.insert("protocol_violations".into(), json!(st.protocol_violations));
        }
    }
}

struct ThreadWaker {
    thread: std::thread::Thread,
    woken: AtomicBool,
}

impl Wake for ThreadWaker {
    fn wake(self: Arc<Self>) {
        self.woken.store(true, Ordering::SeqCst);
        self.thread.unpark();
    }
}

struct NativeDriver;

impl Driver for NativeDriver {
    fn configure_step(&self, cfg: &ExecCfg, mon: &HarnessMonitor) {
        mon.configure(cfg.seed, 0.0, cfg.pause_p, false, cfg.log_sched);
    }

    fn drive(
        &self,
        mut fut: Pin<Box<dyn Future<Output = StepRes> + '_>>,
        cfg: &ExecCfg,
        _mon: &HarnessMonitor,
        cancel_after: Option<u64>,
        cancel: &(dyn Fn() + Sync),
        stats: &mut Map<String, Value>,
    ) -> Driven {
        let tw = Arc::new(ThreadWaker {
            thread: std::thread::current(),
            woken: AtomicBool::new(true),
        });
        let waker: Waker = tw.clone().into();
        let mut cx = Context::from_waker(&waker);
        let start = Instant::now();
        let deadline = start + Duration::from_secs_f64(cfg.timeout_s);
        // cancel_after is in microseconds for the native executor.
        let cancel_at = cancel_after.map(|us| start + Duration::from_micros(us));
        let mut canceled = false;
        let mut polls = 0u64;
        loop {
            if tw.woken.swap(false, Ordering::SeqCst) {
                polls += 1;
                if let Poll::Ready(v) = fut.as_mut().poll(&mut cx) {
                    stats.insert("client_polls".into(), json!(polls));
                    return Driven::Done(v);
                }
            }
            let now = Instant::now();
            if let Some(at) = cancel_at {
                if !canceled && now >= at {
                    canceled = true;
                    cancel();
                    stats.insert("cancel_issued".into(), json!(true));
                    continue;
                }
            }
            if now >= deadline {
                stats.insert("client_polls".into(), json!(polls));
                return Driven::Timeout;
            }
            let mut wait = deadline - now;
            if let Some(at) = cancel_at {
                if !canceled && at > now {
                    wait = wait.min(at - now);
                }
            }
            if !tw.woken.load(Ordering::SeqCst) {
                std::thread::park_timeout(wait.min(Duration::from_millis(50)));
            }
        }
    }

    fn after_step(&self, mon: &HarnessMonitor, stats: &mut Map<String, Value>) {
        if !mon.log_sched.load(Ordering::Relaxed) {
            return;
        }
        // Wait for quiescence of the worker pool: log length stable and every
        // exec_begin matched by an exec_end.
        let mut last_len = usize::MAX;
        let mut stable = 0;
        for _ in 0..2000 {
            let (len, open) = {
                let st = mon.state.lock();
                let b = st.sched_log.iter().filter(|e| e.1 == "exec_begin").count();
                let e = st.sched_log.iter().filter(|e| e.1.starts_with("exec_end")).count();
                let spawn = st.sched_log.iter().filter(|e| e.1 == "sched_spawn").count();
                let fin = st
                    .sched_log
                    .iter()
                    .filter(|e| e.1 == "loop_idle" || e.1 == "loop_break_completed")
                    .count();
                (st.sched_log.len(), (b != e) || (spawn != fin))
            };
            if len == last_len && !open {
                stable += 1;
                if stable >= 3 {
                    break;
                }
            } else {
                stable = 0;
            }
            last_len = len;
            std::thread::sleep(Duration::from_micros(500));
        }
        let st = mon.state.lock();
        let (viol, counts) = monitor::check_sched_log(&st.sched_log);
        stats.insert("sched_events".into(), json!(st.sched_log.len()));
        stats.insert("sched_counts".into(), json!(counts));
        stats.insert("quiescent".into(), json!(stable >= 3));
        if !viol.is_empty() {
            stats.insert("sched_violations".into(), json!(viol));
            let tail: Vec<String> = st
                .sched_log
                .iter()
                .rev()
                .take(60)
                .rev()
                .map(|(t, k, f)| format!("{:x} {} {:?}", t, k, f))
                .collect();
            stats.insert("sched_log_tail".into(), json!(tail));
        }
        let pc: Map<String, Value> = st
            .pause_counts
            .iter()
            .map(|(k, v)| (k.to_string(), json!(v)))
            .collect();
        stats.insert("pauses".into(), Value::Object(pc));
    }
}

fn encode_result(
    schema: &ColumnSchema,
    batches: &[Batch],
    mode: &str,
    max_rows: usize,
) -> Map<String, Value> {
    let mut m = Map::new();
    let sch: Vec<Value> = schema
        .fields
        .iter()
        .map(|f| json!([f.name, f.datatype.to_string()]))
        .collect();
    m.insert("schema".into(), Value::Array(sch));
    let mut total = 0usize;
    let mut binfo = Vec::new();
    let mut mismatch: Option<String> = None;
    let mut rows: Vec<Value> = Vec::new();
    let mut truncated = false;
    for b in batches {
        let n = b.num_rows();
        total += n;
        let types: Vec<String> = b.arrays().iter().map(|a| a.datatype().to_string()).collect();
        // Array-level schema agreement (C18).
        if b.arrays().len() != schema.fields.len() && mismatch.is_none() {
            mismatch = Some(format!(
                "batch has {} arrays, schema has {} fields",
                b.arrays().len(),
                schema.fields.len()
            ));
        }
        for (a, f) in b.arrays().iter().zip(schema.fields.iter()) {
            if a.datatype() != &f.datatype && mismatch.is_none() {
                mismatch = Some(format!(
                    "array type {} under announced field {} {}",
                    a.datatype(),
                    f.name,
                    f.datatype
                ));
            }
        }
        binfo.push(json!({"n": n, "types": types}));
        if mode == "rows" {
            for r in 0..n {
                if rows.len() >= max_rows {
                    truncated = true;
                    break;
                }
                let mut row = Vec::with_capacity(b.arrays().len());
                for a in b.arrays() {
                    match a.get_value(r) {
                        Ok(v) => row.push(values::encode(&v, a.datatype(), &mut mismatch)),
                        Err(e) => {
                            if mismatch.is_none() {
                                mismatch = Some(format!("get_value failed: {}", e));
                            }
                            row.push(Value::Null)
                        }
                    }
                }
                rows.push(Value::Array(row));
            }
        }
    }
    m.insert("count".into(), json!(total));
    m.insert("batches".into(), Value::Array(binfo));
    if mode == "rows" {
        m.insert("rows".into(), Value::Array(rows));
        if truncated {
            m.insert("truncated".into(), json!(true));
        }
    }
    if let Some(mm) = mismatch {
        m.insert("mismatch".into(), json!(mm));
    }
    m
}

fn run_case<P: PipelineRuntime, D: Driver>(
    case: &Value,
    exec: P,
    driver: &D,
    base_cfg: &ExecCfg,
    mon: &Arc<HarnessMonitor>,
) -> Value {
    let mut out = Map::new();
    out.insert("id".into(), case["id"].clone());
    let sys = VerifSystemRuntime::new();
    let engine = match Engine::new(exec, sys) {
        Ok(e) => e,
        Err(e) => {
            out.insert("fatal".into(), json!(format!("engine: {}", e)));
            return Value::Object(out);
        }
    };
    let _ = engine.register_extension(CsvExtension);
    let _ = engine.register_extension(ParquetExtension);
    let nsess = case.get("sessions").and_then(|x| x.as_u64()).unwrap_or(1) as usize;
    let mut sessions: Vec<Session<P, VerifSystemRuntime>> = Vec::new();
    for _ in 0..nsess.max(1) {
        match engine.new_session() {
            Ok(s) => sessions.push(s),
            Err(e) => {
                out.insert("fatal".into(), json!(format!("session: {}", e)));
                return Value::Object(out);
            }
        }
    }
    let default_mode = case.get("out").and_then(|x| x.as_str()).unwrap_or("rows").to_string();
    let max_rows = case.get("max_rows").and_then(|x| x.as_u64()).unwrap_or(200_000) as usize;
    let empty = Vec::new();
    let steps = case.get("steps").and_then(|x| x.as_array()).unwrap_or(&empty);
    let mut results = Vec::new();
    let mut dead = false;
    let mut op_counts_total: std::collections::BTreeMap<String, u64> = Default::default();

    let journal_steps = case.get("journal_steps").and_then(|x| x.as_bool()).unwrap_or(false);
    for (step_idx, step) in steps.iter().enumerate() {
        let mut sm = Map::new();
        if journal_steps && !dead {
            // lets the supervisor attribute a process death to one statement of the case
            journal(&json!({"step": step_idx}));
        }
        if dead {
            sm.insert("outcome".into(), json!("skipped"));
            results.push(Value::Object(sm));
            continue;
        }
        let sql = step.get("sql").and_then(|x| x.as_str()).unwrap_or("");
        let sidx = step.get("s").and_then(|x| x.as_u64()).unwrap_or(0) as usize % sessions.len();
        let mode = step.get("out").and_then(|x| x.as_str()).unwrap_or(&default_mode).to_string();
        let cfg = match step.get("exec") {
            Some(v) => exec_cfg(v, Some(base_cfg)),
            None => base_cfg.clone(),
        };
        let cancel_after = step.get("cancel_after").and_then(|x| x.as_u64());
        driver.configure_step(&cfg, mon);
        *PANIC_INFO.lock() = None;

        let handle_slot: Arc<Mutex<Option<Arc<dyn QueryHandle>>>> = Arc::new(Mutex::new(None));
        let cancel_requested = Arc::new(AtomicBool::new(false));
        let mut stats = Map::new();
        let t0 = Instant::now();
        let cpu0 = cpu_time();

        let res = {
            let session = &mut sessions[sidx];
            let slot = handle_slot.clone();
            let creq = cancel_requested.clone();
            let slot2 = handle_slot.clone();
            let creq2 = cancel_requested.clone();
            let cancel = move || {
                creq2.store(true, Ordering::SeqCst);
                if let Some(h) = slot2.lock().as_ref() {
                    h.cancel();
                }
            };
            std::panic::catch_unwind(AssertUnwindSafe(|| {
                let fut: Pin<Box<dyn Future<Output = StepRes> + '_>> = Box::pin(async move {
                    let results = session.simple(sql).await?;
                    let mut last = None;
                    for mut r in results {
                        let h = r.output.query_handle();
                        *slot.lock() = Some(h.clone());
                        if creq.load(Ordering::SeqCst) {
                            h.cancel();
                        }
                        let batches = r.output.collect().await?;
                        last = Some((r.output_schema, batches));
                    }
                    Ok(last)
                });
                driver.drive(fut, &cfg, mon, cancel_after, &cancel, &mut stats)
            }))
        };
        *handle_slot.lock() = None;

        match res {
            Ok(Driven::Done(Ok(Some((schema, batches))))) => {
                sm.insert("outcome".into(), json!("rows"));
                let enc = encode_result(&schema, &batches, &mode, max_rows);
                for (k, v) in enc {
                    sm.insert(k, v);
                }
            }
            Ok(Driven::Done(Ok(None))) => {
                sm.insert("outcome".into(), json!("empty"));
            }
            Ok(Driven::Done(Err(e))) => {
                sm.insert("outcome".into(), json!("error"));
                sm.insert("error".into(), json!(e.to_string()));
            }
            Ok(Driven::Deadlock(kind, parked)) => {
                sm.insert("outcome".into(), json!("deadlock"));
                sm.insert("deadlock_kind".into(), json!(kind));
                let st = mon.state.lock();
                let mut ops: Vec<String> = parked
                    .iter()
                    .filter_map(|t| st.last_pending.get(t))
                    .map(|(n, e)| format!("{}/{}", n, if *e { "exec" } else { "fin" }))
                    .collect();
                ops.sort();
                ops.dedup();
                sm.insert("parked_ops".into(), json!(ops));
                sm.insert("parked_tasks".into(), json!(parked));
            }
            Ok(Driven::Diverged) => {
                sm.insert("outcome".into(), json!("diverged"));
            }
            Ok(Driven::Timeout) => {
                sm.insert("outcome".into(), json!("timeout"));
                dead = true;
            }
            Err(_) => {
                sm.insert("outcome".into(), json!("panic"));
                if let Some((msg, loc, frame)) = PANIC_INFO.lock().take() {
                    sm.insert("panic_msg".into(), json!(msg));
                    sm.insert("panic_loc".into(), json!(loc));
                    sm.insert("panic_frame".into(), json!(frame));
                }
                dead = true;
            }
        }
        if !dead {
            driver.after_step(mon, &mut stats);
        }
        {
            let mut st = mon.state.lock();
            for ((name, exec, r), v) in std::mem::take(&mut st.op_counts) {
                let k = format!(
                    "{}/{}/{}",
                    name,
                    if exec { "exec" } else { "fin" },
                    monitor::res_name(r)
                );
                *op_counts_total.entry(k).or_insert(0) += v;
            }
            let notes = std::mem::take(&mut st.notes);
            if !notes.is_empty() {
                sm.insert(
                    "notes".into(),
                    Value::Array(notes.into_iter().map(|(k, p)| json!([k, p])).collect()),
                );
            }
        }
        stats.insert("wall_ms".into(), json!(t0.elapsed().as_secs_f64() * 1000.0));
        stats.insert("cpu_ms".into(), json!((cpu_time() - cpu0) * 1000.0));
        sm.insert("stats".into(), Value::Object(stats));
        results.push(Value::Object(sm));
    }
    out.insert("steps".into(), Value::Array(results));
    out.insert(
        "op_counts".into(),
        Value::Object(op_counts_total.into_iter().map(|(k, v)| (k, json!(v))).collect()),
    );
    if dead {
        // State may hold locked mutexes / running workers: never drop it.
        std::mem::forget(sessions);
        std::mem::forget(engine);
    }
    Value::Object(out)
}

fn cpu_time() -> f64 {
    // utime+stime of the process from /proc/self/stat (clock ticks = 100/s).
    if let Ok(s) = std::fs::read_to_string("/proc/self/stat") {
        if let Some(pos) = s.rfind(')') {
            let f: Vec<&str> = s[pos + 2..].split_whitespace().collect();
            if f.len() > 13 {
                let u: f64 = f[11].parse().unwrap_or(0.0);
                let st: f64 = f[12].parse().unwrap_or(0.0);
                return (u + st) / 100.0;
            }
        }
    }
    0.0
}

fn run_script(script: &str, outpath: &str) {
    let f = std::fs::File::open(script).expect("open script");
    let outf = std::fs::OpenOptions::new()
        .create(true)
        .append(true)
        .open(outpath)
        .expect("open out");
    *JOURNAL.lock() = Some(outf);
    install_panic_hook();
    let mon = Arc::new(HarnessMonitor::new());
    glaredb_core::verif::install(Some(mon.clone()));

    for line in std::io::BufReader::new(f).lines() {
        let line = line.expect("read");
        if line.trim().is_empty() {
            continue;
        }
        let case: Value = match serde_json::from_str(&line) {
            Ok(v) => v,
            Err(e) => {
                journal(&json!({"bad_case": e.to_string()}));
                continue;
            }
        };
        journal(&json!({"start": case["id"]}));
        let base = exec_cfg(case.get("exec").unwrap_or(&Value::Null), None);
        let res = match base.kind.as_str() {
            "native" => match ThreadedNativeExecutor::try_new_with_num_threads(base.threads.max(1)) {
                Ok(exec) => run_case(&case, exec, &NativeDriver, &base, &mon),
                Err(e) => json!({"id": case["id"], "fatal": e.to_string()}),
            },
            _ => {
                let rt = DetRuntime::new(det_config(&base));
                let driver = DetDriver { rt: rt.clone() };
                run_case(&case, rt, &driver, &base, &mon)
            }
        };
        journal(&res);
    }
    journal(&json!({"finished": true}));
}

fn selftest_parse(path: &str) {
    // Prints Rust's FromStr verdicts so that the Python mirrors of these
    // grammars can be checked against rustc.
    let f = std::fs::File::open(path).expect("open");
    for line in std::io::BufReader::new(f).lines() {
        let line = line.expect("read");
        let s: String = serde_json::from_str(&line).expect("json string");
        let i = s.parse::<i64>().ok();
        let fl = s.parse::<f64>().ok().map(|x| x.to_bits());
        println!("{}", json!({"s": s, "i64": i, "f64": fl}));
    }
}

/// Deliberate defects, used to confirm that an instrumented build (or valgrind / Miri) really reports what C16 relies
/// on: a check that is silent because its tool is not functioning must not pass for "held".
fn canary(kind: &str) {
    match kind {
        "race" => {
            static mut COUNTER: u64 = 0;
            let hs: Vec<_> = (0..2)
                .map(|_| {
                    std::thread::spawn(|| {
                        for _ in 0..100_000 {
                            unsafe {
                                let p = std::ptr::addr_of_mut!(COUNTER);
                                p.write_volatile(p.read_volatile() + 1);
                            }
                        }
                    })
                })
                .collect();
            for h in hs {
                let _ = h.join();
            }
            println!("{}", unsafe { std::ptr::addr_of!(COUNTER).read_volatile() });
        }
        "oob" => {
            let v = vec![1u8; 16];
            let x = unsafe { std::ptr::read_volatile(v.as_ptr().add(16 + 3)) };
            println!("{}", x);
        }
        "uninit" => {
            let layout = std::alloc::Layout::from_size_align(64, 8).unwrap();
            let p = unsafe { std::alloc::alloc(layout) };
            let x = unsafe { std::ptr::read_volatile(p.add(5)) };
            if x == 7 {
                println!("seven");
            } else {
                println!("other");
            }
            unsafe { std::alloc::dealloc(p, layout) };
        }
        _ => eprintln!("unknown canary"),
    }
}

fn main() {
    let args: Vec<String> = std::env::args().collect();
    if args.len() >= 3 && args[1] == "selftest-parse" {
        selftest_parse(&args[2]);
        return;
    }
    if args.len() >= 3 && args[1] == "canary" {
        canary(&args[2]);
        return;
    }
    if args.len() < 4 || args[1] != "run" {
        eprintln!("usage: vdrive run <script.jsonl> <out.jsonl> | vdrive selftest-parse <strings.jsonl>");
        std::process::exit(2);
    }
    let script = args[2].clone();
    let out = args[3].clone();
    let stack_mb: usize = std::env::var("VDRIVE_STACK_MB")
        .ok()
        .and_then(|s| s.parse().ok())
        .unwrap_or(8);
    let h = std::thread::Builder::new()
        .name("vdrive-main".into())
        .stack_size(stack_mb << 20)
        .spawn(move || run_script(&script, &out))
        .expect("spawn");
    let _ = h.join();
}
