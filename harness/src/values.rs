//! Canonical typed encoding of result values as JSON.
use glaredb_core::arrays::datatype::{DataType, DataTypeId};
use glaredb_core::arrays::scalar::BorrowedScalarValue as V;
use serde_json::{Value, json};

fn hex(b: &[u8]) -> String {
    let mut s = String::with_capacity(b.len() * 2);
    for x in b {
        s.push_str(&format!("{:02x}", x));
    }
    s
}

fn big(v: impl ToString) -> Value {
    // Python reads arbitrary-size integers from JSON; serde_json cannot write
    // 128-bit numbers without a feature, so tag them.
    json!({"big": v.to_string()})
}

/// Encode a value; `mismatch` is set when the value's variant (or its
/// precision/scale/unit) does not agree with the array's declared datatype.
pub fn encode(v: &V<'_>, dt: &DataType, mismatch: &mut Option<String>) -> Value {
    let id = dt.id();
    let mut check = |ok: bool, what: &str| {
        if !ok && mismatch.is_none() {
            *mismatch = Some(format!("value variant {} under array type {}", what, dt));
        }
    };
    match v {
        V::Null => Value::Null,
        V::Boolean(b) => {
            check(id == DataTypeId::Boolean, "Boolean");
            json!(b)
        }
        V::Float16(f) => {
            check(id == DataTypeId::Float16, "Float16");
            json!({"f16": f.to_bits()})
        }
        V::Float32(f) => {
            check(id == DataTypeId::Float32, "Float32");
            json!({"f32": f.to_bits()})
        }
        V::Float64(f) => {
            check(id == DataTypeId::Float64, "Float64");
            json!({"f64": f.to_bits()})
        }
        V::Int8(i) => {
            check(id == DataTypeId::Int8, "Int8");
            json!(i)
        }
        V::Int16(i) => {
            check(id == DataTypeId::Int16, "Int16");
            json!(i)
        }
        V::Int32(i) => {
            check(id == DataTypeId::Int32, "Int32");
            json!(i)
        }
        V::Int64(i) => {
            check(id == DataTypeId::Int64, "Int64");
            json!(i)
        }
        V::Int128(i) => {
            check(id == DataTypeId::Int128, "Int128");
            big(i)
        }
        V::UInt8(i) => {
            check(id == DataTypeId::UInt8, "UInt8");
            json!(i)
        }
        V::UInt16(i) => {
            check(id == DataTypeId::UInt16, "UInt16");
            json!(i)
        }
        V::UInt32(i) => {
            check(id == DataTypeId::UInt32, "UInt32");
            json!(i)
        }
        V::UInt64(i) => {
            check(id == DataTypeId::UInt64, "UInt64");
            json!(i)
        }
        V::UInt128(i) => {
            check(id == DataTypeId::UInt128, "UInt128");
            big(i)
        }
        V::Decimal64(d) => {
            let ok = id == DataTypeId::Decimal64
                && dt
                    .try_get_decimal_type_meta()
                    .map(|m| m.precision == d.precision && m.scale == d.scale)
                    .unwrap_or(false);
            check(ok, &format!("Decimal64({},{})", d.precision, d.scale));
            json!({"d": [d.value, d.precision, d.scale]})
        }
        V::Decimal128(d) => {
            let ok = id == DataTypeId::Decimal128
                && dt
                    .try_get_decimal_type_meta()
                    .map(|m| m.precision == d.precision && m.scale == d.scale)
                    .unwrap_or(false);
            check(ok, &format!("Decimal128({},{})", d.precision, d.scale));
            json!({"d": [big(d.value), d.precision, d.scale]})
        }
        V::Date32(d) => {
            check(id == DataTypeId::Date32, "Date32");
            json!({"date": d})
        }
        V::Date64(d) => {
            check(id == DataTypeId::Date64, "Date64");
            json!({"date64": d})
        }
        V::Timestamp(t) => {
            let ok = id == DataTypeId::Timestamp
                && dt
                    .try_get_timestamp_type_meta()
                    .map(|m| m.unit == t.unit)
                    .unwrap_or(false);
            check(ok, &format!("Timestamp({})", t.unit));
            json!({"ts": [t.unit.to_string(), t.value]})
        }
        V::Interval(i) => {
            check(id == DataTypeId::Interval, "Interval");
            json!({"iv": [i.months, i.days, i.nanos]})
        }
        V::Utf8(s) => {
            check(id == DataTypeId::Utf8, "Utf8");
            // get_value builds the str unchecked: validate on the raw bytes.
            let bytes = s.as_bytes();
            match std::str::from_utf8(bytes) {
                Ok(ok) => json!(ok),
                Err(_) => json!({"badutf8": hex(bytes)}),
            }
        }
        V::Binary(b) => {
            check(id == DataTypeId::Binary, "Binary");
            json!({"b": hex(b)})
        }
        V::Struct(vals) => {
            check(id == DataTypeId::Struct, "Struct");
            let mut out = Vec::new();
            match dt.try_get_struct_type_meta() {
                Ok(m) if m.fields.len() == vals.len() => {
                    for (x, f) in vals.iter().zip(m.fields.iter()) {
                        out.push(encode(x, &f.datatype, mismatch));
                    }
                }
                _ => {
                    if mismatch.is_none() {
                        *mismatch = Some(format!("struct arity mismatch under {}", dt));
                    }
                }
            }
            json!({"st": out})
        }
        V::List(vals) => {
            check(id == DataTypeId::List, "List");
            let mut out = Vec::new();
            match dt.try_get_list_type_meta() {
                Ok(m) => {
                    for x in vals.iter() {
                        out.push(encode(x, &m.datatype, mismatch));
                    }
                }
                _ => {
                    if mismatch.is_none() {
                        *mismatch = Some(format!("list without list meta under {}", dt));
                    }
                }
            }
            json!({"l": out})
        }
    }
}
