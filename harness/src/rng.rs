/// Small deterministic PRNG (splitmix64) so runs replay from a seed.
#[derive(Debug, Clone)]
pub struct Rng(pub u64);

impl Rng {
    pub fn new(seed: u64) -> Self {
        Rng(seed ^ 0x9E37_79B9_7F4A_7C15)
    }
    pub fn next_u64(&mut self) -> u64 {
        self.0 = self.0.wrapping_add(0x9E37_79B9_7F4A_7C15);
        let mut z = self.0;
        z = (z ^ (z >> 30)).wrapping_mul(0xBF58_476D_1CE4_E5B9);
        z = (z ^ (z >> 27)).wrapping_mul(0x94D0_49BB_1331_11EB);
        z ^ (z >> 31)
    }
    pub fn below(&mut self, n: usize) -> usize {
        if n == 0 { 0 } else { (self.next_u64() % n as u64) as usize }
    }
    pub fn chance(&mut self, p: f64) -> bool {
        if p <= 0.0 {
            return false;
        }
        if p >= 1.0 {
            return true;
        }
        ((self.next_u64() >> 11) as f64) / ((1u64 << 53) as f64) < p
    }
}
