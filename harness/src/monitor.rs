//! Harness-side monitor installed into glaredb_core::verif.
use std::collections::{BTreeMap, HashMap};
use std::sync::atomic::{AtomicBool, AtomicU64, AtomicUsize, Ordering};

use glaredb_core::verif::{Monitor, OpEvent, OpKind, OpResult};
use parking_lot::Mutex;

use crate::rng::Rng;

#[derive(Debug, Default)]
pub struct OpTrack {
    exhausted: bool,
    finalized_nonpending: u32,
    finalized: bool,
}

#[derive(Debug, Default)]
pub struct MonState {
    pub rng: Option<Rng>,
    /// (task, op_idx) -> protocol tracking (det mode only)
    pub track: HashMap<(usize, usize), OpTrack>,
    pub protocol_violations: Vec<String>,
    /// op_name/kind/result -> count
    pub op_counts: HashMap<(&'static str, bool, u8), u64>,
    pub notes: Vec<(String, String)>,
    pub sched_log: Vec<(usize, &'static str, [bool; 4])>,
    pub pause_counts: BTreeMap<&'static str, u64>,
    pub yields: u64,
    /// det mode: task -> operator call that last returned Pending
    pub last_pending: HashMap<usize, (&'static str, bool)>,
}

pub struct HarnessMonitor {
    pub state: Mutex<MonState>,
    /// det mode: id of the task currently being polled (0 = none/client)
    pub current_task: AtomicUsize,
    pub calls_in_poll: AtomicUsize,
    pub yield_p_bits: AtomicU64,
    pub pause_p_bits: AtomicU64,
    pub track_protocol: AtomicBool,
    pub log_sched: AtomicBool,
}

impl HarnessMonitor {
    pub fn new() -> Self {
        HarnessMonitor {
            state: Mutex::new(MonState::default()),
            current_task: AtomicUsize::new(0),
            calls_in_poll: AtomicUsize::new(0),
            yield_p_bits: AtomicU64::new(0f64.to_bits()),
            pause_p_bits: AtomicU64::new(0f64.to_bits()),
            track_protocol: AtomicBool::new(false),
            log_sched: AtomicBool::new(false),
        }
    }

    pub fn configure(&self, seed: u64, yield_p: f64, pause_p: f64, det: bool, log_sched: bool) {
        let mut st = self.state.lock();
        *st = MonState::default();
        st.rng = Some(Rng::new(seed ^ 0xABCD_EF01));
        self.yield_p_bits.store(yield_p.to_bits(), Ordering::SeqCst);
        self.pause_p_bits.store(pause_p.to_bits(), Ordering::SeqCst);
        self.track_protocol.store(det, Ordering::SeqCst);
        self.log_sched.store(log_sched, Ordering::SeqCst);
        self.current_task.store(0, Ordering::SeqCst);
    }

    pub fn begin_poll(&self, task: usize) {
        self.current_task.store(task, Ordering::SeqCst);
        self.calls_in_poll.store(0, Ordering::SeqCst);
    }

    pub fn end_poll(&self) {
        self.current_task.store(0, Ordering::SeqCst);
    }

    pub fn take_notes(&self) -> Vec<(String, String)> {
        std::mem::take(&mut self.state.lock().notes)
    }
}

pub fn res_name(r: u8) -> &'static str {
    const N: [&str; 8] = [
        "Ready", "Pending", "NeedsMore", "HasMore", "Exhausted", "Finalized", "NeedsDrain", "Err",
    ];
    N.get(r as usize).copied().unwrap_or("?")
}

impl Monitor for HarnessMonitor {
    fn should_yield(&self, _partition: usize) -> bool {
        let p = f64::from_bits(self.yield_p_bits.load(Ordering::Relaxed));
        if p <= 0.0 {
            return false;
        }
        // Only meaningful in det mode (current_task set by the executor).
        if self.current_task.load(Ordering::Relaxed) == 0 {
            return false;
        }
        // Never yield before the first instruction of a poll so that every
        // poll makes progress.
        let n = self.calls_in_poll.fetch_add(1, Ordering::Relaxed);
        if n == 0 {
            return false;
        }
        let mut st = self.state.lock();
        let y = st.rng.as_mut().map(|r| r.chance(p)).unwrap_or(false);
        if y {
            st.yields += 1;
        }
        y
    }

    fn op_event(&self, ev: OpEvent) {
        let mut st = self.state.lock();
        *st
            .op_counts
            .entry((ev.op_name, ev.kind == OpKind::Execute, ev.result as u8))
            .or_insert(0) += 1;

        if !self.track_protocol.load(Ordering::Relaxed) {
            return;
        }
        let task = self.current_task.load(Ordering::Relaxed);
        if task == 0 {
            return;
        }
        if ev.result == OpResult::Pending {
            st.last_pending.insert(task, (ev.op_name, ev.kind == OpKind::Execute));
        }
        let mut viol: Option<String> = None;
        match ev.kind {
            OpKind::Execute => {
                // No execute on an operator (or one upstream of it) that
                // reported Exhausted; no execute after Finalized.
                for idx in ev.op_idx..ev.num_ops {
                    if let Some(t) = st.track.get(&(task, idx)) {
                        if t.exhausted && idx == ev.op_idx {
                            viol = Some(format!(
                                "execute after Exhausted: task={} op={}#{}",
                                task, ev.op_name, ev.op_idx
                            ));
                        }
                    }
                }
                if let Some(t) = st.track.get(&(task, ev.op_idx)) {
                    if t.finalized {
                        viol = Some(format!(
                            "execute after Finalized: task={} op={}#{}",
                            task, ev.op_name, ev.op_idx
                        ));
                    }
                }
                if ev.result == OpResult::Exhausted {
                    st.track.entry((task, ev.op_idx)).or_default().exhausted = true;
                }
            }
            OpKind::Finalize => {
                let t = st.track.entry((task, ev.op_idx)).or_default();
                if ev.result != OpResult::Pending && ev.result != OpResult::Err {
                    t.finalized_nonpending += 1;
                    if t.finalized_nonpending > 1 {
                        viol = Some(format!(
                            "finalize returned non-pending twice: task={} op={}#{}",
                            task, ev.op_name, ev.op_idx
                        ));
                    }
                    if ev.result == OpResult::Finalized {
                        t.finalized = true;
                    }
                }
            }
        }
        if let Some(v) = viol {
            if st.protocol_violations.len() < 20 {
                st.protocol_violations.push(v);
            }
        }
    }

    fn note(&self, kind: &'static str, payload: String) {
        self.state.lock().notes.push((kind.to_string(), payload));
    }

    fn sched_event(&self, task: usize, kind: &'static str, flags: [bool; 4]) {
        if !self.log_sched.load(Ordering::Relaxed) {
            return;
        }
        self.state.lock().sched_log.push((task, kind, flags));
    }

    fn pause(&self, point: &'static str) {
        let p = f64::from_bits(self.pause_p_bits.load(Ordering::Relaxed));
        if p <= 0.0 {
            return;
        }
        let (do_pause, micros) = {
            let mut st = self.state.lock();
            *st.pause_counts.entry(point).or_insert(0) += 1;
            match st.rng.as_mut() {
                Some(r) => (r.chance(p), r.below(200) as u64),
                None => (false, 0),
            }
        };
        if do_pause {
            if micros < 20 {
                std::thread::yield_now();
            } else {
                std::thread::sleep(std::time::Duration::from_micros(micros));
            }
        }
    }
}

/// Offline check of the scheduler event log against the 4-flag state machine.
///
/// Events carrying flags were logged while `sched_state` was locked, so their
/// order is the order of the state changes. exec_begin/exec_end events are
/// logged under the pipeline lock.
pub fn check_sched_log(log: &[(usize, &'static str, [bool; 4])]) -> (Vec<String>, BTreeMap<String, u64>) {
    #[derive(Default, Debug)]
    struct T {
        in_exec: bool,
        done: bool,
        errored: bool,
        // model flags
        running: bool,
        pending: bool,
        completed: bool,
        set_pending_since_exec_begin: bool,
        idle_after_pending: bool,
    }
    let mut tasks: HashMap<usize, T> = HashMap::new();
    let mut viol = Vec::new();
    let mut counts: BTreeMap<String, u64> = BTreeMap::new();
    for (i, (task, kind, flags)) in log.iter().enumerate() {
        *counts.entry(kind.to_string()).or_insert(0) += 1;
        let t = tasks.entry(*task).or_default();
        let mut bad = |m: String| {
            if viol.len() < 20 {
                viol.push(format!("event#{} task={:x} {}: {}", i, task, kind, m));
            }
        };
        match *kind {
            "exec_begin" => {
                if flags[0] {
                    bad("pipeline lock was held at exec entry (overlapping executions)".into());
                }
                if t.in_exec {
                    bad("exec_begin while already executing".into());
                }
                if t.done {
                    bad("finished task executed again".into());
                }
                if !t.running {
                    bad("executing while model running=false".into());
                }
                t.in_exec = true;
            }
            "exec_end_done" => {
                t.in_exec = false;
                t.done = true;
            }
            "exec_end_err" => {
                t.in_exec = false;
                t.errored = true;
            }
            "exec_end_pending" => {
                t.in_exec = false;
            }
            "sched_spawn" => {
                if t.running {
                    bad("spawn while model running=true (two workers for one task)".into());
                }
                if t.completed {
                    bad("spawn after completed".into());
                }
                t.running = true;
                if !(flags[0] && !flags[2]) {
                    bad(format!("unexpected flags {:?}", flags));
                }
            }
            "sched_set_pending" => {
                if !t.running {
                    bad("set_pending while model running=false".into());
                }
                t.pending = true;
            }
            "sched_saw_completed" => {
                if !t.completed {
                    bad("saw completed but model not completed".into());
                }
            }
            "sched_saw_canceled" | "cancel_set" => {}
            "loop_continue" => {
                if !t.pending {
                    bad("loop_continue without pending".into());
                }
                if t.done {
                    bad("loop continues after pipeline finished".into());
                }
                t.pending = false;
            }
            "loop_break_completed" => {
                if !t.done {
                    bad("completed set but pipeline did not finish".into());
                }
                t.pending = false;
                t.completed = true;
                // running stays true by design: no further spawns possible.
            }
            "loop_idle" => {
                if t.pending {
                    bad("went idle with pending wake (lost wake-up)".into());
                }
                if flags[1] {
                    bad("idle with pending flag set".into());
                }
                t.running = false;
                t.completed = flags[2];
                if t.completed != t.done {
                    bad(format!("completed={} but pipeline done={}", t.completed, t.done));
                }
            }
            _ => {}
        }
    }
    // Quiescence: no task left pending && !running.
    for (task, t) in tasks.iter() {
        if t.pending && !t.running {
            viol.push(format!("task={:x} left pending and not running at quiescence", task));
        }
        let _ = (t.errored, t.set_pending_since_exec_begin, t.idle_after_pending);
    }
    (viol, counts)
}
