#!/usr/bin/env python3
"""Source of truth for /verif/known_findings.jsonl and /verif/known_cases.json (run after editing)."""
import json, os
V = os.path.dirname(os.path.dirname(os.path.abspath(__file__)))
F = []   # findings
C = []   # fixed cases

A = "glaredb_core/src/functions/scalar/builtin/arith/"

def panic(pid, fid, msg, frame, what, example, also=None):
    e = {"status": "open", "property": pid, "id": fid, "signature": {"kind": "outcome", "class": "panic", "message": msg, "frame": frame}, "what": what, "example": example}
    if also: e["also"] = also
    F.append(e)

def errmsg(pid, fid, message, what, example, also=None):
    e = {"status": "open", "property": pid, "id": fid, "signature": {"kind": "unexpected-error", "message": message}, "what": what, "example": example}
    if also: e["also"] = also
    F.append(e)

def switch(pid, fid, sw, what, example, also=None):
    e = {"status": "open", "property": pid, "id": fid, "signature": {"kind": "model-switch", "switch": sw}, "what": what, "example": example}
    if also: e["also"] = also
    F.append(e)

def case(pid, fid, what, setup, sql, expected, observed, also=None, exec=None):
    e = {"status": "open", "property": pid, "id": fid, "signature": {"kind": "fixed-case", "case": fid}, "what": what, "example": sql}
    if also: e["also"] = also
    F.append(e)
    c = {"id": fid, "property": pid, "also": also or [], "setup": setup, "sql": sql, "expected": expected, "observed": observed}
    if exec: c["exec"] = exec
    C.append(c)

def fixed(pid, fid, commit, what, also=None):
    e = {"status": "fixed", "property": pid, "id": fid, "commit": commit, "what": what}
    if also: e["also"] = also
    F.append(e)

ARITH_ALSO = ["C15", "C05", "C01", "C02", "C03", "C16"]
panic("C12", "int-add-overflow-panic", "attempt to add with overflow", A + "add.rs", "integer + beyond the type's range panics (debug) / wraps (release) instead of returning an error; in a worker thread the panic aborts the process", "SELECT 9223372036854775807::bigint + 7::bigint", ARITH_ALSO)
panic("C12", "int-sub-overflow-panic", "attempt to subtract with overflow", A + "sub.rs", "integer - beyond the type's range panics/wraps instead of an error", "SELECT 1::utinyint - 2::utinyint", ARITH_ALSO)
panic("C12", "int-mul-overflow-panic", "attempt to multiply with overflow", A + "mul.rs", "integer * beyond the type's range panics/wraps instead of an error", "SELECT 35184372088832::bigint * 576460752303423488::bigint", ARITH_ALSO)
panic("C12", "int-div-by-zero-panic", "attempt to divide by zero", A + "div.rs", "integer / 0 panics instead of an error", "SELECT 1/0", ARITH_ALSO)
panic("C12", "int-div-overflow-panic", "attempt to divide with overflow", A + "div.rs", "MIN / -1 panics/wraps instead of an error", "SELECT ('-32768')::smallint / (-1)::smallint", ARITH_ALSO)
panic("C12", "int-rem-by-zero-panic", "attempt to calculate the remainder with a divisor of zero", A + "rem.rs", "integer % 0 panics instead of an error", "SELECT 1 % 0", ARITH_ALSO)
panic("C12", "int-rem-overflow-panic", "attempt to calculate the remainder with overflow", A + "rem.rs", "MIN % -1 (exact result 0) panics", "SELECT ('-128')::tinyint % (-1)::tinyint", ARITH_ALSO)
panic("C12", "int-negate-overflow-panic", "attempt to negate with overflow", "glaredb_core/src/functions/scalar/builtin/negate.rs:execute", "unary minus on the most negative integer panics/wraps instead of an error", "SELECT -(('-128')::tinyint)", ARITH_ALSO)
for op, name in (("+", "add"), ("-", "sub"), ("*", "mul")):
    F.append({"status": "open", "property": "C12", "id": f"decimal-{name}-exceeds-precision", "signature": {"kind": "precision-violation", "op": "dec" + op},
              "what": f"DECIMAL {op}: when the computed result precision is capped at the storage maximum (18 for Decimal64, 38 for Decimal128) the operation is not range-checked, so a value with more digits than the announced DECIMAL(p,s) is returned",
              "example": {"+": "SELECT 9.9999::decimal(5,4) + 0.5::decimal(37,37)  -- 39 digits under Decimal128(38,37)", "-": "SELECT 0.5::decimal(9,9) - (-9.99999999999999999)::decimal(18,17)  -- 19 digits under Decimal64(18,17)", "*": "SELECT 75957.04189::decimal(10,5) * (-39781.8169)::decimal(9,4)  -- 19 digits under Decimal64(18,9)"}[op]})
fixed("C12", "sum-overflow-resets-to-zero", "9e33cb26a", "SUM over BIGINT/DECIMAL reset its accumulator to 0 when a partial sum overflowed (checked_add(..).unwrap_or_default()), returning a wrong total, e.g. SELECT sum(x) FROM (VALUES (9223372036854775807),(1)) v(x) -> 0", ["C07"])
fixed("C12", "avg-decimal-accumulator-overflow", "18af78774", "AVG over DECIMAL(38,s) overflowed its i128 accumulator: panic 'attempt to add with overflow' (avg.rs) in debug, silent wrap in release", ["C07", "C15"])
fixed("C05", "and-or-null-strict", "f3922a386", "AND/OR returned NULL whenever any operand was NULL (FALSE AND NULL -> NULL, TRUE OR NULL -> NULL); WHERE e OR f dropped rows with (NULL, TRUE)", ["C01", "C02", "C09"])
fixed("C07", "aggregate-filter-ignored", "b7ac3cc0f", "agg(..) FILTER (WHERE p) was parsed and the filter silently dropped: SELECT count(*) FILTER (WHERE a > 1) counted every row", ["C01"])
fixed("C08", "boolean-sort-order-inverted", "f999e17c9", "ORDER BY on a BOOLEAN key returned TRUE before FALSE for ASC (sort key encoding inverted)", ["C01"])
fixed("C03", "scan-ignores-batch-size", "9aef7e4d3", "table scans emitted whole 2048-row storage chunks whatever the session batch_size; operators sizing buffers by batch_size then indexed out of bounds (is.rs, physical_type.rs, bitmap/view.rs, unary.rs ...) for any table with more rows than batch_size", ["C01", "C15", "C16", "C06"])
fixed("C05", "case-under-selection-scatter", "0a0d3cc96", "CASE/COALESCE evaluated under a non-identity selection wrote results at input row indexes instead of dense output positions: SELECT k FROM t WHERE coalesce(k,3) >= 5 AND coalesce(k,3) <= 5 returned wrong rows", ["C01", "C02"])

# model-backed deviations
switch("C09", "in-any-all-two-valued", "in_two_valued", "x [NOT] IN (SELECT ..) / op ANY / op ALL never yields NULL: a NULL probe or a NULL in the set is treated as no-match (so NOT IN over a set with NULL keeps rows, x > ALL (set with NULL) is TRUE)", "SELECT 5 IN (SELECT y FROM (VALUES (2),(NULL)) b(y))  -- false, expected NULL", ["C01", "C06", "C02", "C03"])
switch("C09", "correlated-count-null-on-empty", "scalar_count_null_on_empty", "a correlated scalar COUNT subquery yields NULL instead of 0 for outer rows whose correlated set is empty (the classic COUNT bug of decorrelation)", "SELECT (SELECT count(*) FROM b WHERE b.y > a.x) FROM a", ["C01", "C02", "C03"])
switch("C09", "null-correlation-treated-as-empty-set", "null_correlation_empty_set", "a correlated subquery (scalar, EXISTS, IN/ANY/ALL, LATERAL) is evaluated as if it returned no rows for every outer row whose correlation value is NULL, even when the subquery does not compare that value with = (the decorrelated join-back uses = instead of IS NOT DISTINCT FROM): EXISTS -> false, scalar -> NULL, LATERAL drops the outer row", "SELECT k FROM o WHERE EXISTS (SELECT 1 FROM i WHERE o.c IS NULL)  -- rows with o.c NULL are lost", ["C01", "C06", "C02", "C03"])

# engine errors on valid statements
errmsg("C01", "text-in-subquery-identity-cast-error", "Cast function 'S' cannot handle source type UtfN", "text IN / op ANY / op ALL (subquery) fails: the planner inserts an identity cast Utf8->Utf8 which no cast function accepts", "SELECT 'x' IN (SELECT b FROM t)", ["C09", "C06", "C02", "C03", "C13"])
errmsg("C01", "date-in-subquery-identity-cast-error", "Cast function 'S' cannot handle source type DateN", "date IN (subquery) fails with an identity cast Date32->Date32 (same defect as text-in-subquery-identity-cast-error)", "SELECT l.id FROM l WHERE l.k IN (SELECT k FROM r)  -- k DATE", ["C09", "C06", "C02", "C03", "C13"])
errmsg("C01", "bool-in-subquery-identity-cast-error", "Cast function 'S' cannot handle source type Boolean", "boolean IN (subquery) fails with an identity cast Boolean->Boolean (same defect as text-in-subquery-identity-cast-error)", "SELECT l.id FROM l WHERE l.k IN (SELECT k FROM r)  -- k BOOLEAN", ["C09", "C06", "C02", "C03", "C13"])
errmsg("C01", "order-by-alias-of-ungrouped-aggregate", "Column 'S' must appear in the GROUP BY clause or be used in an aggregate function", "ORDER BY <alias of an aggregate> fails when the query has aggregates but no GROUP BY", "SELECT max(a) AS m FROM t ORDER BY m", ["C08", "C02", "C03"])
errmsg("C01", "planner-table-ref-invalid", "Table ref is invalid. Left: [TableRef..], right: [TableRef..], got: TableRef { table_idx: N }", "planner error on a valid 3-way join: CROSS JOIN followed by LEFT/RIGHT JOIN whose ON references both earlier tables", "SELECT t1.k FROM t0 t1 CROSS JOIN t0 t2 LEFT JOIN t0 t3 ON (t1.c0 = t3.a0 AND t1.a0 = t3.b)", ["C06", "C02", "C03", "C09"])
errmsg("C01", "planner-missing-left-rel-id", "Missing left rel id", "join reordering fails ('Missing left rel id') on valid joins mixing SEMI/INNER joins and subqueries", "SELECT .. FROM t0 t1 JOIN t0 t2 USING (k) SEMI JOIN t0 t3 ON (t1.k = t3.k AND t2.k <> t3.k) WHERE t2.k >= ANY (SELECT ..)", ["C06", "C02", "C03", "C09"])
errmsg("C01", "planner-missing-right-rel-id", "Missing right rel id", "join reordering fails ('Missing right rel id') on valid joins with LATERAL", "SELECT .. FROM t0 t1 CROSS JOIN t0 t2, LATERAL (..) l WHERE .. GROUP BY ..", ["C06", "C02", "C03", "C09"])
errmsg("C01", "planner-filter-previously-used", "Filter previously used: N", "optimizer error 'Filter previously used' on valid queries with CTEs referenced several times", "WITH c AS (..) SELECT .. FROM c x CROSS JOIN (.. FROM c ..)", ["C02", "C03", "C09"])
errmsg("C01", "planner-column-expr-invalid-table-ref", "Column expr not referencing a valid table ref, column: #N.N, valid tables: [#N..]", "physical planning fails ('Column expr not referencing a valid table ref') on valid queries combining IN (subquery) with derived tables, joins and GROUP BY/HAVING", "SELECT .. FROM (SELECT .. JOIN ..) d WHERE 25 IN (SELECT a FROM t WHERE c)", ["C02", "C03", "C09"])
errmsg("C01", "planner-pre-projection-aggregate", "Failed to plan expressions for aggregate pre-projection", "physical planning fails ('Failed to plan expressions for aggregate pre-projection') on valid aggregates over subquery predicates", "WITH c AS (SELECT sum(..) FROM a CROSS JOIN b WHERE 1 IN (SELECT ..) HAVING ..) ..", ["C02", "C03", "C09", "C07"])
errmsg("C01", "planner-pre-projection-group-by", "Failed to plan expressions for group by pre-projection", "physical planning fails ('Failed to plan expressions for group by pre-projection')", "SELECT .. FROM a CROSS JOIN b CROSS JOIN (..) d WHERE a.k IN (SELECT ..) GROUP BY ..", ["C02", "C03", "C09", "C07"])
errmsg("C01", "planner-projection", "Failed to plan expressions for projection", "physical planning fails ('Failed to plan expressions for projection') with LATERAL referencing two outer tables", "SELECT -l.z FROM a CROSS JOIN b, LATERAL (SELECT a.x AS z FROM c WHERE c.k <> b.k) l", ["C02", "C03", "C09"])
errmsg("C01", "planner-arbitrary-join-filter", "Failed to plan expressions arbitrary join filter", "physical planning fails ('Failed to plan expressions arbitrary join filter') for LATERAL subqueries correlated to two different outer tables", "SELECT .. FROM t0 t1, (SELECT ..) d4, LATERAL (SELECT t1.b0 FROM t2 s5 WHERE s5.k < t1.k AND d4.z3 = s5.k) l7", ["C02", "C03", "C09", "C06"])
errmsg("C01", "nested-cte-not-visible", "Missing table or view for reference 'S'", "a CTE is not visible from a WITH clause nested inside a later sibling CTE / derived table", "WITH a AS (..), b AS (WITH c AS (..) SELECT .. FROM a) SELECT ..", ["C09", "C02", "C03"])
errmsg("C01", "lateral-ambiguous-column", "Ambiguous column name 'S'", "an unambiguous unqualified column is reported ambiguous when a LATERAL subquery over the same base table is in scope", "WITH c AS (SELECT z + k FROM t0 t1, LATERAL (SELECT 0 AS z FROM t1 s WHERE s.k <> t1.k) l WHERE ..) ..", ["C09", "C02", "C03"])
errmsg("C01", "subqueries-in-projection-clone-arrays", "Cannot clone arrays with different data types", "execution fails ('Cannot clone arrays with different data types') when the select list holds two subquery expressions (scalar + IN) of different types over a join", "SELECT (SELECT s.k FROM t0 s WHERE a0 = vc3) AS z9, (t4.a IN (SELECT a0 FROM t0)) AS z13 FROM (VALUES ('x', 9)) v1(vc2, vc3) INNER JOIN t1 t4 ON true", ["C09", "C02", "C03"])
errmsg("C02", "planner-filter-expressions", "Failed to plan expressions for filter", "physical planning fails ('Failed to plan expressions for filter') with the optimizer on for SEMI JOINs between derived tables with constant-false filters (plans fine with enable_optimizer=false)", "SELECT .. FROM (..) d12 SEMI JOIN (SELECT .. WHERE ('b' IS NOT DISTINCT FROM 'x%y')) d ON ..", ["C01", "C03", "C06", "C09"])
panic("C02", "column-expr-index-out-of-bounds", "index out of bounds: the len is N but the index is N", "glaredb_core/src/expr/physical/column_expr.rs", "a physical column expression indexes past the input batch (planner produced a wrong column index) for queries with a correlated scalar subquery in WHERE plus a correlated ALL subquery in the select list", "SELECT (k <> ALL (SELECT t1.k FROM t2 s7)) FROM t0 t1 WHERE (SELECT min(s2.a + t1.k) FROM t1 s2) NOT IN (3, 5)", ["C01", "C03", "C09", "C15", "C16"])
panic("C02", "join-reorder-hyper-edge-assertion", "assertion failed: self.hyper_edges.all_non_empty_edges_removed()", "glaredb_core/src/optimizer/join_reorder/graph.rs", "join reordering trips an internal assertion (debug builds) on joins between CTE references with filters", "WITH c AS (..) SELECT .. FROM c x INNER JOIN c y ON (x.a = y.a) WHERE <const false> HAVING ..", ["C01", "C15", "C16", "C03", "C09"])
panic("C02", "filter-pushdown-table-ref-assertion", "assertion `left == right` failed\n  left: TableRef { table_idx: N }\n right: TableRef { table_idx: N }", "glaredb_core/src/optimizer/filter_pushdown/mod.rs", "filter pushdown trips an internal assert_eq on table refs for UNION branches over derived tables", "SELECT .. FROM (.. GROUP BY CUBE ..) d WHERE d.c = d.c UNION SELECT .. FROM (..) d2, (..) d3, t WHERE ..", ["C01", "C15", "C16", "C03", "C09"])


# malformed Parquet input: panics / aborts instead of errors (C19). One entry per panic site.
PQ = "glaredb_ext_parquet/src/"
C19_SITES = [
    ("pq-malformed-bitmap-view", "idx: N, len: N", "glaredb_core/src/arrays/bitmap/view.rs", "a corrupted dictionary index / level byte makes a validity bitmap be indexed out of range", "byte 73 -> 0x04 of an INT32 DICT v2 SNAPPY file"),
    ("pq-malformed-copy-unwrap", "called `Option::unwrap()` on a `None` value", "glaredb_core/src/arrays/compute/copy.rs", "a corrupted page header (num_values) makes copy_rows unwrap a missing source row", "byte 56 -> 0x00 of an INT32 PLAIN v2 file"),
    ("pq-malformed-bitutil-index", "index out of bounds: the len is N but the index is N", PQ + "column/bitutil.rs", "corrupted delta header makes the bit unpacker index past its input", "byte 33 -> 0x00 of a DELTA_LENGTH_BYTE_ARRAY file"),
    ("pq-malformed-delta-div-zero", "attempt to divide by zero", PQ + "column/encoding/delta_binary_packed.rs", "a delta header with zero miniblocks per block divides by zero", "byte 35 -> 0x00 of a DELTA_LENGTH_BYTE_ARRAY file"),
    ("pq-malformed-delta-sub-overflow", "attempt to subtract with overflow", PQ + "column/encoding/delta_binary_packed.rs", "a corrupted delta header underflows the remaining-values arithmetic", "byte 29 -> 0xFF of a DELTA_BINARY_PACKED file"),
    ("pq-malformed-delta-byte-array-index", "index out of bounds: the len is N but the index is N", PQ + "column/encoding/delta_byte_array.rs", "corrupted prefix lengths index past the previous value", "byte 29 -> 0xFF of a DELTA_BYTE_ARRAY file"),
    ("pq-malformed-delta-length-index", "index out of bounds: the len is N but the index is N", PQ + "column/encoding/delta_length_byte_array.rs", "corrupted lengths index past the decoded length buffer", "byte 29 -> 0xFF of a DELTA_LENGTH_BYTE_ARRAY file"),
    ("pq-malformed-rle-bit-width", "assertion failed: bit_width <= N", PQ + "column/encoding/rle_bit_packed.rs", "a bit width > 64 read from the page trips an assertion", "byte 93 -> 0xFF of an INT32 PLAIN v2 file"),
    ("pq-malformed-page-add-overflow", "attempt to add with overflow", PQ + "column/page_reader.rs", "corrupted page sizes overflow offset arithmetic in the page reader", "byte 53 -> 0x11 of an INT32 PLAIN v2 file"),
    ("pq-malformed-page-sub-overflow", "attempt to subtract with overflow", PQ + "column/page_reader.rs", "levels byte length larger than the page underflows the compressed length", "byte 165 -> 0x00 of a DELTA_BINARY_PACKED v2 GZIP file"),
    ("pq-malformed-page-copy-len", "copy_from_slice: source slice length (N) does not match destination slice length (N)", PQ + "column/page_reader.rs", "compressed_page_size != uncompressed_page_size on an uncompressed page panics in copy_from_slice", "byte 7 -> 0x00 of an INT32 PLAIN v2 file"),
    ("pq-malformed-page-slice-range", "range end index N out of range for slice of length N", PQ + "column/page_reader.rs", "level byte lengths beyond the page buffer panic when slicing", "byte 24 -> 0x80 of a DELTA_BINARY_PACKED v2 file"),
    ("pq-malformed-read-buffer-remaining", "remaining: N, need: N", PQ + "column/read_buffer.rs", "a page that ends early makes the read cursor assert on remaining bytes", "byte 20 -> 0x00 of an INT32 PLAIN v2 file"),
    ("pq-malformed-negative-column-range", "column start and length should not be negative", PQ + "metadata/mod.rs", "negative offsets/sizes in ColumnMetaData hit an assert", "byte 241 -> 0x59 of an INT32 PLAIN file footer"),
    ("pq-malformed-stats-index", "index out of bounds: the len is N but the index is N", PQ + "metadata/statistics.rs", "zero-length min/max statistics bytes are indexed unconditionally", "byte 283 -> 0x00 of a STRING file footer"),
    ("pq-malformed-stats-slice-range", "range end index N out of range for slice of length N", PQ + "metadata/statistics.rs", "min/max statistics shorter than the physical type's width panic when sliced (e.g. after a type change in the footer)", "lie rg0.col0.type=1 on a BOOLEAN file"),
    ("pq-malformed-num-rows-overflow", "attempt to add with overflow", PQ + "reader.rs", "a row group num_rows of 2^63-1 overflows the running row offset", "lie rg0.num_rows=2^63-1"),
    ("pq-malformed-thrift-shift", "attempt to shift left with overflow", PQ + "thrift.rs", "an over-long varint in the footer overflows the shift in the thrift reader", "byte 164 -> 0x95 of a STRING PLAIN file"),
    ("pq-malformed-thrift-unimplemented", "not implemented", PQ + "thrift.rs", "an unexpected thrift element type hits unimplemented!() in the footer reader", "byte 70 -> 0xFF of an INT32 PLAIN file"),
    ("pq-malformed-delta-miniblock-index", "index out of bounds: the len is N but the index is N", PQ + "column/encoding/delta_binary_packed.rs", "a corrupted miniblock count indexes past the bit-width table", "byte 156 -> 0x01 of a DELTA_BYTE_ARRAY file"),
    ("pq-malformed-dictionary-sub-overflow", "attempt to subtract with overflow", PQ + "column/encoding/dictionary.rs", "a corrupted dictionary index page underflows in the dictionary decoder", "byte 191 -> 0xA6 of a STRING DICT file"),
    ("pq-malformed-read-buffer-assert", "assertion failed: self.remaining >= num_bytes", PQ + "column/read_buffer.rs", "corrupted lengths make the read cursor assert on remaining bytes", "byte 23 -> 0xFF of a DELTA_LENGTH_BYTE_ARRAY file"),
    ("pq-malformed-thrift-capacity-overflow", "capacity overflow", PQ + "format.rs:read_from_in_protocol", "a huge list length in the footer makes Vec::with_capacity panic ('capacity overflow')", "byte 437 -> 0x00 of a file footer"),
    ("pq-malformed-thrift-slice-range", "range end index N out of range for slice of length N", PQ + "thrift.rs", "a binary field length beyond the page header buffer panics when slicing", "byte 57 -> 0x01 of a BOOLEAN RLE v2 file"),
]
for fid, msg, frame, what, example in C19_SITES:
    panic("C19", fid, msg, frame, "malformed Parquet input panics instead of returning an error: " + what, example, ["C15", "C16", "C10"])
F.append({"status": "open", "property": "C19", "id": "pq-malformed-dictionary-size-alloc-abort", "signature": {"kind": "outcome", "class": "alloc-abort", "frame": "glaredb_core/src/buffer/buffer_manager.rs"},
          "what": "a dictionary page header announcing 2^31-1 values makes the reader allocate for that many entries before looking at the page size; under a 4 GiB address-space cap the process aborts ('memory allocation of N bytes failed')",
          "example": "lie rg0.col1.dict.num_values=2147483647", "also": ["C15", "C16"]})
F.append({"status": "open", "property": "C19", "id": "pq-malformed-delta-total-values-alloc-abort", "signature": {"kind": "outcome", "class": "alloc-abort", "frame": "glaredb_ext_parquet/src/column/encoding/delta_binary_packed.rs"},
          "what": "a corrupted DELTA header announcing a huge value count makes the decoder allocate for it before checking the page size; under the 4 GiB cap the process aborts",
          "example": "byte 733 -> 0xFF of a DELTA_BYTE_ARRAY file", "also": ["C15", "C16"]})
fixed("C19", "pq-chunk-range-beyond-eof-spin-or-abort", "7bb335251", "read_parquet trusted the footer's column-chunk byte range: a range past EOF made Reader::poll_fetch spin forever on zero-byte reads; a huge length aborted on allocation", ["C15"])
fixed("C19", "pq-footer-length-unchecked", "b391e4093", "the footer's metadata length sized a buffer without a file-size check (multi-GiB allocation + zeroing for a corrupt trailer)", ["C15"])
fixed("C10", "pq-delta-binary-packed-multi-read", "3a2a4d053", "DELTA_BINARY_PACKED returned wrong rows whenever a page was read in more than one batch (previous value re-emitted at each call) and panicked on single-value pages", ["C16", "C03"])
fixed("C10", "pq-int96-before-epoch", "07fa15e89", "INT96 timestamps before 1970 panicked (subtract with overflow) / wrapped", ["C15"])
fixed("C10", "pq-binary-delta-utf8-validated", "119380801", "BINARY columns with DELTA_LENGTH_BYTE_ARRAY / DELTA_BYTE_ARRAY were UTF-8 validated and failed on non-UTF-8 bytes", [])
fixed("C10", "pq-v2-is-compressed-ignored", "274a5a0ab", "data page v2 is_compressed=false was ignored when the chunk declares a codec", [])
fixed("C11", "pq-pruning-deprecated-stats-unsigned", "1d88cdccf", "row-group pruning trusted deprecated signed-order min/max on unsigned columns and pruned groups containing the searched value", [])
fixed("C11", "glob-absolute-path-root", "232040201", "globs over absolute local paths were resolved relative to the working directory", [])
fixed("C14", "insert-column-list-ignored", "09b3e0874", "INSERT INTO t (col, ..) ignored the column list and inserted positionally, silently storing values in the wrong columns", ["C01"])
fixed("C14", "insert-select-from-target-reads-own-writes", "f7aae1915", "INSERT INTO t SELECT .. FROM t scanned segments flushed by its own insert partitions: under some schedules (deterministic lifo with >= 2 partitions, some random ones) it inserted k x n rows, and with more rows than one segment (32768) it never terminated", ["C04", "C03"])
fixed("C14", "values-first-row-decimal-type-rounds-later-rows", "e65ab5b2e", "VALUES typed a decimal column by its first row only: VALUES (0.5), (-2.25) returned -2.3 (silent rounding), also through INSERT .. VALUES", ["C18", "C05", "C01"])
fixed("C18", "show-announces-utf8-for-typed-settings", "f3c75e9e1", "SHOW <setting> announced a Utf8 column but produced the setting's scalar type (UInt64 array for partitions/batch_size, Boolean for enable_optimizer)", ["C14"])
fixed("C18", "arith-rebind-widens-decimal", "e506288f9", "arithmetic over operands that need a decimal cast announced one type and produced another: 1::utinyint + 1::tinyint announced Decimal64(4,0), arrays were Decimal64(5,0) (physical planning re-bound the function over inputs the first bind had already cast)", ["C05", "C12"])
fixed("C13", "int-float-to-decimal-scale-power-overflow", "ffe02ed2c", "casting an integer or float to DECIMAL(p,s) with s >= 10 computed 10^s as an i32: panic 'attempt to multiply with overflow' at bind time in debug builds, wrong scale factor in release builds", ["C18", "C15", "C12"])
fixed("C20", "substring-nonpositive-start-spins", "83436cfe3", "substring/substr with a start position <= 0 looped ~2^64 times ((from - 1) as usize): the statement never returned", ["C15", "C05"])
fixed("C20", "lpad-rpad-count-shorter-than-string", "b621e368b", "lpad(s, n) with n below the character length sliced by bytes (panic inside a multi-byte character and for negative n: 'end byte index .. out of bounds', pad.rs); rpad(s, negative) returned s instead of the empty string", ["C15", "C05"])
for _kind, _what in (("paren", "nested parentheses"), ("unary", "chained unary minus"), ("not", "chained NOT"), ("subquery", "nested derived tables (already at depth 400)"), ("scalar_subquery", "nested scalar subqueries"),
                     ("case", "nested CASE"), ("fn", "nested function calls (already at depth 1000)"), ("list", "nested list literals"), ("cast", "chained :: casts"),
                     ("add_chain", "a + chain of 10^4 terms"), ("and_chain", "an AND chain of 10^4 terms"), ("concat_chain", "a || chain of 10^4 terms"),
                     ("cte_chain", "a chain of CTEs"), ("union_chain", "a chain of UNION ALL branches")):
    F.append({"status": "open", "property": "C15", "id": f"stack-overflow-{_kind}", "signature": {"kind": "outcome", "class": "stack-overflow", "stress": _kind},
              "what": f"unbounded recursion in parser/binder/planner: {_what} overflows the stack and aborts the process instead of returning an error (no depth limit anywhere in the pipeline)",
              "example": f"python3 -c \"from vf.props.c15 import nest; print(nest('{_kind}', 10000))\""})
fixed("C15", "ctas-failed-statement-leaves-table", "6428efcc2", "CREATE TABLE AS registered the table when the first batch arrived: a statement failing later (cast error on a later row) left the table in the catalog", ["C14"])
B = "glaredb_core/src/functions/scalar/builtin/"
panic("C15", "gcd-min-value-negate-panic", "attempt to negate with overflow", B + "numeric/gcd.rs:execute", "gcd() takes abs() of the most negative integer: panic/wrap instead of an error (same family as the arithmetic overflow panics of C12)", "SELECT gcd('-9223372036854775808'::BIGINT, 2)", ["C05", "C12"])
panic("C15", "lcm-overflow-panic", "attempt to multiply with overflow", B + "numeric/lcm.rs", "lcm() multiplies without a range check: panic/wrap instead of an error", "SELECT lcm(2147483647, 2147483646)", ["C05", "C12"])
panic("C15", "lcm-min-value-negate-panic", "attempt to negate with overflow", B + "numeric/lcm.rs:execute", "lcm() takes abs() of the most negative integer: panic/wrap instead of an error", "SELECT lcm('-9223372036854775808'::BIGINT, 2)", ["C05", "C12"])
panic("C15", "epoch-multiply-overflow-panic", "attempt to multiply with overflow", B + "datetime/epoch.rs", "epoch()/epoch_ms() scale their argument to microseconds without a range check: panic/wrap instead of an error", "SELECT epoch(9223372036854775807)", ["C05", "C12"])
fixed("C15", "left-right-split-part-min-count-negate", "d27a997ad", "left/right/split_part negated their count argument: i64::MIN panicked ('attempt to negate with overflow')", ["C20", "C05"])
fixed("C20", "like-rewrite-ignores-escape", "9c60fdcb0", "the optimizer rewrote constant LIKE patterns containing a backslash escape to =, starts_with, ends_with, contains using the raw pattern text: x LIKE 'a\\b' matched only the 3-character string with a backslash (optimizer on) instead of 'ab'", ["C02", "C05"])
fixed("C20", "like-wildcards-exclude-newline", "37c77f551", "LIKE '_' and '%' did not match a line break in the general matcher (regex '.' without the s flag); the rewritten forms did, so optimizer on/off disagreed", ["C02"])
fixed("C20", "regexp-invalid-column-pattern-unwritten-slot", "5a0d6e6d0", "regexp_count/regexp_instr/regexp_replace left the output slot unwritten when a per-row pattern did not compile: uninitialised memory returned as integers, or a garbage string view crashing the reader (array_buffer.rs:626)", ["C16", "C15", "C05"])
fixed("C20", "regexp-instr-byte-offset", "1a1524c3e", "regexp_instr returned a byte offset instead of a character position", ["C05"])
fixed("C20", "split-part-negative-index", "857192a50", "split_part with a negative index split from the end (different fields for self-overlapping delimiters) and ignored index -1 for an empty delimiter", ["C05"])
fixed("C20", "pad-min-count-overflow", "68f13235c", "lpad/rpad overflowed on the most negative count (subtract/negate with overflow panics; a 2^63-step skip in rpad/3)", ["C15"])
for _conv, _ex in (("real->decimal", "SELECT ('32766.5'::real)::decimal(18,4)  -- 32766.4992"), ("double->decimal", "SELECT ('99999999999999'::double)::decimal(18,4)  -- 99999999999999.0016"),
                   ("half->decimal", "SELECT ('99'::half)::decimal(4,2)  -- 99.04"), ("decimal->real", "SELECT (-32767.0000)::decimal(18,4)::real  -- -32767.002"),
                   ("decimal->double", "SELECT (-1000000000000000.0000000000)::decimal(38,10)::double  -- ...000.125"), ("decimal->half", "SELECT (-99.00)::decimal(4,2)::half  -- -99.0625")):
    F.append({"status": "open", "property": "C13", "id": "float-decimal-scaling-in-float-format-" + _conv.replace("->", "-to-"), "signature": {"kind": "inexact-float-decimal", "conv": _conv},
              "what": "float <-> DECIMAL casts multiply/divide by 10^scale in the float format itself (to_decimal.rs FloatToDecimal: v.mul(mul_scale).round(); to_primitive.rs DecimalToFloat: v / scale), so values the target represents exactly come out changed, results are not even a neighbouring representable value, and there is no single rounding rule. A correct repair needs exact (integer or wider) arithmetic per float width: not a small patch",
              "example": _ex, "also": ["C05"]})
for _sig, _id, _what, _ex in (
    ({"kind": "outcome", "class": "panic", "message": "attempt to multiply with overflow", "frame": "glaredb_core/src/arrays/scalar/interval.rs", "conv": "text->interval"}, "interval-parse-overflow-add", "TEXT -> INTERVAL: Interval::add_* multiply and add without range checks", "SELECT CAST('178956971 years' AS interval)"),
    ({"kind": "outcome", "class": "panic", "message": "attempt to multiply with overflow", "frame": "glaredb_core/src/functions/cast/parse.rs", "conv": "text->interval"}, "interval-parse-overflow-weeks", "TEXT -> INTERVAL: `weeks as i32 * 7` overflows in the parser", "SELECT CAST('1e10 weeks' AS interval)"),
    ({"kind": "text-accepted", "conv": "text->interval", "class": "component-overflow"}, "interval-parse-saturates", "TEXT -> INTERVAL: a component beyond the i32 range is silently saturated (`as i32`) instead of rejected", "SELECT CAST('2147483648 days' AS interval)  -- 2147483647 days")):
    F.append({"status": "open", "property": "C13", "id": _id, "signature": _sig, "what": _what + " (the interval parser needs checked arithmetic throughout; recorded together with the interval formatter/parser mismatch)", "example": _ex, "also": ["C15"]})
for _cls, _feat, _ex in (("reparse-error", "months", "1 mon"), ("reparse-error", "time", "00:00:01"), ("reparse-error", "milliseconds", "00:00:00.1 for 1 ms"), ("reparse-error", "sub-millisecond", "00:00:00.123 for 123456789 ns"),
                         ("value-changed", "sub-millisecond", "'' for 1 ns"), ("reparse-error", "negative-component", "61:00:00 for (-448 months, 61 h)"), ("value-changed", "negative-component", "'' for -11 months")):
    F.append({"status": "open", "property": "C13", "id": f"interval-text-roundtrip-{_cls}-{_feat}", "signature": {"kind": "roundtrip", "type": "interval", "class": _cls, "feature": _feat},
              "what": "INTERVAL -> TEXT -> INTERVAL does not round-trip: the formatter (cast/format.rs IntervalFormatter) drops negative components and sub-millisecond digits, does not zero-pad milliseconds, and emits 'mon' and HH:MM:SS forms the parser (cast/parse.rs) does not understand. Formatter and parser have to be redesigned together",
              "example": "formatted as " + _ex})
fixed("C13", "nested-cast-flattened-over-lossy-inner-cast", "71019cbed", "CAST(CAST(x AS M) AS T) was flattened to CAST(x AS T) when only the direct cast was safe: 100000::smallint::bigint returned 100000, '0.1'::double::real::double skipped the rounding to REAL", ["C05", "C02"])
fixed("C13", "decimal-validate-precision-min-value", "3e46b07b2", "validate_precision took abs() of i64::MIN / i128::MIN: panic for ('-9223372036854775808'::bigint)::decimal(9,0) and float sources at the minimum", ["C15", "C12"])
fixed("C13", "binary-to-text-invalid-utf8-unwritten-slot", "560b2c74a", "CAST(binary AS TEXT) on invalid UTF-8 recorded an error that was never returned and left the output slot unwritten: uninitialised string view in the result (garbage rows or a crash)", ["C16", "C10"])
fixed("C13", "decimal-to-decimal-rescale-and-precision", "5c0b27872", "DECIMAL -> DECIMAL: rescale factor computed in the target primitive (bind panic for DECIMAL(38,38) -> DECIMAL(4,2)), narrowing before downscaling (spurious 'Failed cast decimal'), and no precision check on the result (99.99::decimal(3,1) stored 100.0 under DECIMAL(3,1))", ["C12", "C15"])
fixed("C13", "text-to-decimal-unchecked-parse", "59a94a9b0", "TEXT -> DECIMAL: unchecked multiply/add (panic/wrap on long digit strings), precision compared before the fill-up to the scale ('123'::decimal(3,2) stored 123.00), '' '.' '+' '-' accepted as 0, extra fractional digits truncated instead of rounded half away from zero", ["C15", "C17"])
for _sig in ("bigint,ubigint", "ubigint,bigint"):
    F.append({"status": "open", "property": "C05", "id": "bigint-ubigint-compared-as-double-" + _sig.replace(",", "-"), "signature": {"kind": "wrong-value", "fn": "compare", "sig": _sig, "as": "double"},
              "what": "BIGINT vs UBIGINT comparisons (all six operators, IS [NOT] DISTINCT FROM, BETWEEN, IN, simple CASE) are evaluated after casting both sides to DOUBLE: values differing beyond 2^53 compare equal. The Int64/UInt64 -> Int128 casts are explicit-only, so Float64 is the only common implicit target; making them implicit changes overload resolution for every function over these types (not a small, safe patch)",
              "example": "SELECT '9223372036854775807'::bigint = '9223372036854775808'::ubigint  -- true", "also": ["C11", "C06"]})
for _fn, _sig, _ex in (("asinh", "double,double", "SELECT asinh('-1.7976931348623157e308'::double)  -- -inf, true value -710.4758"), ("acosh", "double,double", "SELECT acosh('1.0000000000000002'::double)  -- relative error 4e-9"), ("acosh", "real,real", "SELECT acosh('1.0000001'::real)")):
    F.append({"status": "open", "property": "C05", "id": f"{_fn}-accuracy-{_sig.split(',')[0]}", "signature": {"kind": "wrong-value", "fn": _fn, "sig": _sig},
              "what": "asinh/acosh call Rust's std implementations, which overflow for huge arguments (asinh) and lose half the digits near 1 (acosh); outside the 2-ulp tolerance the check grants transcendental functions. Numerical-library quality, low severity",
              "example": _ex})
F.append({"status": "open", "property": "C05", "id": "timestamp-no-cast-set-case-without-else", "signature": {"kind": "unexpected-error", "fn": "case", "what": "timestamp-branch-without-else"},
          "what": "there is no cast function set targeting TIMESTAMP at all, so NULL -> TIMESTAMP is impossible: CASE without ELSE / with ELSE NULL over a TIMESTAMP branch fails to bind ('Unable to find cast function to handle target type: Timestamp'); also TIMESTAMP '...' literals and UNION with NULL. Needs a new cast set + implicit-cast score",
          "example": "SELECT CASE WHEN true THEN epoch(1) END", "also": ["C18", "C13"]})
F.append({"status": "open", "property": "C05", "id": "timestamp-no-cast-set-coalesce", "signature": {"kind": "unexpected-error", "fn": "coalesce", "what": "timestamp-arguments"},
          "what": "same cause as timestamp-no-cast-set-case-without-else: COALESCE over TIMESTAMP arguments fails to bind", "example": "SELECT coalesce(epoch(1), epoch(2))", "also": ["C18", "C13"]})
fixed("C05", "float-zero-sign-hash", "dd8c0e6ea", "-0.0 and +0.0 hashed differently: equal as an expression, but never matched as hash-join keys and formed two groups", ["C06", "C07", "C03"])
fixed("C05", "date-part-seconds-without-whole-seconds", "6937ab428", "date_part/extract second, milliseconds, microseconds returned only the sub-second part", [])
fixed("C05", "date-trunc-toward-zero", "156553785", "date_trunc rounded toward zero, i.e. up for timestamps before 1970", [])
fixed("C05", "case-untyped-null-first-branch", "c6e110634", "CASE WHEN .. THEN NULL ELSE 1 END failed to bind (ELSE cast to the Null type)", ["C18"])
fixed("C05", "decimal-meta-null-and-ubigint", "a0d366b6b", "DECIMAL compared with an untyped NULL failed to bind; UBIGINT -> DECIMAL used precision 19 (20 digits needed)", ["C18", "C13"])
fixed("C19", "pq-integer-logical-type-width-panic", "980b7a63d", "a corrupt footer with an INTEGER logical type of undefined bit width panicked in basic.rs (From<Option<LogicalType>> for ConvertedType)", ["C15"])
fixed("C15", "sort-key-list-unimplemented-panic", "b130a9374", "ORDER BY on a LIST (or STRUCT) key hit unimplemented!() in SortLayout::try_new: panic on the caller's thread (SELECT [1] a ORDER BY a)", ["C08", "C18"])
fixed("C17", "csv-last-record-without-newline-dropped", "901a81dae", "read_csv dropped the last record of a file not ending in a line break", ["C11"])
fixed("C17", "csv-inference-ignores-unterminated-last-record", "8f587fc55", "dialect/type inference ignored the final record without line break even when the whole file was in the sample", [])
fixed("C17", "csv-partial-record-leading-empty-fields-lost", "5395bbc8c", "leading empty fields of a record split across reads were lost (clear_completed discarded field ends of a partial record with no bytes yet), so results depended on read chunking/batch size", ["C03", "C16"])
fixed("C08", "double-sort-key-shift", "78d51c9d1", "ORDER BY on DOUBLE mis-ordered values differing only in the low 32 mantissa bits (sort key used bits >> 31)", ["C01"])
fixed("C03", "ctas-empty-input-no-table", "ff2c19832", "CREATE TABLE AS over an input that produced no batches did not create the table", ["C14"])
fixed("C02", "join-condition-extractor-drops-comparison", "e1c0bff10", "comparisons whose one operand references both join sides were dropped by join-condition extraction (predicate silently not applied)", ["C01", "C06"])
fixed("C01", "cross-join-right-associative", "065fe48f5", "a CROSS JOIN b <JOIN> c ON .. was parsed as a CROSS JOIN (b JOIN c)", ["C06"])

T1 = ["CREATE TEMP TABLE t1 (k INT, a1 BOOLEAN, b1 INT)", "INSERT INTO t1 VALUES (CAST(NULL AS INT), true, 1), (5, true, 2), (5, false, 3), (7, NULL, 4), (-61, true, 5)"]
case("C02", "optimizer-distributive-or-absorption", "the distributive-OR rewrite turns (X AND A) OR A into A AND X (it should be A): rows are lost whenever one OR branch consists only of terms common to all branches. A unit test of the repository (distribute_eliminate_or_with_single_remaining) asserts this wrong rewrite, so it cannot be repaired without editing the test suite",
     T1, "SELECT b1 FROM t1 WHERE ((b1 > 100 AND a1) OR (a1 AND a1))", {"outcome": "rows", "rows": [[1], [2], [5]]}, {"outcome": "rows", "rows": []}, ["C01", "C05"])
case("C02", "optimizer-is-distinct-from-join-condition", "with the optimizer on, a WHERE conjunct a IS NOT DISTINCT FROM b over two joined tables removes every row (correct with enable_optimizer=false)",
     T1, "SELECT t3.k FROM t1 AS t2 INNER JOIN t1 AS t3 ON (t2.k = t3.k) WHERE (t3.k IS NOT DISTINCT FROM t2.k)", {"outcome": "rows", "rows": [[5], [5], [5], [5], [7], [-61]]}, {"outcome": "rows", "rows": []}, ["C01", "C06"])
case("C02", "optimizer-filter-through-right-join", "with the optimizer on, a WHERE predicate over the null-supplying side of a RIGHT JOIN that is followed by another join is lost (count 1 instead of 0; correct with enable_optimizer=false)",
     ["CREATE TEMP TABLE t0 (a0 TEXT)", "INSERT INTO t0 VALUES ('x'), ('hello world!'), (NULL)"],
     "SELECT count(*) FROM t0 AS t1 RIGHT JOIN t0 AS t2 ON (t1.a0 = t2.a0) INNER JOIN (VALUES ('hello world!')) AS v3(vc4) ON (t2.a0 = v3.vc4) WHERE ((vc4 || t1.a0) IN ('zzz'))",
     {"outcome": "rows", "rows": [[0]]}, {"outcome": "rows", "rows": [[1]]}, ["C01", "C06"])
case("C04", "left-join-limit-hang", "a LEFT (or RIGHT) hash join below LIMIT hangs with >= 2 partitions: the partition whose pipeline is cut short by the exhausted LIMIT never finishes probing, so the sibling waits forever on the drain barrier (hangs on the production executor too)",
     ["CREATE TEMP TABLE t2 (k INT)", "INSERT INTO t2 VALUES (CAST(NULL AS INT)), (7), (7), (7), (7), (7), (-78), (7), (4), (0), (2), (7), (7)"],
     "SELECT 1 FROM t2 AS t1 LEFT JOIN t2 AS t3 ON (t1.k = t3.k) LIMIT 1",
     {"outcome": "rows", "rows": [[1]]}, {"outcome": "deadlock", "deadlock_kind": "stuck_barrier", "parked_ops": ["HashJoin/exec"]},
     ["C01", "C03", "C06", "C08", "C15"], exec={"kind": "det", "policy": "fifo", "partitions": 2})

case("C04", "distinct-aggregate-union-limit-hang", "LIMIT above a UNION ALL whose branch is a grouped aggregate with a DISTINCT aggregate function hangs with >= 2 partitions (both executors): same family as left-join-limit-hang - the pipelines cut short by the exhausted LIMIT never finalize, so the distinct aggregation's cross-partition barrier waits forever. Needs an executor-level repair (finalizing upstream operators when a downstream operator is exhausted)",
     ["CREATE TEMP TABLE t0 (k INT, a BIGINT)", "INSERT INTO t0 VALUES (12, -2), (9, NULL), (3, NULL), (NULL, 349), (9, 2)"],
     "SELECT 1 FROM t0 GROUP BY k HAVING count(DISTINCT a) >= 0 UNION ALL SELECT 1 FROM t0 LIMIT 1",
     {"outcome": "rows", "rows": [[1]]}, {"outcome": "deadlock", "deadlock_kind": "stuck_barrier", "parked_ops": ["HashAggregate/exec", "Union/exec"]},
     ["C01", "C02", "C03", "C07", "C08", "C09", "C15"], exec={"kind": "det", "policy": "fifo", "partitions": 2})

for _shape, _ops, _sql in (("join_left", ["HashJoin/exec"], "SELECT * FROM (SELECT a.k, a.v, b.w FROM a LEFT JOIN b ON a.k = b.k) q LIMIT 3"),
                           ("join_nlj_left", ["NestedLoopJoin/exec"], "SELECT * FROM (SELECT a.k, b.k FROM a LEFT JOIN b ON (a.k + 1 < b.k)) q LIMIT 3"),
                           ("scalar_subquery", ["HashJoin/exec"], "SELECT * FROM (SELECT a.k, (SELECT max(w) FROM b WHERE b.k = a.k) FROM a) q LIMIT 3"),
                           ("union_distinct_agg", ["HashAggregate/exec", "Union/exec"], "SELECT k FROM a GROUP BY k HAVING count(DISTINCT v) >= 0 UNION ALL SELECT k FROM b LIMIT 3")):
    F.append({"status": "open", "property": "C04", "id": "limit-exhaustion-hang-" + _shape.replace("_", "-"),
              "signature": {"kind": "outcome", "class": "deadlock", "deadlock_kind": "stuck_barrier", "parked_ops": _ops, "limit_over": _shape},
              "what": "a LIMIT that is satisfied early above this shape leaves sibling partitions waiting on the operator's cross-partition barrier forever (>= 2 partitions, every schedule policy; the production executor hangs too). One executor-level defect (pipelines cut short by an exhausted downstream operator never finalize their upstream operators) seen through four shapes: LEFT hash join, LEFT nested-loop join, scalar subquery (left join), UNION ALL over a grouped DISTINCT aggregate. Of the 21 barrier-bearing shapes of C04 only these hang",
              "example": _sql, "also": ["C03", "C15"]})

case("C03", "alias-ref-to-subquery-item-duplicates-rows", "a select-list alias reference to an earlier item that contains a correlated scalar subquery makes the subquery's dependent join appear twice; with enable_hash_joins=false (nested-loop joins) every outer row is returned twice (correct with hash joins). Same root as derived-table-with-alias-reference-inlined-twice-loses-row: alias references clone the bound expression including its subquery",
     ["CREATE TEMP TABLE t0 (a TEXT)", "INSERT INTO t0 VALUES ('ab'), ('abc'), ('x')", "SET enable_hash_joins TO false"],
     "SELECT v.x, (SELECT min(20) FROM t0 s WHERE s.a <> v.y) AS z14, (z14 + 1) AS z16 FROM (VALUES ('abc', 'k'), ('B', 'ab')) v(x, y)",
     {"outcome": "rows", "rows": [["abc", 20, 21], ["B", 20, 21]]}, {"outcome": "rows", "rows": [["abc", 20, 21], ["B", 20, 21], ["abc", 20, 21], ["B", 20, 21]]},
     ["C01", "C06", "C09"])

case("C02", "optimizer-semi-join-constant-operand-loses-rows", "with the optimizer on, WHERE <constant> IN/ANY (uncorrelated subquery) over a filtered CTE or derived table loses the multiplicity of the outer rows (the semi join has no outer column, the join-reorder pass treats it as an unconnected relation; debug builds often hit the join-reorder assertion instead). Correct with enable_optimizer=false",
     ["CREATE TEMP TABLE t0 (b0 BIGINT)", "INSERT INTO t0 VALUES (3)", "CREATE TEMP TABLE t1 (c1 INT)", "INSERT INTO t1 VALUES (7), (7)"],
     "WITH cte9 AS (SELECT c1 AS z8 FROM t1 WHERE c1 IS NOT NULL) SELECT 'x' FROM cte9 WHERE (0::bigint <> ANY (SELECT b0 FROM t0))",
     {"outcome": "rows", "rows": [["x"], ["x"]]}, [{"outcome": "rows", "rows": [["x"]]}, {"outcome": "panic", "contains": "all_non_empty_edges_removed"}],
     ["C01", "C09", "C03"])

case("C07", "rollup-dependent-key-not-nulled", "in ROLLUP/CUBE a key that is an expression over another key's column (ROLLUP (k, k % 2)) is not NULL in the grouping sets that leave it out: its value is recomputed from the other key, while GROUPING() of it reports 1 (aggregated away) - the two disagree, and docs/sql/query-syntax/group-by.md says keys absent from a grouping set are NULL",
     ["CREATE TEMP TABLE t (k INT)", "INSERT INTO t VALUES (0), (2), (1)"],
     "SELECT k, k % 2 AS z, count(*) FROM t GROUP BY ROLLUP (k, k % 2)",
     {"outcome": "rows", "rows": [[0, 0, 1], [1, 1, 1], [2, 0, 1], [0, None, 1], [1, None, 1], [2, None, 1], [None, None, 3]]},
     {"outcome": "rows", "rows": [[0, 0, 1], [1, 1, 1], [2, 0, 1], [0, 0, 1], [1, 1, 1], [2, 0, 1], [None, None, 3]]},
     ["C01", "C02", "C03"])

for _ops in (["HashJoin/exec"], ["NestedLoopJoin/exec"], ["HashAggregate/exec", "Union/exec"]):
    F.append({"status": "open", "property": "C15", "id": "limit-exhaustion-hang-in-text-" + "-".join(o.split("/")[0].lower() for o in _ops),
              "signature": {"kind": "outcome", "class": "deadlock", "deadlock_kind": "stuck_barrier", "parked_ops": _ops, "limit_in_text": True},
              "what": "a mutated / generated statement containing LIMIT ran into the recorded executor defect (see C04 limit-exhaustion-hang-*): the statement never completes. Statements without LIMIT parked at the same operators are NOT covered by this entry",
              "example": "SELECT 1 FROM t0 GROUP BY k HAVING count(DISTINCT a) >= 0 UNION ALL SELECT 1 FROM t0 LIMIT 1"})

case("C07", "grouping-function-argument-order", "GROUPING(args) ignores the order of its arguments and mishandles expression keys: the bitmask follows the position of the keys in the GROUP BY list instead of the argument order documented in docs/sql/query-syntax/group-by.md (rightmost argument = least significant bit)",
     ["CREATE TEMP TABLE g (k INT)", "INSERT INTO g VALUES (1)"],
     "SELECT (k % 2) AS z2, grouping((k % 2), k) AS z3 FROM g GROUP BY CUBE (k, (k % 2))",
     {"outcome": "rows", "rows": [[1, 0], [None, 2], [1, 1], [None, 3]]}, {"outcome": "rows", "rows": [[1, 0], [None, 1], [1, 2], [None, 3]]}, ["C01", "C02", "C03"])

case("C09", "derived-table-with-alias-reference-inlined-twice-loses-row", "a derived table whose select list uses a lateral alias reference ((k + k) AS z6, (z6 + 1) AS z8) over a LEFT JOIN + CROSS JOIN loses one of its 40 rows when the same derived table text also appears in an uncorrelated scalar subquery of the WHERE clause (39 instead of 40; the WITH / VIEW forms return 40)",
     ["CREATE TEMP TABLE t0 (k INT, a0 BOOLEAN, b0 BOOLEAN, c0 TEXT)", "CREATE TEMP TABLE t2 (k INT)", "INSERT INTO t2 VALUES (CAST(5 AS INT))", "CREATE TEMP TABLE t3 (k INT, a DOUBLE, b3 DOUBLE)", "INSERT INTO t3 VALUES (CAST(7 AS INT), CAST(7.0::double AS DOUBLE), CAST(NULL AS DOUBLE)), (5, (-1.625)::double, (-9.75)::double), (7, 9.625::double, 9.125::double), (7, (-6.625)::double, 2.875::double), (10, (-0.125)::double, 2.375::double), (7, (-8.0)::double, (-7.875)::double), (7, NULL, (-7.25)::double), (7, (-0.5)::double, (-1.375)::double), (7, (-4.0)::double, 9.25::double), (7, (-9.875)::double, NULL), (7, (-4.5)::double, NULL), (7, 1.125::double, (-9.75)::double), (7, 1.375::double, (-3.875)::double), (7, 4.375::double, 1.5::double), (3, (-1.0)::double, 8.0::double), (7, (-5.25)::double, (-7.5)::double), (7, 6.625::double, (-3.375)::double), (7, 7.625::double, NULL), (7, 3.875::double, 1.25::double), (2, 0.5::double, (-2.375)::double), (1, NULL, (-2.25)::double), (7, (-3.25)::double, (-3.375)::double), (10, 4.125::double, (-2.625)::double), (7, (-0.125)::double, 6.625::double), (7, NULL, 4.125::double), (7, (-1.875)::double, (-10.0)::double), (2, 9.875::double, (-7.375)::double), (7, 9.5::double, NULL), (2, (-6.75)::double, 8.5::double), (7, 7.5::double, (-1.375)::double), (7, (-8.25)::double, (-7.75)::double), (7, 6.125::double, 1.625::double), (2, (-5.5)::double, (-6.75)::double), (7, 3.0::double, 3.75::double), (7, 7.5::double, NULL), (7, (-3.75)::double, 8.375::double), (7, (-5.875)::double, 9.625::double), (NULL, 2.625::double, 2.5::double), (7, 8.125::double, 9.875::double), (7, (-5.75)::double, 9.5::double)"],
     "SELECT count(*) FROM (SELECT (t1.b3 * 2.0::double) AS z4, (t1.k + t1.k) AS z6, (z6 + 1) AS z8 FROM t3 AS t1 LEFT JOIN t0 AS t2 ON (t1.k <> t2.k) CROSS JOIN t2 AS t3) AS q WHERE (SELECT count(*) FROM (SELECT (t1.b3 * 2.0::double) AS z4, (t1.k + t1.k) AS z6, (z6 + 1) AS z8 FROM t3 AS t1 LEFT JOIN t0 AS t2 ON (t1.k <> t2.k) CROSS JOIN t2 AS t3) AS q2) > 0",
     {"outcome": "rows", "rows": [[40]]}, {"outcome": "rows", "rows": [[39]]}, ["C01", "C02"])

T2 = ["CREATE TEMP TABLE t2 (k INT, j INT)", "INSERT INTO t2 VALUES (1,2),(2,3),(3,1)"]
case("C02", "optimizer-cte-self-join", "with the optimizer on, two scans of one CTE in the same FROM clause are confused with each other: the cross product c a, c b returns a's columns for b (wrong rows); with a join condition the join-reorder assertion fires / 'Filter previously used' is raised. Correct with enable_optimizer=false",
     T2, "WITH c AS MATERIALIZED (SELECT k, j FROM t2) SELECT * FROM c a, c b",
     {"outcome": "rows", "rows": [[1, 2, 1, 2], [1, 2, 2, 3], [1, 2, 3, 1], [2, 3, 1, 2], [2, 3, 2, 3], [2, 3, 3, 1], [3, 1, 1, 2], [3, 1, 2, 3], [3, 1, 3, 1]]},
     {"outcome": "rows", "rows": [[1, 2, 1, 2], [1, 2, 1, 2], [1, 2, 1, 2], [2, 3, 2, 3], [2, 3, 2, 3], [2, 3, 2, 3], [3, 1, 3, 1], [3, 1, 3, 1], [3, 1, 3, 1]]}, ["C01", "C09"])
case("C02", "optimizer-cte-self-join-left", "same defect through a LEFT JOIN between two scans of one CTE: every row pairs with itself whatever the ON condition says",
     T2, "WITH c AS MATERIALIZED (SELECT k, j FROM t2) SELECT * FROM c a LEFT JOIN c b ON (a.k = b.j AND a.j = b.k)",
     {"outcome": "rows", "rows": [[1, 2, None, None], [2, 3, None, None], [3, 1, None, None]]},
     {"outcome": "rows", "rows": [[1, 2, 1, 2], [2, 3, 2, 3], [3, 1, 3, 1]]}, ["C01", "C09"])

case("C02", "optimizer-semi-join-reorder-loses-rows", "with the optimizer on, a WHERE <x> op ANY/IN (subquery) over a FROM list of three or more tables loses the multiplicity of the other tables (the semi join is reordered below the cross product and duplicates collapse)",
     ["CREATE TEMP TABLE t0 (k INT)", "INSERT INTO t0 VALUES (-3)", "CREATE TEMP TABLE t1 (k INT)", "INSERT INTO t1 VALUES (7)", "CREATE TEMP TABLE t2 (k INT)", "INSERT INTO t2 VALUES (-33), (-3)"],
     "SELECT 2.5::double AS z FROM t1, t2, t0 AS t3 WHERE (t3.k <> ANY (SELECT s4.k FROM t1 AS s4))",
     {"outcome": "rows", "rows": [[2.5], [2.5]]}, {"outcome": "rows", "rows": [[2.5]]}, ["C01", "C06", "C09"])

with open(os.path.join(V, "known_findings.jsonl"), "w") as f:
    for e in F:
        f.write(json.dumps(e) + "\n")
with open(os.path.join(V, "known_cases.json"), "w") as f:
    json.dump(C, f, indent=1)
print(len(F), "findings,", len(C), "fixed cases")
