#!/usr/bin/env python3
"""Regenerates /verif/MANIFEST.json from the table below (keeps it schema-valid)."""
import json, os, subprocess
V = os.path.dirname(os.path.dirname(os.path.abspath(__file__)))
props = [json.loads(l) for l in open(os.path.join(V, "properties.jsonl"))]
ids = [p["id"] for p in props]

HOOK_COMMITS = ["332865e1b", "bf49db00e", "0b99e4fc0", "68bfb6d5a"]

CHECKS = {
 "C16": dict(
   level="exploration", design="§4 C16",
   technique="runtime monitoring with sanitizers: the real engine executed under AddressSanitizer (deterministic executor and production thread pool), ThreadSanitizer (thread pool, 2-16 threads, injected pauses), valgrind memcheck (plain build) and, in the thorough tier, Miri; report monitor over each process' stderr (ASan/TSan/memcheck/Miri report blocks, deduplicated by tool, bug kind and the first in-repo frames) plus a monitor for failed assert!/debug_assert!/unreachable! inside /repo/crates",
   text="Own corpus aimed at the sizes the property names (variable-length values of 0/11/12/13/40/300/4096/100000 bytes, 0-2500 rows, batch_size 1-2048, partitions 1-16, many-to-many hash and nested-loop joins, grouped/distinct/rollup aggregation, multi-key sorts, CTAS and self-insert, lists, string functions; Parquet with 4 encodings x 4 codecs and CSV under 1-byte / random / Pending read chunking), and samples of the workloads of ten other checks re-run with the driver switched to the instrumented build. Evidence lists per build: cases, statements, operators reached (from hook H1), thread counts, report count.",
   note="Held on the executions produced only: red-zone tools miss intra-object and far out-of-bounds accesses; LeakSanitizer is off; Miri runs with permissive provenance and cannot cross the zstd FFI. A quick run needs two instrumented rebuilds (asan ~3 min, tsan with -Zbuild-std ~4 min on an idle machine). Two memory-safety defects were found by C13/C20 on the plain build (unwritten output slots read as string views) and repaired."),
 "C05": dict(
   level="exploration", design="§4 C05",
   technique="runtime monitoring: reference-value oracle (Python: exact integers/Fractions, IEEE floats bit-exact, datetime, 2-ulp tolerance for transcendental functions) on echoed argument tuples, and a context-agreement monitor: the same expression over the same tuple evaluated in nine contexts of the real engine must give the same value",
   text="Comparisons over all numeric/text/date/boolean/timestamp types incl. mixed integer, int-float, int-decimal and decimal-decimal pairs, IS/IS DISTINCT FROM/BETWEEN/IN-list, AND/OR/NOT exhaustive 27-row truth tables (61 shapes), CASE/COALESCE, non-overflowing arithmetic on ints, floats (bit-exact) and decimals, ~45 numeric functions, date_part/extract/date_trunc/epoch* against Python datetime for years 1-9999, documented examples of list_functions(); arguments boundary-biased (NULL, +-0, NaN, +-inf, subnormals, type limits, 2^24/2^53/2^63 neighbours), 8-bit pairs exhaustively (one pair per seed in quick, all in thorough). Contexts: columns, under a selection, as the WHERE predicate (kept ids checked), constant vector from a one-row cross join, literals with folding on/off, CASE branch and condition, JOIN ON condition, written twice (CSE). Operator precedence by minimal vs full parenthesisation of random trees.",
   note="Built by a sub-agent, reviewed by the lead. Where the documentation leaves a choice (tie rule of round() on floats, IS TRUE of NULL) only context agreement is required. Repaired through this check: -0.0/+0.0 hashed differently (join/group keys), date_part seconds fields, date_trunc before 1970, CASE with untyped NULL first branch, DECIMAL vs untyped NULL / UBIGINT precision. Recorded: BIGINT vs UBIGINT compared as DOUBLE, asinh/acosh accuracy, missing TIMESTAMP cast set."),
 "C13": dict(
   level="exploration", design="§4 C13",
   technique="runtime monitoring: exact-arithmetic oracle (Fractions, candidate rounding rules per conversion kind intersected over all observations, rule-independent constraints: range, precision, neighbouring value, exact when representable) over engine executions; outcome-class monitor; text round-trip monitor through a materialised text column",
   text="Cast matrix discovered at run time over 24 types (twice, in separate engines). Numeric->numeric for every pair: 8-bit sources exhaustively, otherwise boundary-biased (limits +-1, +-0, NaN, +-inf, subnormals, halfway cases at every target scale, 2^24/2^53/2^63/2^64 neighbours, max-precision decimals); three routes (CAST, ::, INSERT into a typed column) must agree; idempotence, monotonicity, folded-constant context; every value expected to fail gets its own case and a mixed batch must fail as a whole. Chained casts must equal the composition. TEXT -> every type with spelling corpora (signs, zeros, whitespace, exponents, garbage, empty, nan/inf, long digit strings, dates incl. Feb 30 / year 0 / 10000, booleans, intervals). Round trip v::TEXT::T bit-exact for every type with both directions. Thorough: all 65536 values of SMALLINT, USMALLINT and HALF.",
   note="Built by a sub-agent, reviewed by the lead. TRY_CAST does not exist. Repaired through this check: nested-cast flattening over a lossy inner cast, decimal->decimal rescale/precision, validate_precision at MIN, text->decimal parser (overflow, precision, empty, rounding), BINARY->TEXT invalid UTF-8 leaving an unwritten slot, int/float->decimal scale >= 10. Recorded: float<->decimal scaling done in the float format (6 signatures), interval parser overflow/saturation (3), interval text round trip (7)."),
 "C20": dict(
   level="exploration", design="§4 C20",
   technique="runtime monitoring: code-point reference oracle (Python str/re, 40-line LIKE matcher) over engine executions; UTF-8 validity monitor on raw result bytes in the driver; four-way agreement monitor for LIKE (constant pattern optimizer on / off, pattern from a column, NOT LIKE) and context agreement (column, under selection, folded constant)",
   text="56 spellings of the documented string and regexp functions x argument sweeps (positions/counts -3..len+3, 100, i64 MIN/MAX, empty and multi-character pads/sets/delimiters) over an 18-symbol alphabet (ASCII, 2-4 byte code points, combining mark, %, _, backslash, regex metacharacters, newline): all strings of length <= 3 over 8 symbols (thorough: 18), random strings of 0-40 bytes biased to the 12-byte inline threshold and to long strings sharing 4-byte prefixes; NULL in every argument position; LIKE: all patterns x all strings of length <= 3 (thorough <= 4) over {a, b, e-acute, %, _, backslash} in every form, plus long strings and newline-bearing strings.",
   note="Where the documentation is silent several outcomes are accepted (listed in the evidence assumptions). Built by a sub-agent, reviewed by the lead. Nine defects found by this check were repaired (LIKE rewrite ignoring the escape character, wildcards not matching newline, unwritten output slots for invalid per-row regexes, regexp_instr byte offsets, split_part negative indexes, substring/lpad/rpad/left/right corner cases)."),
 "C15": dict(
   level="exploration", design="§4 C15",
   technique="runtime monitoring: outcome-class monitor at the client boundary (rows|error vs panic, process death, deadlock, divergence) with journal attribution of process deaths to one statement, plus a session-state probe (catalog listing, table digest, settings, SELECT 1) after every statement compared with the probe before a failed statement",
   text="Five streams per run (every other session with verify_optimized_plan on): ~3 600 token-level mutations of valid statements (the statement texts of /repo/slt/standard, C01-generator queries, DDL/DML/SET), 600 random strings over SQL fragments/control/multi-byte characters, ~90 listed ill-typed / unsupported / failing-at-run-time statements (planner thread and worker), 23 structure-stress kinds x depths 10..10^4 (one process each), and every function/operator form x argument type tuples over a table of extreme values (~10 000 expressions). Sessions of 60 statements on the deterministic executor and on the production thread pool (every sixth session).",
   note="Allocation failures below 2^40 bytes under the harness' address-space cap are resource exhaustion and counted as inconclusive. Stack overflows for deep nesting are recorded as known findings per nesting kind; numeric overflow panics share the C12 signatures. Repaired through this check: CREATE TABLE AS leaving a table behind after a failed statement; left/right/split_part negating i64::MIN."),
 "C18": dict(
   level="exploration", design="§4 C18",
   technique="runtime monitoring: four-way consistency monitor over executions — DESCRIBE rows, announced output schema, DataType of every produced Array and variant/precision/scale/unit of every produced value (the last two compared inside the driver at the client boundary) — plus re-binding of the same expression in other syntactic places and fresh sessions",
   text="Type unification (UNION ALL with one to three mismatched columns in both directions, CASE, COALESCE, VALUES) over ordered type pairs, and a type-resolution sweep: every scalar/aggregate function name of list_functions(), every binary operator and the CASE/COALESCE/IN/BETWEEN/list/cast forms x argument tuples over 23 column types (all arity-1 tuples; arity-2/3 sampled in quick, exhaustive arity-2 in thorough). DESCRIBE decides which tuples bind; every binding expression is executed over a 4-row table and the four observations must agree; a sample is re-bound as UNION ALL branch, CTE, derived table, CREATE TABLE AS (+DESCRIBE of the table), GROUP BY key and over typed literals with constant folding on/off, and must get the same type and name. Unification (UNION ALL, CASE, COALESCE, VALUES) over ordered type pairs, random queries of the C01 generator, DESCRIBE of tables/views/table functions, SHOW, DML counts.",
   note="No model of the overload rules is used: only agreement between observations of the same engine. Panics met while executing odd argument tuples are counted here and judged by C15. Four defects found by this check were repaired (SHOW announced Utf8; arithmetic re-bind widened decimals; int/float->decimal casts with scale >= 10 overflowed at bind; substring with start <= 0 never returned)."),
 "C14": dict(
   level="exploration", design="§4 C14",
   technique="runtime monitoring: client-boundary history of DDL/DML/SET statements with uniquely identified rows, checked offline against a sequential model of catalog + table contents + settings; histories run under the deterministic executor (random/lifo/fifo/pct schedules, forced yields) and the production thread pool",
   text="Random histories (30-150 statements, 1-3 sessions of one engine, statements interleaved) over schemas, temp tables in 3 layouts, views, CREATE TABLE AS, INSERT VALUES / INSERT SELECT (from the target itself, under batch sizes up to 8192 so that appended batches split over several storage chunks, from other tables, wrong arity, failing on the k-th row), SET/RESET/RESET ALL/invalid SET, appends and self-inserts crossing the 32768-row flush threshold. Every row carries a unique id; at random points and at the end the object lists, table contents, view contents, DESCRIBE output and settings of every session are diffed against the model, and each statement's ok/error class and reported row count must match.",
   note="Only temp objects exist in this engine build (no persistent catalog), so 'catalog' means the session's temp catalog. Error messages are not compared; dropping a non-empty schema has no documented rule and is not generated. Two defects found by this check were repaired (self-insert reads own writes / never terminates; VALUES rounds later decimal rows)."),
 "C17": dict(
   level="exploration", design="§4 C17",
   technique="runtime monitoring: RFC-4180 reference oracle (Python csv configured with the dialect/header decision reported by hook H3) over executions of read_csv; chunking-invariance monitor (one file under ChaosFs read sizes 1..4097, Pending, batch sizes, partitions must give identical rows)",
   text="Files whose 4096-byte inference sample ends inside a boolean / after a minus sign / inside an exponent, multi-byte character, quoted field or digit run (types must be the narrowest over the records complete inside the sample), and generated CSV/TSV files over delimiter x quote x header x LF/CRLF x quoting policy x final newline x column kinds (ints, floats, booleans in all spellings, mixed, text with embedded delimiters/quotes/CR/LF/multi-byte characters) x sizes below and above the 4096-byte inference sample are read 5-9 times each under different read chunkings, batch sizes and partition counts. Rows must equal Python's csv parse under the reported dialect (empty field = NULL, values parsed by the inferred type), column names the header record, inferred types the narrowest of BOOLEAN<BIGINT<DOUBLE<TEXT for files inside the sample, and all read configurations of a file must agree.",
   note="Files that are ragged under the reported dialect, or whose later rows do not fit the type inferred from the sample, have no specified outcome; only consistency across chunkings is required for them. Needs hook H3 (csv_infer note)."),
 "C19": dict(
   level="fault_enumeration", design="§4 C19",
   technique="runtime monitoring with fault injection: every truncation, enumerated byte corruptions of all metadata regions and targeted metadata lies of small valid files (written by the independent writer) are fed to the real reader, one engine per mutant, under CPU-time and address-space limits; outcome-class monitor (rows/error vs panic, abort, allocation failure, non-termination) with journal attribution",
   text="For each base file (18 type/encoding layouts x 5 codecs x page v1/v2 x 1-3 row groups): every truncation length (exhaustive), ~45 whole-field values of the trailer's footer length, every byte of the footer, page headers, dictionary pages and level regions x {0x00,0xFF,^0x01,^0x80} plus 10% of data bytes, and ~20 metadata fields x 7 lie values; plus ~50 malformed CSV files. 20-65k mutants per quick run. A mutant that panics, kills the process, exceeds 20 CPU-seconds or the 4 GiB cap refutes the property; each recorded panic site is a known finding keyed by (message class, source file).",
   note="Process deaths are attributed through the journal (START line before each case). Three of the defects found this way were repaired (chunk range past EOF: spin/abort; footer length unchecked); 24 panic sites and 2 allocation aborts are recorded in known_findings.jsonl."),
 "C10": dict(
   level="exploration", design="§4 C10",
   technique="runtime monitoring: independent-writer oracle (files produced by vf/pqwrite.py, a from-the-spec Parquet writer sharing no code with the engine) over executions of read_parquet under varied batch sizes, partitions and adversarial read chunking (ChaosFs); metadata functions vs written footer",
   text="~700 (quick) / 6000 (thorough) generated files cover physical type x logical annotation x encoding (PLAIN, dictionary incl. mid-chunk fallback, RLE, DELTA_BINARY_PACKED, DELTA_LENGTH_BYTE_ARRAY, DELTA_BYTE_ARRAY, BYTE_STREAM_SPLIT) x NULL pattern x page v1/v2 (compressed and uncompressed) x codec x page size x row-group layout x level/index run style; each is read several times under batch sizes 1-2048 (decoders resume mid-page/mid-run/mid-miniblock), 1/2/5 partitions and ChaosFs short reads / Pending; values are compared bit-exactly and in file order (partitions=1), announced types with the writer's, parquet.file/rowgroup/column_metadata with the footer written.",
   note="Trusts vf/pqwrite.py (structurally self-checked against an independent thrift re-parse; written from the format specification). SNAPPY/LZ4_RAW/ZSTD streams are literal-only. Nested types are out of scope (engine: not implemented)."),
 "C11": dict(
   level="exploration", design="§4 C11",
   technique="runtime monitoring: three-way oracle over executions (scan with projection/filter pushdown and row-group pruning vs the same query with the optimizer off vs the rows the independent writer encoded); execution_profile() as coverage monitor that pruning really happened; glob()/list scans vs per-file reads",
   text="Files with truthful statistics in every layout (new, deprecated-only, both, none, inexact-wide, no exactness flags) on signed, unsigned, decimal, date, float, string and boolean columns with disjoint/overlapping/NULL-only/min=max row groups are queried with col = const (constant inside, outside, at min/max, of another literal type, NULL), range predicates, conjunctions, disjunctions and projections (subsets, reorderings, repeats, _rowid, count(*)); pushdown-on must equal pushdown-off and the writer's rows. Lists and globs over a real directory tree must return each matching file exactly once (vs glob() listing, UNION ALL and the writer's rows) for 1..#files+1 partitions.",
   note="'**' glob semantics are undocumented: the engine's own glob() listing defines matching there (must stay within the zero-or-more-directories reading). Comparison semantics of mixed-type predicates (e.g. UBIGINT vs BIGINT literal compared as DOUBLE) belong to C05."),
 "C09": dict(
   level="exploration", design="§4 C09",
   technique="runtime monitoring: per-outer-row nested-evaluation oracle (reference interpreter on the generator's AST) for correlated subqueries; metamorphic oracle over CTE / MATERIALIZED CTE / VIEW / inlined forms of one inner query; recorded-deviation switches tied to semantic triggers",
   text="Correlated EXISTS/IN/scalar subqueries whose body has its own GROUP BY/HAVING (also through derived tables) are judged against direct nested evaluation in Python; and a generator weighted to scalar/EXISTS/IN/ANY/ALL/LATERAL subqueries, correlated through filters, projections and aggregates and placed in the select list, WHERE and under NOT (where NULL vs FALSE is visible), is executed on databases with NULL and duplicate correlation values and inner sets that are empty for some outer rows; every result is compared with per-outer-row nested evaluation. The same inner query is then run as WITH, WITH MATERIALIZED, TEMP VIEW and inlined derived table (referenced once or twice) and the four results must agree; the documented MATERIALIZED+random() example must return true. Three recorded deviations (two-valued IN/ANY/ALL, COUNT bug, NULL correlation = empty set) are recognised only when their semantic trigger fired in the specification run.",
   note="Self-joins of one CTE run into recorded optimizer defect optimizer-cte-self-join and are covered by fixed cases instead of the random stream."),
 "C07": dict(
   level="exploration", design="§4 C07",
   technique="runtime monitoring: per-group reference oracle (Python) over echoed rows; split/order homomorphism monitor (same data in 3 row orders x 1/2/3/8 partitions x adversarial controlled schedules must give the same groups and aggregates)",
   text="30 aggregates (count/sum/avg/min/max over ints, doubles, text; bool_and/or, bit_and/or, string_agg, stddev/var pop/samp, DISTINCT variants, first) are computed in one query per grouping form (ungrouped, GROUP BY g, g+b, ROLLUP, CUBE with GROUPING(), SELECT DISTINCT, UNION, empty input) for group keys of 12 types and cardinalities from 1 to thousands of groups (hash tables resize during build and merge), and compared group by group with a Python computation; the same table is loaded in three row orders and aggregated under 1/2/3/8 partitions with starve/lifo/pct/random schedules. Sampled data.",
   note="Float inputs are dyadic so sums are exact in any order; string_agg is compared as a multiset of pieces, first() by membership. ROLLUP/CUBE over empty input is not compared (undocumented). FILTER is 'not implemented' after fix b7ac3cc0f."),
 "C08": dict(
   level="exploration", design="§4 C08",
   technique="runtime monitoring: comparator oracle on adjacent output rows + permutation (bag) check against the echoed input + admissible-slice monitor; limit-hint sort vs full sort differential (optimizer on/off)",
   text="All 65536 SMALLINT and USMALLINT values (exhaustive sub-spaces) plus NULLs are sorted from a scrambled order under direction x null-placement combinations with many sort blocks and 1-8 partitions; boundary values of every sortable type (NaN, +-0, +-inf, doubles differing only in low mantissa bits, decimals at both widths, strings sharing >12-byte prefixes, dates, booleans) are sorted by 1-4 mixed keys with batch sizes 4-2048; LIMIT/OFFSET around 0/batch/input size is checked with the admissible-slice rule, with ORDER BY (limit hint on and off) and without.",
   note="HALF-float keys and binary keys with 0x00/0xFF bytes need Parquet-loaded data and are exercised by C10's files, not here. -0.0 vs +0.0 have no documented order and only meet in single-key sorts."),
 "C06": dict(
   level="exploration", design="§4 C06",
   technique="runtime monitoring: nested-loop reference oracle (Python, SQL three-valued conditions) over the echoed table contents, conservation monitors on the engine's own answers, hash vs nested-loop differential by configuration",
   text="For 12 key types x key distributions (unique, duplicates, hot key larger than a batch, all NULL, empty side) 26 join forms (INNER/LEFT/RIGHT/SEMI/anti/mark/USING/LATERAL/cross; no, single, double equality, equality+inequality, inequality-only and expression conditions) run under hash joins on/off, 1/2/4 partitions and batch sizes 1/3/16/2048 with random schedules; each result is compared as a bag of row-id pairs with a Python nested loop, and |LEFT| = |INNER| + unmatched, SEMI + ANTI = left input, |CROSS| = |l||r|, no NULL key ever matched are checked without a model. Sampled inputs.",
   note="NaN/-0.0 join keys are outside the claimed bound (no documented rule). NOT IN / mark forms are restricted to NULL-free sets because the two-valued IN deviation is a recorded finding (C09)."),
 "C04": dict(
   level="exploration", design="§4 C04",
   technique="runtime monitoring: harness-owned deterministic scheduler (controls which partition pipeline is polled next; yields, spurious polls, duplicate wakes) with logical deadlock/divergence verdicts and result invariance; H1 operator-protocol monitors; offline replay of the production scheduler's H2 event log against its 4-flag state machine; cancellation probes",
   text="56 query shapes (33 barrier-bearing shapes, and 22 of them again under a LIMIT that is satisfied early) x 4 data sizes x partition counts are run sequentially and then under controlled schedules (7 policies, yields at operator-call granularity, spurious and duplicated wake-ups); a schedule that deadlocks (run queue empty, client unfinished), exceeds the step budget, changes the result, swallows an injected task error or breaks the operator call protocol refutes the property. The same shapes run on the real rayon thread pool with seeded pauses in the schedule/execute windows; every scheduler event is replayed against the state machine (finished task re-run, overlapping executions, idle with pending wake). Cancelled queries must end with an error or their rows. ~2000 distinct schedules and ~160k scheduler events per quick run; exploration, not enumeration.",
   note="The det executor enumerates orders of operator calls, not machine instructions; sub-lock interleavings are only sampled by the native runs. The wasm runtime twin is not executed. A wall-clock timeout on the native executor is inconclusive."),
 "C02": dict(
   level="exploration", design="§4 C02",
   technique="runtime monitoring: differential oracle over executions (same session, enable_optimizer on vs off) with EXPLAIN VERBOSE diff as coverage monitor; reference model as third voice",
   text="Every generated query is executed twice by the real engine, with the optimizer enabled and disabled, and the results (rows as bag / order / admissible slice, column names and types) must agree; a one-sided error is only accepted when the reference model says evaluation must fail. The EXPLAIN VERBOSE plans are diffed to record which rewrite kinds actually fired (12 kinds observed) and pairs where nothing fired do not count as non-trivial. Exploration of sampled queries/databases only.",
   note="Trusts that SET enable_optimizer switches Optimizer::optimize for later statements and that EXPLAIN VERBOSE shows the executed plans. Shapes hitting recorded optimizer defects are skipped in the random stream and re-checked as fixed cases (known_cases.json)."),
 "C03": dict(
   level="exploration", design="§4 C03",
   technique="runtime monitoring: metamorphic oracle over executions of one script under many physical configurations (partitions, batch size, join algorithm, deterministic vs production thread-pool executors), plus reference model",
   text="Scripts of DDL, INSERTs, generated queries, CREATE TABLE AS and INSERT..SELECT are replayed under a configuration sample that always contains the corners (1/2/3/rows-1/rows/rows+1/64/512 partitions; batch sizes 1..8192 incl. exact multiples; hash joins on/off; det executor with random/lifo policies and the production ThreadedNativeExecutor with 1/2/16 threads). Every statement's rows, counts and schema must equal the reference configuration's and the model's. Sampled, not exhaustive.",
   note="512-partition cases run under a wider memory cap (partitioned hash tables are quadratic in partitions); an allocation failure under the cap is reported as inconclusive, not as a violation."),
 "C01": dict(
   level="exploration", design="§4 C01",
   technique="runtime monitoring: reference-model oracle (naive SQL interpreter on the generator's AST) over executions of generated composed queries under a deterministic controlled scheduler with yields; outcome-class monitor",
   text="Random databases (plus a few single-table databases of 2500-7000 rows with wide key domains, so that hash tables grow while holding groups) x type-directed random composed SELECTs (joins, grouping sets, DISTINCT, UNION, ORDER BY/LIMIT, CTEs, derived tables, LATERAL, scalar/EXISTS/IN/ANY/ALL subqueries) are executed by the real engine (random partitions 1-8, batch sizes 1-2048, random schedules) and every result is compared as a bag / ordered sequence / admissible slice with a reference interpreter; engine errors on statements the model accepts are violations. Held on the sampled executions only. Query shapes that run into recorded defects are skipped (counted per finding) and each recorded defect is re-checked on a fixed case.",
   note="Trusts vf/refsql.py (cross-checked against SQLite in ./check setup), the typed value encoding of vdrive, and the avoid rules in vf/avoid.py being no wider than the recorded defects."),
 "C12": dict(
   level="exploration", design="§4 C12",
   technique="runtime monitoring: exact-arithmetic oracle (Python int/Fraction) over engine executions; outcome-class monitor (value/error/panic/process death) with journal attribution",
   text="Every integer operator is executed on all 8-bit operand pairs (exhaustive sub-space) and on boundary-biased pairs of wider types, decimals over swept (p1,s1,p2,s2) combinations with one case per operator, every pair also on its own and errors judged against the result type announced by DESCRIBE, SUM/AVG incl. accumulator overflow; each returned value is compared with exact arithmetic and each unrepresentable case must end in an error. Held-on-what-was-run, not a proof: wider operand spaces are sampled.",
   note="Trusts Python integer/Fraction arithmetic and the harness value encoding; integer division semantics (truncation) taken from the operators' documentation examples. Debug assertions and overflow checks are ON in the harness build, so a wrap shows up as a panic."),
}

NA_REASON = "check under construction in this round (see DESIGN.md Appendix C); not yet claimed"

def main():
    checks = []
    for pid in ids:
        if pid not in CHECKS:
            continue
        c = CHECKS[pid]
        checks.append({
            "property_id": pid,
            "quick_cmd": f"./check {pid} --tier quick",
            "thorough_cmd": f"./check {pid} --tier thorough",
            "evidence_file": f"/verif/evidence/{pid}.json",
            "replay_cmd_template": f"./check {pid} --replay {{path}}",
            "engine": "vdrive",
            "level_claimed": {"category": c["level"], "text": c["text"], "design_ref": c["design"]},
            "level_note": c["note"],
            "technique": c["technique"],
        })
    m = {
        "version": 1,
        "setup_cmd": "./check setup",
        "hooks": {
            "guard": "verif",
            "enable": "cargo feature `verif` on glaredb_core, glaredb_rt_native, glaredb_ext_csv; enabled only by /verif/harness/Cargo.toml (path dependencies on /repo/crates), never by the workspace",
            "baseline_off_cmd": "cd /repo && cargo nextest run --workspace --no-fail-fast --tool-config-file pb:/w/lib/nextest.toml --profile pb --test-threads 8 --offline",
            "source_commits": HOOK_COMMITS,
            "add_only": True,
        },
        "engines": [{"name": "vdrive", "path": "harness", "serves_properties": ids,
                     "kind_free_text": "Rust driver linking the real engine crates with feature verif: deterministic controlled scheduler (PipelineRuntime owned by the harness), production threaded scheduler with H2 event log, ChaosFs filesystem, typed history; Python generators/oracles in vf/"}],
        "checks": checks,
        "notes": "Technique family: runtime monitoring and sanitizers. See DESIGN.md. known_findings.jsonl lists genuine defects recorded or fixed.",
        "not_applicable": [{"property_id": p, "reason": NA_REASON} for p in ids if p not in CHECKS],
    }
    json.dump(m, open(os.path.join(V, "MANIFEST.json"), "w"), indent=1)
    r = subprocess.run(["python3-vt", "-c", "import json,jsonschema;jsonschema.validate(json.load(open('%s/MANIFEST.json')),json.load(open('/root/.vp/MANIFEST.schema.json')));print('manifest valid')" % V])
    return r.returncode

if __name__ == "__main__":
    raise SystemExit(main())
