#!/bin/bash
# usage: tools/sweep.sh <tier> <seed>... ; runs every registered check except C16 at each seed, prints summary + violations
tier=$1; shift
cd /verif
for s in "$@"; do
  for c in C01 C02 C03 C04 C05 C06 C07 C08 C09 C10 C11 C12 C13 C14 C15 C17 C18 C19 C20; do
    out=$(VERIF_SEED=$s ./check $c --tier $tier 2>&1)
    rc=$?
    echo "seed=$s $c rc=$rc $(echo "$out" | tail -1)"
    echo "$out" | grep -A2 "^VIOLATION" | cut -c1-400
    echo "$out" | grep "^INCONCLUSIVE" | cut -c1-200
  done
done
echo SWEEPDONE
