#!/bin/bash
# usage: tools/seedtest.sh <seed-dir-name> <check-id>...   applies /verif/seeded/<name>/patch.diff to /repo, runs the checks, undoes it
set -u
name=$1; shift
cd /verif
if [ -n "$(git -C /repo status --short)" ]; then echo "/repo not clean"; exit 2; fi
git -C /repo apply /verif/seeded/$name/patch.diff || exit 2
mkdir -p /verif/seeded/$name/runs
for c in "$@"; do
  ./check $c > /verif/seeded/$name/runs/$c.out 2>&1
  echo "== $name vs $c: exit $? $(grep -c '^VIOLATION' /verif/seeded/$name/runs/$c.out) violation lines"
  grep -A1 '^VIOLATION' /verif/seeded/$name/runs/$c.out | head -4
  tail -1 /verif/seeded/$name/runs/$c.out
done
git -C /repo checkout -- .
git -C /repo status --short
