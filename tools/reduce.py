#!/usr/bin/env python3
"""Minimise a model-vs-engine disagreement found by a random workload.

usage: tools/reduce.py <replay.json> [--prop C01]
The generator is re-run with the replay's seed/tier to recover the AST of the failing query (matched by SQL text);
then the query and the database are shrunk while the same kind of disagreement persists.
"""
import sys, os, json, copy, random
sys.path.insert(0, os.path.dirname(os.path.dirname(os.path.abspath(__file__))))
from vf import run as vrun, qcheck, sqlgen, core
from vf.sqlast import E, Sel, Q, F, qsql
from vf.refsql import contains_agg


class FakeChk:
    def __init__(self):
        self.v = None
        self.k = None

    def evaluated(self, n=1): pass
    def count(self, *a, **k): pass
    def inconc(self, *a, **k): pass
    def nontrivial(self, *a): pass

    def violation(self, sig, text, replay=None):
        self.v = (sig, text)
        return True


def classify(db, q, exec_cfg, batch_size=None):
    """-> (kind string, detail) of the disagreement or None."""
    try:
        sql = qsql(q)
    except Exception as e:
        return None
    steps = [{"sql": s, "out": "count"} for s in sqlgen.load_steps(db)]
    if batch_size:
        steps.append({"sql": f"SET batch_size TO {batch_size}", "out": "count"})
    steps.append({"sql": sql})
    case = {"id": "r", "exec": exec_cfg, "steps": steps, "max_rows": 20000}
    res, _ = vrun.run_cases([case], wall_s=60)
    r = res.get("r")
    if r is None:
        return None
    if "died" in r:
        return ("died", json.dumps(core.outcome_signature(r)))
    if "steps" not in r:
        return None
    st = r["steps"][-1]
    if any(s["outcome"] not in ("rows", "empty") for s in r["steps"][:-1]):
        return None
    chk = FakeChk()
    try:
        verdict = qcheck.judge(chk, db, q, sql, st, case, set())
    except Exception:
        return None   # the candidate is not a well-formed query for the model
    if chk.v is None:
        return None
    sig = chk.v[0]
    kind = sig.get("kind")
    if kind == "wrong-result":
        return ("wrong-result", chk.v[1])
    return (json.dumps(sig, sort_keys=True), chk.v[1])


def expr_children_same_type(e):
    out = []
    if not isinstance(e, E):
        return out
    for x in e.a:
        if isinstance(x, E) and x.t == e.t:
            out.append(x)
        elif isinstance(x, (list, tuple)):
            for y in x:
                if isinstance(y, E) and y.t == e.t:
                    out.append(y)
                elif isinstance(y, tuple):
                    for z in y:
                        if isinstance(z, E) and z.t == e.t:
                            out.append(z)
    return out


def replace_in(obj, target, repl):
    """Deep copy of obj with the node `target` (by identity) replaced by repl."""
    memo = {id(target): repl}
    return copy.deepcopy(obj, memo)


def all_exprs(q):
    out = []

    def walk_e(e):
        if isinstance(e, E):
            out.append(e)
            for x in e.a:
                walk_e(x)
        elif isinstance(e, (list, tuple)):
            for x in e:
                walk_e(x)
        elif isinstance(e, Q):
            walk_q(e)

    def walk_f(f):
        if f is None:
            return
        if f.k == "join":
            walk_f(f.left)
            walk_f(f.right)
            if f.on is not None:
                walk_e(f.on)
        elif f.k in ("sub", "lateral"):
            walk_q(f.q)

    def walk_q(qq):
        for _, cq, _m in qq.ctes:
            walk_q(cq)
        b = qq.body
        if isinstance(b, Sel):
            walk_f(b.frm)
            for e, _ in b.items:
                walk_e(e)
            walk_e(b.where)
            walk_e(b.having)
        else:
            walk_q(b[2])
            walk_q(b[3])
    walk_q(q)
    return out


def all_queries(q):
    out = []

    def walk_e(e):
        if isinstance(e, E):
            for x in e.a:
                walk_e(x)
        elif isinstance(e, (list, tuple)):
            for x in e:
                walk_e(x)
        elif isinstance(e, Q):
            walk_q(e)

    def walk_f(f):
        if f is None:
            return
        if f.k == "join":
            walk_f(f.left)
            walk_f(f.right)
            walk_e(f.on)
        elif f.k in ("sub", "lateral"):
            walk_q(f.q)

    def walk_q(qq):
        out.append(qq)
        for _, cq, _m in qq.ctes:
            walk_q(cq)
        b = qq.body
        if isinstance(b, Sel):
            walk_f(b.frm)
            for e, _ in b.items:
                walk_e(e)
            walk_e(b.where)
            walk_e(b.having)
        else:
            walk_q(b[2])
            walk_q(b[3])
    walk_q(q)
    return out


def candidates(q):
    """Yield simplified deep copies of q."""
    qs = all_queries(q)
    for idx, sub in enumerate(qs):
        def mutate(fn):
            c = copy.deepcopy(q)
            target = all_queries(c)[idx]
            if fn(target) is False:
                return None
            return c
        if sub.order or sub.limit is not None:
            yield mutate(lambda t: (setattr(t, "order", []), setattr(t, "limit", None), setattr(t, "offset", None)))
        if sub.limit is not None:
            yield mutate(lambda t: (setattr(t, "limit", None), setattr(t, "offset", None)))
        if sub.ctes:
            for ci in range(len(sub.ctes)):
                yield mutate(lambda t, ci=ci: t.ctes.pop(ci))
        b = sub.body
        if isinstance(b, Sel):
            if b.distinct:
                yield mutate(lambda t: setattr(t.body, "distinct", False))
            if b.where is not None:
                yield mutate(lambda t: setattr(t.body, "where", None))
            if b.having is not None:
                yield mutate(lambda t: setattr(t.body, "having", None))
            if len(b.items) > 1 and not sub.order:
                for ii in range(len(b.items)):
                    def drop(t, ii=ii):
                        t.body.items.pop(ii)
                        t.out.pop(ii)
                    yield mutate(drop)
            if b.group is not None and b.group[0] != "plain":
                yield mutate(lambda t: setattr(t.body, "group", ("plain", t.body.group[1])))
            # drop the last join
            f = b.frm
            if f is not None and f.k == "join":
                yield mutate(lambda t: setattr(t.body, "frm", t.body.frm.left))
                if f.right.k != "lateral":
                    yield mutate(lambda t: setattr(t.body, "frm", t.body.frm.right))
                if f.kind in ("left", "right", "semi"):
                    yield mutate(lambda t: setattr(t.body.frm, "kind", "inner"))
        else:
            yield mutate(lambda t: (setattr(t, "body", t.body[2].body), setattr(t, "out", t.body[2].out if False else t.out)))
    # expression simplifications
    exprs = all_exprs(q)
    for e in exprs:
        for ch in expr_children_same_type(e):
            yield replace_in(q, e, copy.deepcopy(ch))
        if e.k not in ("lit", "col", "agg", "grouping", "aliasref") and e.t in ("int", "bigint", "text", "bool", "double"):
            lit = {"int": 1, "bigint": 1, "text": "a", "bool": True, "double": 0.5}[e.t]
            yield replace_in(q, e, E("lit", lit, t=e.t))
            if e.t == "bool":
                yield replace_in(q, e, E("lit", False, t="bool"))


def reduce(db, q, exec_cfg, batch_size, want_kind):
    cur_db, cur_q = db, q
    progress = True
    rounds = 0
    while progress and rounds < 40:
        progress = False
        rounds += 1
        for cand in candidates(cur_q):
            if cand is None:
                continue
            try:
                sql = qsql(cand)
            except Exception:
                continue
            if len(sql) >= len(qsql(cur_q)):
                continue
            c = classify(cur_db, cand, exec_cfg, batch_size)
            if c and c[0] == want_kind:
                cur_q = cand
                progress = True
                print(f"  [{len(sql)}] {sql[:200]}", flush=True)
                break
        if progress:
            continue
        # shrink data
        for name in list(cur_db):
            cols, rows = cur_db[name]
            n = len(rows)
            step = max(1, n // 2)
            while step >= 1 and n > 0:
                i = 0
                changed = False
                while i < len(rows):
                    trial = rows[:i] + rows[i + step:]
                    db2 = dict(cur_db)
                    db2[name] = (cols, trial)
                    c = classify(db2, cur_q, exec_cfg, batch_size)
                    if c and c[0] == want_kind:
                        rows = trial
                        cur_db = db2
                        changed = True
                        progress = True
                    else:
                        i += step
                if step == 1:
                    break
                step = max(1, step // 2)
            # unused tables
    return cur_db, cur_q


def main():
    path = sys.argv[1]
    body = json.load(open(path))
    prop = body["property"]
    seed, tier = body["seed"], body["tier"]
    sql = body["replay"]["sql"]
    case = body["replay"]["cases"][0]
    import importlib
    mod = importlib.import_module(f"vf.props.{prop.lower()}")
    chk = core.Check.__new__(core.Check)
    chk.prop, chk.tier, chk.seed = prop, tier, seed
    chk.rng = random.Random(f"{prop}/{seed}")
    chk.counters = {}
    chk.count = lambda *a, **k: None
    work = mod.workload(chk)
    found = None
    for (c, db, qs, nload) in work:
        for (q, s, tags) in qs:
            if s == sql:
                found = (c, db, q)
                break
        if found:
            break
    if not found:
        print("query not found in regenerated workload")
        return 1
    c, db, q = found
    bs = None
    for st in case["steps"]:
        if st["sql"].startswith("SET batch_size"):
            bs = int(st["sql"].split()[-1])
    kind = classify(db, q, case["exec"], bs)
    print("initial:", kind[0] if kind else None)
    if not kind:
        return 1
    db2, q2 = reduce(db, q, case["exec"], bs, kind[0])
    print("=== reduced ===")
    for s in sqlgen.load_steps(db2):
        print(s + ";")
    if bs:
        print(f"SET batch_size TO {bs};")
    print(qsql(q2) + ";")
    print("exec:", case["exec"])
    print(classify(db2, q2, case["exec"], bs)[1][:1500])
    return 0


if __name__ == "__main__":
    sys.exit(main())
