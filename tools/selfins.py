"""ad-hoc: self-insert under different schedules"""
import json, sys
sys.path.insert(0, "/verif")
from vf import run
N = int(sys.argv[1]) if len(sys.argv) > 1 else 11
cases = []
def mk(id, ex):
    cases.append({"id": id, "exec": ex, "steps": [
        {"sql": "CREATE TEMP TABLE t (a INT, b TEXT)"},
        {"sql": f"INSERT INTO t SELECT a, 'x' FROM generate_series(1, {N}) g(a)"},
        {"sql": "INSERT INTO t SELECT a + 1000, b FROM t"},
        {"sql": "SELECT count(*), count(DISTINCT a) FROM t"}]})
for pol in ["fifo", "lifo", "random"]:
    for p in [1, 2, 4, 8]:
        for seed in ([1, 2, 3] if pol == "random" else [0]):
            mk(f"{pol}/{p}/{seed}", {"kind": "det", "policy": pol, "partitions": p, "seed": seed, "step_budget": 3000000})
mk("native4", {"kind": "native", "threads": 4, "timeout_s": 60})
res, _ = run.run_cases(cases)
for cid, r in res.items():
    if "died" in r:
        print(cid, "DIED", json.dumps(r["died"])[:300]); continue
    print(cid, [ (s.get("rows") if s.get("outcome")=="rows" else s.get("outcome")+":"+str(s.get("error",""))[:80]) for s in r["steps"][2:]])
