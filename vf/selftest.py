"""Self-tests of the framework run by `./check setup` (fast)."""
import json
from vf import run

def main():
    cases = [{"id": "st", "steps": [{"sql": "select 1 + 1 as x"}]}]
    res, _ = run.run_cases(cases)
    st = res["st"]["steps"][0]
    ok = st["outcome"] == "rows" and st["rows"] == [[2]]
    print("selftest vdrive:", "ok" if ok else f"FAILED {st}")
    ok2 = report_parser()
    print("selftest report parser:", "ok" if ok2 else "FAILED")
    return 0 if (ok and ok2) else 1


SAMPLE_REPORTS = '''==================
WARNING: ThreadSanitizer: data race (pid=1234)
  Write of size 8 at 0x7b0400000000 by thread T1:
    #0 glaredb_core::execution::operators::hash_join::hash_table::HashTable::insert_occupied::h0123456789abcdef /repo/crates/glaredb_core/src/execution/operators/hash_join/hash_table/mod.rs:310 (vdrive+0x123)
    #1 std::thread::spawn /rustc/abc/library/std/src/thread/mod.rs:1 (vdrive+0x1)

  Previous read of size 8 at 0x7b0400000000 by thread T2:
    #0 glaredb_core::foo /repo/crates/glaredb_core/src/foo.rs:10 (vdrive+0x99)

SUMMARY: ThreadSanitizer: data race /repo/crates/glaredb_core/src/x.rs:310 in insert_occupied
==================
==77== Conditional jump or move depends on uninitialised value(s)
==77==    at 0x4C2A: glaredb_core::arrays::string::StringView::as_str (string.rs:55)
==77==    by 0x4C2B: vdrive::run_case (main.rs:500)
==77==
==9==ERROR: AddressSanitizer: heap-buffer-overflow on address 0x60 at pc 0x55 bp 0x7 sp 0x7
WRITE of size 49 at 0x60 thread T0
    #0 0x5581 in __asan_memcpy (/verif/target/asan/vdrive+0x1)
    #1 0x5582 in glaredb_core::arrays::row::row_layout::write_binary::h0123456789abcdef /repo/crates/glaredb_core/src/arrays/row/row_layout.rs:400:9
SUMMARY: AddressSanitizer: heap-buffer-overflow (/verif/..) in __asan_memcpy
error: Undefined Behavior: attempting a read access using <1234> at alloc99[0x8], but that tag does not exist in the borrow stack
   --> /repo/crates/glaredb_core/src/util/cell.rs:44:9
    = note: inside `glaredb_core::util::cell::UnsafeSyncCell::<T>::get` at /repo/crates/glaredb_core/src/util/cell.rs:44:9
note: some details are omitted
'''


def report_parser():
    """the stderr report parser of vf/run.py must recognise the four tools' formats and extract in-repo frames (C16 depends on it)"""
    reps = {r["tool"]: r for r in run.sanitizer_reports(SAMPLE_REPORTS, "x")}
    return (set(reps) == {"tsan", "memcheck", "asan", "miri"}
            and reps["tsan"]["kind"] == "data race" and "insert_occupied" in reps["tsan"]["frames"][0]
            and reps["asan"]["kind"] == "heap-buffer-overflow" and "write_binary" in reps["asan"]["frames"][0]
            and "StringView::as_str" in reps["memcheck"]["frames"][0]
            and any("cell.rs" in f for f in reps["miri"]["frames"]))
