"""Self-tests of the framework run by `./check setup` (fast)."""
import json
from vf import run

def main():
    cases = [{"id": "st", "steps": [{"sql": "select 1 + 1 as x"}]}]
    res, _ = run.run_cases(cases)
    st = res["st"]["steps"][0]
    ok = st["outcome"] == "rows" and st["rows"] == [[2]]
    print("selftest vdrive:", "ok" if ok else f"FAILED {st}")
    return 0 if ok else 1
