"""Reference semantics for casts (property C13): exact rational arithmetic only.

Canonical Python values per type kind
  int      -> int
  float    -> int bit pattern of the format (any NaN is canonicalised to the string "nan")
  decimal  -> unscaled int (the type carries precision/scale)
  bool     -> bool, text -> str, date -> days since 1970-01-01 (int),
  interval -> (months, days, nanos), binary -> bytes, ts -> (unit, value)

`cands(S, T, v)` gives, for a numeric conversion, the outcome of every candidate rounding rule
(value or ERR); `hard(S, T, v, obs)` checks the rule-independent constraints (range, precision,
neighbouring value, exact when representable).
"""
from fractions import Fraction
import re, datetime

ERR = "ERR"
NAN = "nan"

# ---------------------------------------------------------------- float formats
FMT = {"f16": (11, 15, 16), "f32": (24, 127, 32), "f64": (53, 1023, 64)}   # precision bits, emax, total bits


def f_fields(fmt):
    p, emax, bits = FMT[fmt]
    return p, emax, 1 - emax, bits


def f_inf(fmt, neg=False):
    p, emax, emin, bits = f_fields(fmt)
    v = ((1 << (bits - p)) - 1) << (p - 1)
    return v | (1 << (bits - 1)) if neg else v


def f_max(fmt):
    return f_inf(fmt) - 1


def f_decode(b, fmt):
    """bits -> Fraction, or 'nan', 'inf', '-inf'."""
    if b == NAN:
        return NAN
    p, emax, emin, bits = f_fields(fmt)
    sign = b >> (bits - 1)
    e = (b >> (p - 1)) & ((1 << (bits - p)) - 1)
    m = b & ((1 << (p - 1)) - 1)
    if e == (1 << (bits - p)) - 1:
        if m:
            return NAN
        return "-inf" if sign else "inf"
    if e == 0:
        fr = Fraction(m) * Fraction(2) ** (emin - (p - 1))
    else:
        fr = Fraction(m | (1 << (p - 1))) * Fraction(2) ** (e - emax - (p - 1))
    return -fr if sign else fr


def f_is_neg(b, fmt):
    return b != NAN and bool(b >> (FMT[fmt][2] - 1))


def f_canon(b, fmt):
    return NAN if f_decode(b, fmt) == NAN else b


def _ilog2(a):
    """floor(log2(a)) for a positive Fraction."""
    e = a.numerator.bit_length() - a.denominator.bit_length()
    if Fraction(2) ** e > a:
        e -= 1
    elif Fraction(2) ** (e + 1) <= a:
        e += 1
    return e


def _round_int(q, mode):
    """Round Fraction q to an integer. modes: even, away, trunc, floor, ceil."""
    fl = q.numerator // q.denominator
    if q == fl:
        return fl
    if mode == "floor":
        return fl
    if mode == "ceil":
        return fl + 1
    if mode == "trunc":
        return fl if q > 0 else fl + 1
    r = q - fl
    if r > Fraction(1, 2):
        return fl + 1
    if r < Fraction(1, 2):
        return fl
    if mode == "even":
        return fl if fl % 2 == 0 else fl + 1
    if mode == "away":
        return fl + 1 if q > 0 else fl
    raise ValueError(mode)


def f_round(x, fmt, mode="even"):
    """Fraction / special -> bit pattern of the nearest value of the format (ties to even; overflow -> inf).
    mode 'floor'/'ceil' give the neighbour below/above instead."""
    p, emax, emin, bits = f_fields(fmt)
    if x == NAN:
        return NAN
    if x == "inf":
        return f_inf(fmt)
    if x == "-inf":
        return f_inf(fmt, True)
    x = Fraction(x)
    if x == 0:
        return 0
    neg = x < 0
    a = -x if neg else x
    e = max(_ilog2(a), emin)
    q = Fraction(2) ** (e - (p - 1))
    md = mode
    if neg and mode in ("floor", "ceil"):
        md = "ceil" if mode == "floor" else "floor"
    m = _round_int(a / q, md)
    if m >= (1 << p):
        m >>= 1
        e += 1
    if e > emax:
        if md in ("floor", "trunc"):
            out = f_max(fmt)
        else:
            out = f_inf(fmt)
    elif m >= (1 << (p - 1)):
        out = ((e + emax) << (p - 1)) | (m - (1 << (p - 1)))
    else:
        out = m
    return out | (1 << (bits - 1)) if neg else out


def f_from_pyfloat(x, fmt="f64"):
    import struct
    if x != x:
        return NAN
    if fmt == "f64":
        return struct.unpack("<Q", struct.pack("<d", x))[0]
    raise ValueError


def f_text(b, fmt):
    """A decimal spelling that Rust's parser maps back to exactly these bits (exact expansion)."""
    v = f_decode(b, fmt)
    if v == NAN:
        return "NaN"
    if v in ("inf", "-inf"):
        return v
    neg = f_is_neg(b, fmt)
    a = -v if neg else v
    # exact decimal expansion: denominator is a power of two
    k = a.denominator.bit_length() - 1
    num = a.numerator * 5 ** k
    s = str(num).rjust(k + 1, "0")
    txt = s[:len(s) - k] + ("." + s[len(s) - k:] if k else "")
    if len(txt) > 60:
        # shorter spelling with enough digits to identify the value (17 sig. digits identify an f64)
        import decimal
        d = decimal.Context(prec=25).divide(decimal.Decimal(a.numerator), decimal.Decimal(a.denominator))
        t2 = format(d, "e")
        if f_round(Fraction(t2), fmt) == (b & ~(1 << (FMT[fmt][2] - 1))):
            txt = t2
    return ("-" if neg else "") + txt


# ---------------------------------------------------------------- types
class Ty:
    def __init__(self, key, sql, kind, engine, **kw):
        self.key, self.sql, self.kind, self.engine = key, sql, kind, engine
        self.__dict__.update(kw)

    def __repr__(self):
        return self.key


def _int(key, sql, bits, signed, engine):
    lo, hi = (-(1 << (bits - 1)), (1 << (bits - 1)) - 1) if signed else (0, (1 << bits) - 1)
    return Ty(key, sql, "int", engine, lo=lo, hi=hi, bits=bits, signed=signed)


def dec(p, s):
    return Ty(f"dec{p}_{s}", f"decimal({p},{s})", "decimal", f"Decimal{64 if p <= 18 else 128}({p},{s})", p=p, s=s)


INTS = [_int("tinyint", "tinyint", 8, True, "Int8"), _int("smallint", "smallint", 16, True, "Int16"),
        _int("int", "int", 32, True, "Int32"), _int("bigint", "bigint", 64, True, "Int64"),
        _int("utinyint", "utinyint", 8, False, "UInt8"), _int("usmallint", "usmallint", 16, False, "UInt16"),
        _int("uint", "uint", 32, False, "UInt32"), _int("ubigint", "ubigint", 64, False, "UInt64")]
FLOATS = [Ty("half", "half", "float", "Float16", fmt="f16"), Ty("real", "real", "float", "Float32", fmt="f32"),
          Ty("double", "double", "float", "Float64", fmt="f64")]
DEC_PS = [(4, 2), (9, 0), (18, 4), (18, 18), (38, 0), (38, 10), (38, 38)]
DECS = [dec(p, s) for p, s in DEC_PS]
DATE_AS_INT = Ty("date", "date", "int", "Date32", lo=-2 ** 31, hi=2 ** 31 - 1, bits=32, signed=True, json="date", convkind="date")
BOOL = Ty("boolean", "boolean", "bool", "Boolean")
TEXT = Ty("text", "text", "text", "Utf8")
DATE = Ty("date", "date", "date", "Date32")
TS = Ty("timestamp", "timestamp", "ts", "Timestamp(μs)")
INTERVAL = Ty("interval", "interval", "interval", "Interval")
BINARY = Ty("binary", "binary", "binary", "Binary")
ALL = INTS + FLOATS + DECS + [BOOL, TEXT, DATE, TS, INTERVAL, BINARY]
BY_KEY = {t.key: t for t in ALL}
NUMERIC = ("int", "float", "decimal")


def conv_name(S, T):
    """Conversion name used in violation signatures: float types by name, other types by kind."""
    def k(t):
        return t.key if t.kind == "float" else getattr(t, "convkind", t.kind)
    return f"{k(S)}->{k(T)}"


def rule_kind(S, T):
    """Conversion kind for rule inference: one rule per (source kind, target kind); HALF text parsing apart."""
    if S.kind == "text" and T.kind == "float":
        return "text->" + ("half" if T.fmt == "f16" else "float")
    return f"{S.kind}->{T.kind}"


# ---------------------------------------------------------------- engine JSON <-> canonical
def big(v):
    return int(v["big"]) if isinstance(v, dict) and "big" in v else v


def from_json(T, j):
    """typed JSON value of the driver -> canonical value; raises ValueError when the JSON does not have T's shape."""
    if j is None:
        return None
    k = T.kind
    if k == "int":
        if getattr(T, "json", None) == "date":
            if not (isinstance(j, dict) and "date" in j):
                raise ValueError(f"not a date: {j}")
            return j["date"]
        v = big(j)
        if isinstance(v, bool) or not isinstance(v, int):
            raise ValueError(f"not an integer: {j}")
        return v
    if k == "float":
        if not (isinstance(j, dict) and T.fmt in j):
            raise ValueError(f"not a {T.fmt}: {j}")
        return f_canon(j[T.fmt], T.fmt)
    if k == "decimal":
        if not (isinstance(j, dict) and "d" in j):
            raise ValueError(f"not a decimal: {j}")
        u, p, s = j["d"]
        if (p, s) != (T.p, T.s):
            raise ValueError(f"decimal({p},{s}) instead of decimal({T.p},{T.s})")
        return big(u)
    if k == "bool":
        if not isinstance(j, bool):
            raise ValueError(f"not a bool: {j}")
        return j
    if k == "text":
        if not isinstance(j, str):
            raise ValueError(f"not text: {j}")
        return j
    if k == "date":
        return j["date"]
    if k == "interval":
        return tuple(big(x) for x in j["iv"])
    if k == "binary":
        return bytes.fromhex(j["b"])
    if k == "ts":
        return (j["ts"][0], big(j["ts"][1]))
    raise ValueError(k)


def dec_text(u, s):
    sign = "-" if u < 0 else ""
    d = str(abs(u)).rjust(s + 1, "0")
    return sign + (d[:len(d) - s] + "." + d[len(d) - s:] if s > 0 else d)


def date_text(days):
    d = datetime.date(1970, 1, 1) + datetime.timedelta(days=days)
    return f"{d.year:04d}-{d.month:02d}-{d.day:02d}"


def interval_text(iv):
    m, d, ns = iv
    parts = []
    if m:
        parts.append(f"{m} months")
    if d:
        parts.append(f"{d} days")
    if ns:
        sec = abs(ns) // 10 ** 9
        rem = abs(ns) % 10 ** 9
        sg = "-" if ns < 0 else ""
        if sec:
            parts.append(f"{sg}{sec} seconds")
        if rem:
            parts.append(f"{sg}{rem} nanoseconds")
    return " ".join(parts) if parts else "0 days"


def src_text(T, v):
    """Text whose cast to T is expected to load exactly v (quote- and backslash-free)."""
    k = T.kind
    if k == "int":
        return str(v)
    if k == "float":
        return "NaN" if v == NAN else f_text(v, T.fmt)
    if k == "decimal":
        return dec_text(v, T.s)
    if k == "date":
        return date_text(v)
    if k == "interval":
        return interval_text(v)
    if k == "binary":
        return v.decode("utf-8")
    if k == "text":
        return v
    raise ValueError(k)


def lit(T, v):
    """SQL expression of type T with value v."""
    if T.kind == "bool":
        return "true" if v else "false"
    if T.kind == "text":
        return "'" + v + "'"
    return f"'{src_text(T, v)}'::{T.sql}"


def exact(T, v):
    """Exact numeric value: Fraction, or 'nan' / 'inf' / '-inf'."""
    if T.kind == "int":
        return Fraction(v)
    if T.kind == "decimal":
        return Fraction(v, 10 ** T.s)
    if T.kind == "float":
        return f_decode(v, T.fmt)
    raise ValueError(T.kind)


# ---------------------------------------------------------------- numeric -> numeric
INT_RULES = ("trunc", "away", "even", "floor", "ceil")


def _to_int(T, x, mode):
    if x in (NAN, "inf", "-inf"):
        return ERR
    r = _round_int(x, mode)
    return r if T.lo <= r <= T.hi else ERR


def _to_dec(T, x, mode):
    if x in (NAN, "inf", "-inf"):
        return ERR
    u = _round_int(x * 10 ** T.s, mode)
    return u if abs(u) < 10 ** T.p else ERR


def _fmul_round_dec(S, T, v):
    """The obvious float algorithm: round_half_away(v * 10^s computed in the source float format)."""
    x = f_decode(v, S.fmt)
    if x in (NAN, "inf", "-inf"):
        return ERR
    ms = f_round(Fraction(10 ** T.s), S.fmt)
    prod = f_round(x * f_decode(ms, S.fmt), S.fmt) if f_decode(ms, S.fmt) not in ("inf",) else (NAN if x == 0 else ("inf" if x > 0 else "-inf"))
    if isinstance(prod, str):
        return ERR
    pv = f_decode(prod, S.fmt)
    if pv in (NAN, "inf", "-inf"):
        return ERR
    u = _round_int(pv, "away")
    # the product is converted to the decimal's integer (i64 / i128): out of range -> error
    lim = 2 ** 63 if T.p <= 18 else 2 ** 127
    if not (-lim <= u < lim):
        return ERR
    return u if abs(u) < 10 ** T.p else ERR


def _fdiv_float(S, T, v):
    """unscaled integer -> float (nearest), divided by 10^s in the target format."""
    a = f_decode(f_round(Fraction(v), T.fmt), T.fmt)
    b = f_decode(f_round(Fraction(10 ** S.s), T.fmt), T.fmt)
    if a in ("inf", "-inf"):
        return f_round(NAN if b == "inf" else a, T.fmt)
    if b == "inf":
        return 0 if v >= 0 else (1 << (FMT[T.fmt][2] - 1))
    r = f_round(a / b, T.fmt)
    if r == 0 and v < 0:
        r = 1 << (FMT[T.fmt][2] - 1)
    return r


_CANDS = {}


def cands(S, T, v):
    key = (S.key, T.key, v)
    r = _CANDS.get(key)
    if r is None:
        if len(_CANDS) > 300000:
            _CANDS.clear()
        r = _CANDS[key] = _cands(S, T, v)
    return r


def _cands(S, T, v):
    """rule name -> outcome (canonical value of T or ERR) for a numeric->numeric cast."""
    x = exact(S, v)
    if T.kind == "int":
        if S.kind == "int":
            return {"exact": v if T.lo <= v <= T.hi else ERR}
        return {m: _to_int(T, x, m) for m in INT_RULES}
    if T.kind == "decimal":
        if S.kind == "int":
            return {"exact": _to_dec(T, x, "trunc")}
        out = {m: _to_dec(T, x, m) for m in INT_RULES}
        if S.kind == "float":
            out["fmul"] = _fmul_round_dec(S, T, v)
        return out
    if T.kind == "float":
        if x == NAN:
            return {"rne": NAN}
        if S.kind == "float" and v != NAN and f_is_neg(v, S.fmt) and x == 0:
            return {"rne": 1 << (FMT[T.fmt][2] - 1)}
        out = {"rne": f_round(x, T.fmt)}
        if not isinstance(x, str) and isinstance(f_decode(out["rne"], T.fmt), str):
            out["overflow-error"] = ERR          # finite value beyond the target's range: infinity (IEEE) or an error
        if S.kind == "decimal":
            out["fdiv"] = _fdiv_float(S, T, v)
            if v < 0 and out["rne"] == 0:
                # a negative decimal that rounds to zero: either zero is fine for the rne rule
                out["rne-negzero"] = 1 << (FMT[T.fmt][2] - 1)
        return out
    raise ValueError((S, T))


def fast_expected(S, T, v):
    """Integer sources have a single admissible outcome: computed without the candidate machinery. None = no fast path."""
    import struct
    if S.kind != "int" or T.kind not in NUMERIC:
        return None
    if T.kind == "int":
        return v if T.lo <= v <= T.hi else ERR
    if T.kind == "decimal":
        u = v * 10 ** T.s
        return u if abs(u) < 10 ** T.p else ERR
    if T.fmt == "f64":
        return struct.unpack("<Q", struct.pack("<d", float(v)))[0]
    if T.fmt == "f32" and abs(v) < 2 ** 24:
        return struct.unpack("<I", struct.pack("<f", float(v)))[0]
    if T.fmt == "f16" and abs(v) < 2 ** 11:
        return struct.unpack("<H", struct.pack("<e", float(v)))[0]
    return f_round(Fraction(v), T.fmt)


PRIMARY = {("float", "int"): "trunc", ("decimal", "int"): "trunc", ("decimal", "decimal"): "away",
           ("float", "decimal"): "fmul", ("decimal", "float"): "fdiv"}


def primary(S, T, v):
    e = fast_expected(S, T, v)
    if e is not None:
        return e
    c = cands(S, T, v)
    r = PRIMARY.get((S.kind, T.kind))
    if r in c:
        return c[r]
    return c.get("exact", c.get("rne"))


def hard(S, T, v, obs):
    """Rule-independent verdict on an observed outcome (canonical value of T, or ERR).
    Returns None if acceptable, else a short violation class."""
    x = exact(S, v)
    special = x in (NAN, "inf", "-inf")
    if T.kind == "int":
        if obs == ERR:
            if special:
                return None
            # error is right iff no rounding direction gives an in-range value ... or only some do
            if all(_to_int(T, x, m) != ERR for m in ("floor", "ceil")):
                return "unexpected-error"
            return None
        if special:
            return "special-to-int-value"
        if not (T.lo <= obs <= T.hi):
            return "out-of-range-value"
        if obs not in (_round_int(x, "floor"), _round_int(x, "ceil")):
            return "not-a-neighbour"
        return None
    if T.kind == "decimal":
        if obs == ERR:
            if special:
                return None
            if all(_to_dec(T, x, m) != ERR for m in ("floor", "ceil")):
                return "unexpected-error"
            return None
        if special:
            return "special-to-decimal-value"
        if abs(obs) >= 10 ** T.p:
            return "precision-overflow"
        sx = x * 10 ** T.s
        if obs not in (_round_int(sx, "floor"), _round_int(sx, "ceil")):
            return "not-a-neighbour" if sx.denominator != 1 else "representable-value-changed"
        return None
    if T.kind == "float":
        if obs == ERR:
            if not isinstance(x, str) and isinstance(f_decode(f_round(x, T.fmt), T.fmt), str):
                return None
            return "unexpected-error"
        if x == NAN:
            return None if obs == NAN else "nan-lost"
        if obs == NAN:
            return "nan-from-number"
        if x in ("inf", "-inf"):
            return None if f_decode(obs, T.fmt) == x else "inf-lost"
        lo, hi = f_round(x, T.fmt, "floor"), f_round(x, T.fmt, "ceil")
        if lo == hi or x == 0:
            # exactly representable
            ov = f_decode(obs, T.fmt)
            if ov != x:
                return "representable-value-changed"
            if S.kind == "float" and f_is_neg(obs, T.fmt) != f_is_neg(v, S.fmt):
                return "zero-sign-changed"
            return None
        ok = {lo, hi}
        if lo == 0:
            ok.add(1 << (FMT[T.fmt][2] - 1))
        if hi == (1 << (FMT[T.fmt][2] - 1)):
            ok.add(0)
        if obs not in ok:
            return "not-a-neighbour"
        return None
    raise ValueError((S, T))


# ---------------------------------------------------------------- text -> T
_INT_RE = re.compile(r"^[+-]?[0-9]+$")
_FLOAT_RE = re.compile(r"^[+-]?(?:(?:[0-9]+\.?[0-9]*|\.[0-9]+)(?:[eE][+-]?[0-9]+)?)$")
_INFNAN_RE = re.compile(r"^[+-]?(?:inf|infinity|nan)$", re.I)
_DEC_RE = re.compile(r"^[+-]?(?:[0-9]+\.?[0-9]*|\.[0-9]+)$")
_DATE_RE = re.compile(r"^([0-9]{4})-([0-9]{2})-([0-9]{2})$")


def _float_value(s):
    """Exact value of a float spelling accepted by _FLOAT_RE."""
    m = re.match(r"^([+-]?)([0-9]*)\.?([0-9]*)(?:[eE]([+-]?[0-9]+))?$", s)
    sign, ip, fp, ex = m.groups()
    e = int(ex) if ex else 0
    digits = (ip + fp) or "0"
    e10 = e - len(fp)
    n = int(digits)
    if n == 0:
        return Fraction(0), sign == "-"
    if e10 > 6000:
        return ("-inf" if sign == "-" else "inf"), sign == "-"
    if e10 < -6000:
        return Fraction(0), sign == "-"
    fr = Fraction(n) * Fraction(10) ** e10
    return (-fr if sign == "-" else fr), sign == "-"


def text_expect(T, s):
    """Expectation for CAST(s AS T).

    ("val", {rule: value}) : must be accepted; value per candidate rule
    ("err",)               : must be rejected
    ("free", pred)         : implementation-defined whether accepted; if accepted the canonical value must satisfy pred
    """
    k = T.kind
    if k == "int":
        if _INT_RE.match(s):
            v = int(s)
            if s.startswith("-") and not T.signed:
                # Rust rejects any '-' for unsigned types; '-0' is harmless either way
                return ("free", lambda r: r == 0) if v == 0 else ("err",)
            return ("val", {"exact": v}) if T.lo <= v <= T.hi else ("err",)
        return ("err",)
    if k == "float":
        signbit = 1 << (FMT[T.fmt][2] - 1)
        if _INFNAN_RE.match(s):
            low = s.lower().lstrip("+-")
            if low == "nan":
                return ("val", {"rne": NAN})
            return ("val", {"rne": f_inf(T.fmt, s.startswith("-"))})
        if _FLOAT_RE.match(s):
            x, neg = _float_value(s)
            if x == 0:
                return ("val", {"rne": signbit if neg else 0})
            out = {"rne": f_round(x, T.fmt)}
            if out["rne"] == 0 and neg:
                out["rne"] = signbit
            if not isinstance(x, str) and isinstance(f_decode(out["rne"], T.fmt), str):
                ok = {out["rne"]}
                return ("free", lambda r: r in ok)
            if T.fmt == "f16":
                v32 = f_round(x, "f32")
                out["via-f32"] = f_round(f_decode(v32, "f32"), "f16")
                if out["via-f32"] == 0 and neg:
                    out["via-f32"] = signbit
            return ("val", out)
        if s.strip(" \t\n") != s and (_FLOAT_RE.match(s.strip(" \t\n")) or _INFNAN_RE.match(s.strip(" \t\n"))):
            inner = text_expect(T, s.strip(" \t\n"))
            return ("free", lambda r: r in inner[1].values())
        return ("err",)
    if k == "decimal":
        if _DEC_RE.match(s):
            x = Fraction(s.rstrip(".") if not s.endswith(".") else s[:-1]) if s not in ("+.", "-.", ".") else None
            if x is None:
                return ("err",)
            out = {m: _to_dec(T, x, m) for m in ("away", "even", "trunc")}
            if all(v == ERR for v in out.values()):
                return ("err",)
            if not re.match(r"^[+-]?[0-9]+(\.[0-9]+)?$", s):
                ok = {v for v in out.values() if v != ERR}
                return ("free", lambda r: r in ok)
            if any(v == ERR for v in out.values()):
                ok = {v for v in out.values() if v != ERR}
                return ("free", lambda r: r in ok)
            return ("val", out)
        if _FLOAT_RE.match(s):
            # exponent notation: implementation-defined; if accepted the value must be a correctly rounded one
            x, _ = _float_value(s)
            if isinstance(x, str):
                return ("err",)
            ok = {_to_dec(T, x, m) for m in ("away", "even", "trunc")} - {ERR}
            return ("free", lambda r: r in ok)
        st = s.strip(" \t\n")
        if st != s and _DEC_RE.match(st) and st not in ("+.", "-.", "."):
            x = Fraction(st[:-1] if st.endswith(".") else st)
            ok = {_to_dec(T, x, m) for m in ("away", "even", "trunc")} - {ERR}
            return ("free", lambda r: r in ok)
        return ("err",)
    if k == "bool":
        low = s.lower()
        if s in ("true", "false", "TRUE", "FALSE"):
            return ("val", {"exact": low == "true"})
        if low in ("t", "true", "yes", "y", "1", "on"):
            return ("free", lambda r: r is True)
        if low in ("f", "false", "no", "n", "0", "off"):
            return ("free", lambda r: r is False)
        st = s.strip(" \t\n").lower()
        if st in ("t", "true", "yes", "y", "1", "on"):
            return ("free", lambda r: r is True)
        if st in ("f", "false", "no", "n", "0", "off"):
            return ("free", lambda r: r is False)
        return ("err",)
    if k == "date":
        m = _DATE_RE.match(s)
        if m:
            y, mo, d = (int(g) for g in m.groups())
            try:
                days = (datetime.date(y, mo, d) - datetime.date(1970, 1, 1)).days
            except ValueError:
                if y == 0:
                    # year 0000 (1 BC, proleptic): valid in ISO 8601, outside Python's range
                    try:
                        days = (datetime.date(4, mo, d) - datetime.date(1970, 1, 1)).days - 1461
                    except ValueError:
                        return ("err",)
                    return ("free", lambda r: r == days)
                return ("err",)
            return ("val", {"exact": days})
        return ("free", lambda r, s=s: date_loose_ok(s, r))
    if k == "binary":
        return ("val", {"exact": s.encode("utf-8")})
    if k == "interval":
        iv = interval_simple(s)
        if iv == "overflow":
            return ("err",)
        if iv is not None:
            return ("val", {"exact": iv})
        return ("free", lambda r: True)
    raise ValueError(k)


def date_loose_ok(s, days):
    """A non-canonical date spelling was accepted: the result must still be the calendar date spelled by the
    three numbers in the text (y-m-d order), and that date must exist."""
    m = re.match(r"^\s*([+-]?)([0-9]+)\s*-\s*([0-9]+)\s*-\s*([0-9]+)\s*$", s)
    if not m:
        return False
    sg, y, mo, d = m.groups()
    y, mo, d = int(y), int(mo), int(d)
    if sg == "-":
        y = -y
    return days_from_civil(y, mo, d) == days


def days_from_civil(y, m, d):
    """Proleptic Gregorian (astronomical year numbering) -> days since 1970-01-01; None if the date does not exist."""
    if not (1 <= m <= 12):
        return None
    leap = (y % 4 == 0 and y % 100 != 0) or y % 400 == 0
    dim = [31, 29 if leap else 28, 31, 30, 31, 30, 31, 31, 30, 31, 30, 31][m - 1]
    if not (1 <= d <= dim):
        return None
    y2 = y - (1 if m <= 2 else 0)
    era = y2 // 400
    yoe = y2 - era * 400
    doy = (153 * (m + (-3 if m > 2 else 9)) + 2) // 5 + d - 1
    doe = yoe * 365 + yoe // 4 - yoe // 100 + doy
    return era * 146097 + doe - 719468


_UNITS = {"year": ("m", 12), "month": ("m", 1), "week": ("d", 7), "day": ("d", 1), "hour": ("n", 3600 * 10 ** 9),
          "minute": ("n", 60 * 10 ** 9), "second": ("n", 10 ** 9), "millisecond": ("n", 10 ** 6),
          "microsecond": ("n", 10 ** 3)}


def interval_simple(s):
    """'<int> <unit>[s]' sequences with small integer quantities and full unit names: unambiguous meaning."""
    f = s.split(" ")
    if not f or len(f) % 2 or "" in f:
        return None
    m = d = n = 0
    seen = set()
    for q, u in zip(f[::2], f[1::2]):
        if not re.match(r"^-?[0-9]{1,18}$", q):
            return None
        base = u[:-1] if u.endswith("s") else u
        if base not in _UNITS or base in seen:
            return None
        seen.add(base)
        which, mult = _UNITS[base]
        if which == "m":
            m += int(q) * mult
        elif which == "d":
            d += int(q) * mult
        else:
            n += int(q) * mult
    if not (-2 ** 31 <= m < 2 ** 31 and -2 ** 31 <= d < 2 ** 31 and -2 ** 63 <= n < 2 ** 63):
        return "overflow"
    return (m, d, n)
