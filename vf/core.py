"""Shared check plumbing: verdicts, known findings, evidence, replay files."""
import json, os, sys, time, hashlib, random, re

VERIF = os.path.dirname(os.path.dirname(os.path.abspath(__file__)))
EVID = os.path.join(VERIF, "evidence")
REPLAYS = os.path.join(VERIF, "replays")
FINDINGS = os.path.join(VERIF, "known_findings.jsonl")


def load_findings():
    out = []
    if os.path.exists(FINDINGS):
        with open(FINDINGS) as f:
            for line in f:
                line = line.strip()
                if line and not line.startswith("#"):
                    out.append(json.loads(line))
    return out


def strip_numbers(s):
    return re.sub(r"\d+", "N", s or "")


def canon(o):
    return json.dumps(o, sort_keys=True, separators=(",", ":"), default=str)


class Check:
    """One run of one property's check."""

    def __init__(self, prop, tier, seed, level="exploration"):
        self.prop = prop
        self.tier = tier
        self.seed = seed
        self.level = level
        self.rng = random.Random(f"{prop}/{seed}")
        self.t0 = time.time()
        self.evaluations = 0
        self.distinct = set()
        self.samples = []
        self.violations = []       # (signature, replay_path, text)
        self.known_hits = {}       # finding id -> count
        self.inconclusive = {}     # reason -> count
        self.extra = {}
        self.counters = {}
        self.findings = [f for f in load_findings() if f.get("property") == prop or prop in f.get("also", [])]
        self.rule = ""
        self.assumptions = []
        self.floor_msgs = []
        self.exhaustive = None
        # replays of earlier runs of this property are stale
        if os.path.isdir(REPLAYS):
            for fn in os.listdir(REPLAYS):
                if fn.startswith(prop + "-"):
                    try:
                        os.remove(os.path.join(REPLAYS, fn))
                    except OSError:
                        pass

    # ---- accounting -------------------------------------------------------
    def count(self, key, n=1):
        self.counters[key] = self.counters.get(key, 0) + n

    def evaluated(self, n=1):
        self.evaluations += n

    def nontrivial(self, key):
        """Register one distinct non-trivial case by its distinguishing key."""
        self.distinct.add(hashlib.sha1(canon(key).encode()).hexdigest()[:16])

    def sample(self, obj, cap=8):
        if len(self.samples) < cap:
            self.samples.append(obj)

    def inconc(self, reason, n=1):
        self.inconclusive[reason] = self.inconclusive.get(reason, 0) + n

    # ---- verdicts ---------------------------------------------------------
    def match_known(self, signature):
        for f in self.findings:
            if f.get("status") != "open":
                continue
            if f.get("signature") == signature:
                return f
        return None

    def violation(self, signature, text, replay=None):
        """Report a violation with a machine-checkable signature.

        If an *open* known finding has exactly this signature it is counted as
        KNOWN-FINDING; otherwise a replay file is written and the run fails.
        """
        if isinstance(signature, dict) and signature.get("kind") == "outcome" and signature.get("class") == "watchdog":
            # the supervisor's generous wall-clock watchdog killed the driver (machine load, or a legitimately long statement
            # such as a large cross join at batch size 2): never a verdict. Bounded-time properties are decided on logical
            # steps (deadlock / divergence) and CPU-time limits, which have their own classes.
            self.inconc("wall-clock watchdog fired on a driver process (not a verdict)")
            return False
        f = self.match_known(signature)
        if f is not None:
            self.known_hits[f["id"]] = self.known_hits.get(f["id"], 0) + 1
            return False
        # de-duplicate identical signatures in one run (keep first replay)
        key = canon(signature)
        for (s, _, _) in self.violations:
            if canon(s) == key:
                self.count("duplicate_violations")
                return True
        os.makedirs(REPLAYS, exist_ok=True)
        body = {"property": self.prop, "tier": self.tier, "seed": self.seed,
                "signature": signature, "text": text, "replay": replay}
        h = hashlib.sha1(canon(body).encode()).hexdigest()[:12]
        path = os.path.join(REPLAYS, f"{self.prop}-{h}.json")
        with open(path, "w") as fp:
            json.dump(body, fp, indent=1, default=str)
        self.violations.append((signature, path, text))
        return True

    def floor(self, ok, msg):
        """Coverage floor: if missed, the run is inconclusive (never a violation)."""
        if not ok:
            self.floor_msgs.append(msg)

    # ---- finish -----------------------------------------------------------
    def finish(self):
        wall = time.time() - self.t0
        cov = {
            "evaluations": int(self.evaluations),
            "distinct_nontrivial": len(self.distinct),
            "rule": self.rule,
            "samples": self.samples if self.samples else [],
            "counters": self.counters,
            "known_findings_met": self.known_hits,
            "inconclusive": self.inconclusive,
            "coverage_floor_missed": self.floor_msgs,
        }
        if self.exhaustive is not None:
            cov["exhaustive"] = bool(self.exhaustive)
        cov.update(self.extra)
        ev = {
            "property_id": self.prop,
            "tier": self.tier,
            "seed": int(self.seed),
            "level": self.level,
            "coverage": cov,
            "assumptions": self.assumptions,
            "wall_s": round(wall, 2),
            "violations": len(self.violations),
        }
        os.makedirs(EVID, exist_ok=True)
        with open(os.path.join(EVID, f"{self.prop}.json"), "w") as f:
            json.dump(ev, f, indent=1, default=str)
        by_id = {f["id"]: f for f in self.findings}
        for fid, n in sorted(self.known_hits.items()):
            print(f"KNOWN-FINDING: property={by_id[fid]['property']} {fid}: {by_id[fid]['what']} (met {n}x)")
        for reason, n in sorted(self.inconclusive.items()):
            print(f"INCONCLUSIVE property={self.prop} {reason} ({n}x)")
        for m in self.floor_msgs:
            print(f"INCONCLUSIVE property={self.prop} coverage floor missed: {m}")
        for (sig, path, text) in self.violations:
            print(f"VIOLATION property={self.prop} replay={path}")
            print("  " + text.replace("\n", "\n  ")[:1500])
        print(f"[{self.prop}] tier={self.tier} seed={self.seed} evaluations={self.evaluations} "
              f"distinct_nontrivial={len(self.distinct)} violations={len(self.violations)} "
              f"known={sum(self.known_hits.values())} wall={wall:.1f}s")
        sys.stdout.flush()
        return 1 if self.violations else 0


# ---- helpers shared by checks ------------------------------------------------

def panic_site(loc, frame):
    """Panic site without line numbers: the in-repo file of the panic location,
    else file:function of the first in-repo backtrace frame."""
    if loc and "/repo/crates/" in loc:
        return loc.split("/repo/crates/", 1)[1].rsplit(":", 1)[0]
    return frame_fn(frame or "")


def outcome_signature(step_or_died):
    """Signature for panics / process deaths (kind, message sans numbers, site)."""
    if "died" in step_or_died:
        d = step_or_died["died"]
        hook = d.get("panic_hook")
        if hook:
            return {"kind": "outcome", "class": "panic",
                    "message": strip_numbers(hook.get("msg", ""))[:120],
                    "frame": panic_site(hook.get("loc"), hook.get("frame"))}
        tail = d.get("stderr_tail", "") + d.get("stderr_head", "")
        if "overflowed its stack" in tail:
            return {"kind": "outcome", "class": "stack-overflow"}
        m = re.search(r"memory allocation of \d+ bytes failed", tail)
        if m:
            return {"kind": "outcome", "class": "alloc-abort", "frame": d.get("first_repo_frame", "")}
        if d.get("watchdog"):
            return {"kind": "outcome", "class": "watchdog"}
        if d.get("signal") == 24:  # SIGXCPU
            return {"kind": "outcome", "class": "cpu-limit"}
        return {"kind": "outcome", "class": "died", "signal": d.get("signal"), "exit": d.get("exit")}
    return {"kind": "outcome", "class": "panic",
            "message": strip_numbers(step_or_died.get("panic_msg", ""))[:120],
            "frame": panic_site(step_or_died.get("panic_loc"), step_or_died.get("panic_frame"))}


def frame_fn(frame):
    """'func @ file' -> 'file' + short function (generic params and closures stripped)."""
    if " @ " in frame:
        func, file = frame.rsplit(" @ ", 1)
    else:
        func, file = frame, ""
    func = re.sub(r"<[^<>]*>", "", func)
    func = re.sub(r"<[^<>]*>", "", func)
    func = func.replace("{{closure}}", "").strip(": ")
    func = func.split("::")[-1] if "::" in func else func
    return f"{file}:{func}"
