"""Independent Parquet writer (pure stdlib) used as a test oracle for GlareDB's read_parquet.

Written from the Apache Parquet format specification (parquet.thrift, Encodings.md,
LogicalTypes.md, Compression.md), NOT from the engine's reader.  Flat schemas only
(max definition level <= 1, no repetition).

API
---
Col(name, phys, logical=None, optional=True, encoding='PLAIN', type_length=None,
    precision=None, scale=None, page_values=None, dict_max=None, stats='new',
    annot='both', dict_legacy=False, level_style='mixed', index_style='mixed',
    utc=True, dbp_block=128, dbp_miniblocks=4, codec=None, v2_compressed=True, strict=True)
write_file(path, cols, row_groups, *, page_version=1, codec='UNCOMPRESSED', lies=None,
           created_by='vf-pqwrite', crc=False, empty_rg_page=False, column_orders=True) -> dict
engine_type(col) -> str | None       engine_value(col, v) -> json-able
random_values(col, n, rng, null_p) -> list
Bits(n): exact IEEE bit pattern for FLOAT / DOUBLE / FLOAT16.   OMIT: lie value that drops a field.
UNSUPPORTED / unsupported_reason(col): what the engine (as observed) rejects.

write_file returns {'num_rows', 'row_groups': [{'num_rows', 'total_byte_size', 'columns': [{'name',
'file_offset', 'data_page_offset', 'dictionary_page_offset', 'num_values', 'total_compressed_size',
'total_uncompressed_size', 'encodings', 'codec', 'null_count', 'min', 'max' (raw stat bytes as written),
'pages': [{'kind': 'dict'|'data', 'header_off', 'header_len', 'body_off', 'body_len', 'num_values',
'encoding', 'num_nulls' (data pages)}]}]}], 'footer_off', 'footer_len', 'schema', 'file_size'}; all
offsets/sizes are the TRUE ones even when `lies` falsify what the metadata says.
Empty row groups get no pages unless empty_rg_page=True (then one 0-value data page per chunk).
With encoding='DICT', pages are dictionary-encoded until adding a page's new values would exceed
dict_max; that page and all later ones fall back to PLAIN.  Note the engine's default `partitions`
is > 1, so row groups come back interleaved unless `SET partitions TO 1`.

Python values per column: None (NULL), bool, int (logical value: e.g. 0..2**32-1 for UINT32,
unscaled integer for DECIMAL on any physical type), float or Bits, bytes (str allowed for
STRING/ENUM/JSON), INT96 as (nanos_of_day, julian_day).

stats: 'none' | 'new' (min_value/max_value + is_{min,max}_value_exact=true) | 'new_noflags'
(min_value/max_value only) | 'old' (deprecated min/max; computed with *signed* comparison as
legacy writers did, also for unsigned-order columns) | 'both' | 'inexact' (widened
min_value/max_value with is_*_exact=false; the Statistics struct in /repo's format.rs has
fields 7/8 so this is supported).  NaN never enters min/max; zero min is -0.0, zero max +0.0.
INT96 and INTERVAL have undefined order: only null_count is written.

Lies (falsify metadata, file stays structurally valid thrift; page-header lies are applied
before layout so all *true* offsets stay consistent).  Key = address + '.' + thrift field name:
  '<f>'                    FileMetaData: version num_rows created_by
  'root.<f>' / 'col<j>.<f>'  SchemaElement: type type_length repetition_type name num_children
                           converted_type scale precision field_id logicalType (an S struct)
  'rg<i>.<f>'              RowGroup: total_byte_size num_rows file_offset total_compressed_size ordinal
  'rg<i>.col<j>.<f>'       ColumnChunk.file_offset/file_path and ColumnMetaData: type encodings
                           path_in_schema codec num_values total_uncompressed_size
                           total_compressed_size data_page_offset index_page_offset
                           dictionary_page_offset
  'rg<i>.col<j>.stats.<f>' Statistics: max min null_count distinct_count max_value min_value
                           is_max_value_exact is_min_value_exact
  'rg<i>.col<j>.page<k>.<f>' k-th data page: PageHeader type uncompressed_page_size
                           compressed_page_size crc; v1: num_values encoding
                           definition_level_encoding repetition_level_encoding; v2: num_values
                           num_nulls num_rows encoding definition_levels_byte_length
                           repetition_levels_byte_length is_compressed
  'rg<i>.col<j>.dict.<f>'  dictionary page: type uncompressed_page_size compressed_page_size crc
                           num_values encoding is_sorted
Value OMIT removes an optional field.  Unknown / unused keys raise ValueError.
"""
import struct
import zlib

__all__ = ['Col', 'Bits', 'OMIT', 'S', 'write_file', 'engine_type', 'engine_value',
           'random_values', 'UNSUPPORTED', 'KNOWN_MAPPING_NOTES', 'unsupported_reason',
           'valid_encodings', 'LOGICALS']

OMIT = object()


class Bits:
    """Exact IEEE-754 bit pattern for a FLOAT (32), DOUBLE (64) or FLOAT16 (16) value."""
    __slots__ = ('n',)

    def __init__(self, n):
        self.n = int(n)

    def __repr__(self):
        return 'Bits(0x%x)' % self.n

    def __eq__(self, o):
        return isinstance(o, Bits) and o.n == self.n

    def __hash__(self):
        return hash(('Bits', self.n))


# ---------------------------------------------------------------- thrift compact protocol
_CT = {'bool': 2, 'i8': 3, 'i16': 4, 'i32': 5, 'i64': 6, 'double': 7, 'bin': 8, 'list': 9, 'struct': 12}


def uvarint(n):
    if n < 0:
        raise ValueError('uvarint of negative')
    out = bytearray()
    while n >= 0x80:
        out.append((n & 0x7F) | 0x80)
        n >>= 7
    out.append(n)
    return bytes(out)


def zigzag(n):
    return (n << 1) if n >= 0 else ((-n) << 1) - 1


def _tcode(t):
    return _CT['list'] if isinstance(t, tuple) else _CT[t]


def _enc_val(t, v):
    if isinstance(t, tuple):
        et, ct, n = t[1], _tcode(t[1]), len(v)
        hdr = bytes([(n << 4) | ct]) if n < 15 else bytes([0xF0 | ct]) + uvarint(n)
        if et == 'bool':
            return hdr + bytes(1 if x else 2 for x in v)
        return hdr + b''.join(_enc_val(et, x) for x in v)
    if t == 'i8':
        return struct.pack('b', v)
    if t in ('i16', 'i32', 'i64'):
        return uvarint(zigzag(int(v)))
    if t == 'double':
        return struct.pack('<d', v)
    if t == 'bin':
        if isinstance(v, str):
            v = v.encode('utf-8')
        return uvarint(len(v)) + bytes(v)
    if t == 'struct':
        return v.enc()
    raise ValueError('thrift type %r' % (t,))


class S:
    """A thrift struct: ordered fields (id, type, name, value); value None = absent."""

    def __init__(self, *fields):
        self.f = [list(x) for x in fields]

    def get(self, name):
        for x in self.f:
            if x[2] == name:
                return x[3]
        raise KeyError(name)

    def lie(self, prefix, lies, used):
        for x in self.f:
            k = prefix + x[2]
            if k in lies:
                used.add(k)
                x[3] = None if lies[k] is OMIT else lies[k]

    def enc(self):
        out, last = bytearray(), 0
        for fid, t, _name, v in self.f:
            if v is None:
                continue
            ct = (1 if v else 2) if t == 'bool' else _tcode(t)
            d = fid - last
            if 0 < d <= 15:
                out.append((d << 4) | ct)
            else:
                out.append(ct)
                out += uvarint(zigzag(fid))
            last = fid
            if t != 'bool':
                out += _enc_val(t, v)
        out.append(0)
        return bytes(out)


# ---------------------------------------------------------------- format constants
PHYS = {'BOOLEAN': 0, 'INT32': 1, 'INT64': 2, 'INT96': 3, 'FLOAT': 4, 'DOUBLE': 5,
        'BYTE_ARRAY': 6, 'FIXED_LEN_BYTE_ARRAY': 7}
ENC = {'PLAIN': 0, 'PLAIN_DICTIONARY': 2, 'RLE': 3, 'BIT_PACKED': 4, 'DELTA_BINARY_PACKED': 5,
       'DELTA_LENGTH_BYTE_ARRAY': 6, 'DELTA_BYTE_ARRAY': 7, 'RLE_DICTIONARY': 8,
       'BYTE_STREAM_SPLIT': 9}
CODEC = {'UNCOMPRESSED': 0, 'SNAPPY': 1, 'GZIP': 2, 'LZO': 3, 'BROTLI': 4, 'LZ4': 5, 'ZSTD': 6,
         'LZ4_RAW': 7}
_CONV = {'UTF8': 0, 'ENUM': 4, 'DECIMAL': 5, 'DATE': 6, 'TIME_MILLIS': 7, 'TIME_MICROS': 8,
         'TIMESTAMP_MILLIS': 9, 'TIMESTAMP_MICROS': 10, 'UINT_8': 11, 'UINT_16': 12, 'UINT_32': 13,
         'UINT_64': 14, 'INT_8': 15, 'INT_16': 16, 'INT_32': 17, 'INT_64': 18, 'JSON': 19,
         'BSON': 20, 'INTERVAL': 21}
_INTS = {'INT8': (8, True), 'INT16': (16, True), 'INT32': (32, True), 'INT64': (64, True),
         'UINT8': (8, False), 'UINT16': (16, False), 'UINT32': (32, False), 'UINT64': (64, False)}
_TIMEU = {'MILLIS': (1, 'ms'), 'MICROS': (2, 'μs'), 'NANOS': (3, 'ns')}

# logical annotation -> physical types it may annotate (per LogicalTypes.md)
LOGICALS = {
    None: set(PHYS),
    'INT8': {'INT32'}, 'INT16': {'INT32'}, 'INT32': {'INT32'}, 'UINT8': {'INT32'},
    'UINT16': {'INT32'}, 'UINT32': {'INT32'}, 'INT64': {'INT64'}, 'UINT64': {'INT64'},
    'DECIMAL': {'INT32', 'INT64', 'BYTE_ARRAY', 'FIXED_LEN_BYTE_ARRAY'},
    'DATE': {'INT32'}, 'TIME_MILLIS': {'INT32'}, 'TIME_MICROS': {'INT64'}, 'TIME_NANOS': {'INT64'},
    'TIMESTAMP_MILLIS': {'INT64'}, 'TIMESTAMP_MICROS': {'INT64'}, 'TIMESTAMP_NANOS': {'INT64'},
    'STRING': {'BYTE_ARRAY'}, 'ENUM': {'BYTE_ARRAY'}, 'JSON': {'BYTE_ARRAY'}, 'BSON': {'BYTE_ARRAY'},
    'UUID': {'FIXED_LEN_BYTE_ARRAY'}, 'FLOAT16': {'FIXED_LEN_BYTE_ARRAY'},
    'INTERVAL': {'FIXED_LEN_BYTE_ARRAY'},
}
_FIXED_LEN = {'UUID': 16, 'FLOAT16': 2, 'INTERVAL': 12}


def valid_encodings(phys):
    """Encodings the spec allows for a physical type (writer names)."""
    e = ['PLAIN']
    if phys != 'BOOLEAN':
        e.append('DICT')
    if phys == 'BOOLEAN':
        e.append('RLE')
    if phys in ('INT32', 'INT64'):
        e.append('DELTA_BINARY_PACKED')
    if phys == 'BYTE_ARRAY':
        e.append('DELTA_LENGTH_BYTE_ARRAY')
    if phys in ('BYTE_ARRAY', 'FIXED_LEN_BYTE_ARRAY'):
        e.append('DELTA_BYTE_ARRAY')
    if phys in ('INT32', 'INT64', 'FLOAT', 'DOUBLE', 'FIXED_LEN_BYTE_ARRAY'):
        e.append('BYTE_STREAM_SPLIT')
    return e


class Col:
    def __init__(self, name, phys, logical=None, optional=True, encoding='PLAIN',
                 type_length=None, precision=None, scale=None, page_values=None, dict_max=None,
                 stats='new', annot='both', dict_legacy=False, level_style='mixed',
                 index_style='mixed', utc=True, dbp_block=128, dbp_miniblocks=4, codec=None,
                 v2_compressed=True, strict=True):
        self.name, self.phys, self.logical, self.optional = name, phys, logical, optional
        self.encoding, self.type_length, self.precision, self.scale = encoding, type_length, precision, scale
        self.page_values, self.dict_max, self.stats, self.annot = page_values, dict_max, stats, annot
        self.dict_legacy, self.level_style, self.index_style, self.utc = dict_legacy, level_style, index_style, utc
        self.dbp_block, self.dbp_miniblocks, self.codec = dbp_block, dbp_miniblocks, codec
        self.v2_compressed, self.strict = v2_compressed, strict
        if phys == 'FIXED_LEN_BYTE_ARRAY' and type_length is None:
            self.type_length = _FIXED_LEN.get(logical)
        if logical == 'DECIMAL' and scale is None:
            self.scale = 0
        if strict:
            self._validate()

    def _validate(self):
        if self.phys not in PHYS:
            raise ValueError('bad physical type %r' % self.phys)
        if self.logical not in LOGICALS or self.phys not in LOGICALS[self.logical]:
            raise ValueError('%r cannot annotate %s' % (self.logical, self.phys))
        if self.encoding not in valid_encodings(self.phys):
            raise ValueError('%s not valid for %s' % (self.encoding, self.phys))
        if self.phys == 'FIXED_LEN_BYTE_ARRAY' and not (self.type_length and self.type_length > 0):
            raise ValueError('FIXED_LEN_BYTE_ARRAY needs type_length')
        if self.logical in _FIXED_LEN and self.type_length != _FIXED_LEN[self.logical]:
            raise ValueError('%s needs type_length %d' % (self.logical, _FIXED_LEN[self.logical]))
        if self.logical == 'DECIMAL':
            p, s = self.precision, self.scale
            if p is None or p < 1 or s < 0 or s > p:
                raise ValueError('bad decimal (%r,%r)' % (p, s))
            lim = {'INT32': 9, 'INT64': 18}.get(self.phys)
            if self.phys == 'FIXED_LEN_BYTE_ARRAY':
                lim = len(str(2 ** (8 * self.type_length - 1) - 1)) - 1
            if lim is not None and p > lim:
                raise ValueError('decimal precision %d too large for %s' % (p, self.phys))
        if self.annot not in ('both', 'converted', 'logical'):
            raise ValueError('annot')
        if self.logical is not None:
            conv, lt = _annotation(self)
            if (self.annot == 'converted' and conv is None) or (self.annot == 'logical' and lt is None):
                raise ValueError('%s has no %s annotation' % (self.logical, self.annot))
        if self.stats not in ('none', 'new', 'new_noflags', 'old', 'both', 'inexact'):
            raise ValueError('stats')

    def __repr__(self):
        d = Col('x', 'INT32', strict=False).__dict__
        extra = ', '.join('%s=%r' % (k, v) for k, v in self.__dict__.items()
                          if k not in ('name', 'phys') and v != d.get(k))
        return 'Col(%r, %r%s)' % (self.name, self.phys, ', ' + extra if extra else '')


def _annotation(col):
    """-> (converted_type id or None, LogicalType union S or None) as defined by the spec."""
    lg = col.logical
    e = S()
    if lg is None:
        return None, None
    if lg in _INTS:
        w, sg = _INTS[lg]
        return (_CONV[('INT_' if sg else 'UINT_') + str(w)],
                S((10, 'struct', 'INTEGER', S((1, 'i8', 'bitWidth', w), (2, 'bool', 'isSigned', sg)))))
    if lg == 'DECIMAL':
        return _CONV['DECIMAL'], S((5, 'struct', 'DECIMAL', S((1, 'i32', 'scale', col.scale),
                                                              (2, 'i32', 'precision', col.precision))))
    if lg == 'DATE':
        return _CONV['DATE'], S((6, 'struct', 'DATE', e))
    if lg.startswith('TIME_') or lg.startswith('TIMESTAMP_'):
        kind, unit = lg.split('_')
        unit_s = S((_TIMEU[unit][0], 'struct', unit, S()))
        body = S((1, 'bool', 'isAdjustedToUTC', bool(col.utc)), (2, 'struct', 'unit', unit_s))
        return _CONV.get(lg), S((7 if kind == 'TIME' else 8, 'struct', kind, body))
    if lg == 'STRING':
        return _CONV['UTF8'], S((1, 'struct', 'STRING', e))
    if lg == 'ENUM':
        return _CONV['ENUM'], S((4, 'struct', 'ENUM', e))
    if lg == 'JSON':
        return _CONV['JSON'], S((12, 'struct', 'JSON', e))
    if lg == 'BSON':
        return _CONV['BSON'], S((13, 'struct', 'BSON', e))
    if lg == 'UUID':
        return None, S((14, 'struct', 'UUID', e))
    if lg == 'FLOAT16':
        return None, S((15, 'struct', 'FLOAT16', e))
    if lg == 'INTERVAL':
        return _CONV['INTERVAL'], None
    raise ValueError('unknown logical %r' % lg)


# ---------------------------------------------------------------- python value -> physical value
def _int_bits(col):
    return 32 if col.phys == 'INT32' else 64


def _logical_int_range(col):
    """(lo, hi) of the *logical* integer values representable in this column."""
    lg = col.logical
    if lg in _INTS:
        w, sg = _INTS[lg]
        return (-(1 << (w - 1)), (1 << (w - 1)) - 1) if sg else (0, (1 << w) - 1)
    if lg == 'DECIMAL':
        m = 10 ** col.precision - 1
        return -m, m
    b = _int_bits(col)
    return -(1 << (b - 1)), (1 << (b - 1)) - 1


def _float_bits(v, fmt, ifmt, nbits):
    if isinstance(v, Bits):
        if not 0 <= v.n < (1 << nbits):
            raise ValueError('Bits out of range')
        return v.n
    return struct.unpack(ifmt, struct.pack(fmt, v))[0]


def _phys(col, v):
    """Canonical physical value: bool | signed int | float bits | (nanos, julian) | bytes."""
    p, lg = col.phys, col.logical
    if p == 'BOOLEAN':
        return bool(v)
    if p in ('INT32', 'INT64'):
        b = _int_bits(col)
        v = int(v)
        if col.strict:
            lo, hi = _logical_int_range(col)
            if not lo <= v <= hi:
                raise ValueError('%d out of range for %r' % (v, col))
        v &= (1 << b) - 1
        return v - (1 << b) if v >> (b - 1) else v
    if p == 'FLOAT':
        return _float_bits(v, '<f', '<I', 32)
    if p == 'DOUBLE':
        return _float_bits(v, '<d', '<Q', 64)
    if p == 'INT96':
        return (int(v[0]), int(v[1]))
    if lg == 'FLOAT16' and not isinstance(v, (bytes, bytearray)):
        return struct.pack('<H', _float_bits(v, '<e', '<H', 16))
    if lg == 'DECIMAL' and isinstance(v, int):
        n = col.type_length if p == 'FIXED_LEN_BYTE_ARRAY' else max(1, (v.bit_length() + 8) // 8)
        return v.to_bytes(n, 'big', signed=True)
    if isinstance(v, str):
        v = v.encode('utf-8')
    v = bytes(v)
    if p == 'FIXED_LEN_BYTE_ARRAY' and col.strict and len(v) != col.type_length:
        raise ValueError('FLBA value of wrong length')
    return v


def _plain(col, vals):
    p = col.phys
    if p == 'BOOLEAN':
        acc = 0
        for i, v in enumerate(vals):
            acc |= int(v) << i
        return acc.to_bytes((len(vals) + 7) // 8, 'little')
    if p == 'INT32':
        return struct.pack('<%di' % len(vals), *vals)
    if p == 'INT64':
        return struct.pack('<%dq' % len(vals), *vals)
    if p == 'FLOAT':
        return struct.pack('<%dI' % len(vals), *vals)
    if p == 'DOUBLE':
        return struct.pack('<%dQ' % len(vals), *vals)
    if p == 'INT96':
        return b''.join(struct.pack('<qI', n, j) for n, j in vals)
    if p == 'BYTE_ARRAY':
        return b''.join(struct.pack('<I', len(v)) + v for v in vals)
    return b''.join(vals)


# ---------------------------------------------------------------- encodings
def _bitpack(vals, width):
    acc = 0
    for i, v in enumerate(vals):
        acc |= v << (i * width)
    return acc.to_bytes((len(vals) * width + 7) // 8, 'little')


def rle_hybrid(vals, width, style='mixed'):
    """RLE / bit-packed hybrid (no length prefix).  style: 'rle' | 'bitpacked' | 'mixed'."""
    out, nb = bytearray(), (width + 7) // 8

    def rle_run(v, n):
        out.extend(uvarint(n << 1) + v.to_bytes(nb, 'little'))

    def bp_flush(pend, cap):
        pend = pend + [0] * ((-len(pend)) % 8)
        step = cap * 8 if cap else max(len(pend), 8)
        for i in range(0, len(pend), step):
            ch = pend[i:i + step]
            out.extend(uvarint(((len(ch) // 8) << 1) | 1) + _bitpack(ch, width))

    n, i = len(vals), 0
    if style == 'bitpacked':
        if n:
            bp_flush(list(vals), 0)
        return bytes(out)
    pend = []
    while i < n:
        j = i
        while j < n and vals[j] == vals[i]:
            j += 1
        r = j - i
        if style == 'rle':
            rle_run(vals[i], r)
        elif r >= 8:
            take = min((-len(pend)) % 8, r)
            pend += [vals[i]] * take
            r -= take
            if r >= 8:
                if pend:
                    bp_flush(pend, 63)
                    pend = []
                rle_run(vals[i], r)
            else:
                pend += [vals[i]] * r
        else:
            pend += list(vals[i:j])
        i = j
    if pend:
        bp_flush(pend, 63)
    return bytes(out)


def dbp_encode(vals, bits, block=128, mini=4):
    """DELTA_BINARY_PACKED of signed ints, arithmetic wrapping at `bits`."""
    mask = (1 << bits) - 1

    def sgn(x):
        x &= mask
        return x - (1 << bits) if x >> (bits - 1) else x

    out = bytearray(uvarint(block) + uvarint(mini) + uvarint(len(vals)) +
                    uvarint(zigzag(vals[0] if vals else 0)))
    deltas = [sgn(vals[i] - vals[i - 1]) for i in range(1, len(vals))]
    per = block // mini
    for b in range(0, len(deltas), block):
        blk = deltas[b:b + block]
        md = min(blk)
        adj = [(d - md) & mask for d in blk]
        widths, datas = [], []
        for m in range(mini):
            mb = adj[m * per:(m + 1) * per]
            w = max(mb).bit_length() if mb else 0
            widths.append(w)
            if mb:
                datas.append(_bitpack(mb + [0] * (per - len(mb)), w))
        out += uvarint(zigzag(md)) + bytes(widths) + b''.join(datas)
    return bytes(out)


def _encode_values(col, enc, vals, dict_index=None, nbits_dict=0):
    """Encode the non-null physical values of one data page with writer-encoding `enc`."""
    if enc == 'PLAIN':
        return _plain(col, vals)
    if enc == 'DICT':
        return bytes([nbits_dict]) + rle_hybrid([dict_index[v] for v in vals], nbits_dict, col.index_style)
    if enc == 'RLE':
        body = rle_hybrid([int(v) for v in vals], 1, col.index_style)
        return struct.pack('<I', len(body)) + body
    if enc == 'DELTA_BINARY_PACKED':
        return dbp_encode(vals, _int_bits(col), col.dbp_block, col.dbp_miniblocks)
    if enc == 'DELTA_LENGTH_BYTE_ARRAY':
        return dbp_encode([len(v) for v in vals], 32, col.dbp_block, col.dbp_miniblocks) + b''.join(vals)
    if enc == 'DELTA_BYTE_ARRAY':
        pre, suf, prev = [], [], b''
        for v in vals:
            k, m = 0, min(len(v), len(prev))
            while k < m and v[k] == prev[k]:
                k += 1
            pre.append(k)
            suf.append(v[k:])
            prev = v
        return (dbp_encode(pre, 32, col.dbp_block, col.dbp_miniblocks) +
                dbp_encode([len(s) for s in suf], 32, col.dbp_block, col.dbp_miniblocks) + b''.join(suf))
    if enc == 'BYTE_STREAM_SPLIT':
        raw = _plain(col, vals)
        k = {'INT32': 4, 'FLOAT': 4, 'INT64': 8, 'DOUBLE': 8}.get(col.phys, col.type_length)
        return b''.join(raw[j::k] for j in range(k))
    raise ValueError('encoding %r' % enc)


# ---------------------------------------------------------------- compression (hand-built valid streams)
def _snappy(data):
    out, i, k = bytearray(uvarint(len(data))), 0, 0
    sizes = [5, 60, 61, 300, 70000]
    while i < len(data):
        ch = data[i:i + sizes[k % len(sizes)]]
        i, k, n = i + len(ch), k + 1, len(ch) - 1
        if n < 60:
            out.append(n << 2)
        else:
            nb = (n.bit_length() + 7) // 8
            out.append((59 + nb) << 2)
            out += n.to_bytes(nb, 'little')
        out += ch
    return bytes(out)


def _lz4_raw(data):
    n = len(data)
    out = bytearray([min(n, 15) << 4])
    if n >= 15:
        r = n - 15
        out += b'\xff' * (r // 255) + bytes([r % 255])
    return bytes(out) + data


def _zstd(data):
    n = len(data)
    if n < 256:
        fl, fcs = 0, bytes([n])
    elif n < 65536 + 256:
        fl, fcs = 1, struct.pack('<H', n - 256)
    elif n < 1 << 32:
        fl, fcs = 2, struct.pack('<I', n)
    else:
        fl, fcs = 3, struct.pack('<Q', n)
    out = bytearray(struct.pack('<I', 0xFD2FB528) + bytes([(fl << 6) | 0x20]) + fcs)
    sizes, i, k = [7, 1000, 1 << 17], 0, 0
    while True:
        ch = data[i:i + sizes[k % 3]]
        i, k = i + len(ch), k + 1
        last = 1 if i >= n else 0
        out += (last | (len(ch) << 3)).to_bytes(3, 'little') + ch  # Raw_Block (type 0)
        if last:
            return bytes(out)


def _gzip(data):
    c = zlib.compressobj(6, zlib.DEFLATED, 31)
    return c.compress(data) + c.flush()


_COMPRESS = {'UNCOMPRESSED': lambda d: d, 'GZIP': _gzip, 'SNAPPY': _snappy, 'LZ4_RAW': _lz4_raw,
             'ZSTD': _zstd}


# ---------------------------------------------------------------- statistics
def _sort_order(col):
    """'signed' | 'unsigned' | None (undefined) per the spec's TypeDefinedOrder."""
    p, lg = col.phys, col.logical
    if p == 'INT96' or lg == 'INTERVAL':
        return None
    if lg in _INTS and not _INTS[lg][1]:
        return 'unsigned'
    if p in ('BYTE_ARRAY', 'FIXED_LEN_BYTE_ARRAY') and lg not in ('DECIMAL', 'FLOAT16'):
        return 'unsigned'
    return 'signed'


def _bits_to_float(col, v):
    if col.phys == 'FLOAT':
        return struct.unpack('<f', struct.pack('<I', v))[0]
    if col.phys == 'DOUBLE':
        return struct.unpack('<d', struct.pack('<Q', v))[0]
    return struct.unpack('<e', v)[0]


def _is_float(col):
    return col.phys in ('FLOAT', 'DOUBLE') or col.logical == 'FLOAT16'


def _stat_plain(col, v):
    if col.phys == 'BOOLEAN':
        return bytes([int(v)])
    if col.phys == 'BYTE_ARRAY':
        return v
    return _plain(col, [v])


def _minmax(col, vals, legacy=False):
    """(min, max) physical values under the column's sort order (legacy=True: signed order)."""
    order = _sort_order(col)
    if order is None or not vals:
        return None
    if _is_float(col):
        fs = [(_bits_to_float(col, v), v) for v in vals]
        fs = [x for x in fs if x[0] == x[0]]
        if not fs:
            return None
        lo, hi = min(fs, key=lambda x: x[0]), max(fs, key=lambda x: x[0])
        zero = (lambda neg: _phys(col, -0.0 if neg else 0.0))
        return (zero(True) if lo[0] == 0 else lo[1]), (zero(False) if hi[0] == 0 else hi[1])
    if col.phys in ('INT32', 'INT64'):
        b = _int_bits(col)
        key = (lambda v: v) if (legacy or order == 'signed') else (lambda v: v & ((1 << b) - 1))
    elif col.phys == 'BOOLEAN':
        key = int
    elif col.logical == 'DECIMAL':
        key = lambda v: int.from_bytes(v, 'big', signed=True)
    elif legacy:
        key = lambda v: bytes(x ^ 0x80 for x in v)
    else:
        key = lambda v: v
    return min(vals, key=key), max(vals, key=key)


def _widen(col, lo, hi):
    """Valid but inexact bounds: lo' <= lo, hi' >= hi."""
    if col.phys in ('INT32', 'INT64'):     # stay inside the logical type's value range (spec requirement)
        b = _int_bits(col)
        m = (1 << b) - 1 if _sort_order(col) == 'unsigned' else 0
        rlo, rhi = _logical_int_range(col)
        nlo, nhi = max((lo & m if m else lo) - 1, rlo), min((hi & m if m else hi) + 1, rhi)
        return _phys(col, nlo), _phys(col, nhi)
    if col.phys == 'BYTE_ARRAY' and col.logical != 'DECIMAL':
        nhi = hi
        if len(hi) > 1 and hi[0] < 0x7f:    # one-byte upper bound (also valid UTF-8)
            nhi = bytes([hi[0] + 1])
        return lo[:1], nhi
    return lo, hi


def _statistics(col, vals, nulls):
    """-> (Statistics S or None, reported min bytes, reported max bytes)."""
    if col.stats == 'none':
        return None, None, None
    f = dict(max=None, min=None, max_value=None, min_value=None, emax=None, emin=None)
    rmin = rmax = None
    if col.stats in ('old', 'both'):
        mm = _minmax(col, vals, legacy=True)
        if mm:
            rmin, rmax = f['min'], f['max'] = _stat_plain(col, mm[0]), _stat_plain(col, mm[1])
    if col.stats in ('new', 'new_noflags', 'both', 'inexact'):
        mm = _minmax(col, vals)
        if mm:
            if col.stats == 'inexact':
                mm = _widen(col, *mm)
            rmin, rmax = f['min_value'], f['max_value'] = _stat_plain(col, mm[0]), _stat_plain(col, mm[1])
            if col.stats != 'new_noflags':
                f['emax'] = f['emin'] = col.stats != 'inexact'
    st = S((1, 'bin', 'max', f['max']), (2, 'bin', 'min', f['min']), (3, 'i64', 'null_count', nulls),
           (4, 'i64', 'distinct_count', None), (5, 'bin', 'max_value', f['max_value']),
           (6, 'bin', 'min_value', f['min_value']), (7, 'bool', 'is_max_value_exact', f['emax']),
           (8, 'bool', 'is_min_value_exact', f['emin']))
    return st, rmin, rmax


# ---------------------------------------------------------------- column chunk / file
def _crc(b):
    c = zlib.crc32(b)
    return c - (1 << 32) if c >> 31 else c


def _write_chunk(buf, col, vals, page_version, codec, lies, used, prefix, crc, empty_page):
    comp = _COMPRESS[codec]
    pv = [None if v is None else _phys(col, v) for v in vals]
    if not col.optional and any(v is None for v in pv):
        raise ValueError('NULL in required column %s' % col.name)
    step = col.page_values or max(len(pv), 1)
    pages = [pv[i:i + step] for i in range(0, len(pv), step)] or ([[]] if empty_page else [])
    # dictionary planning: pages are dictionary-encoded until dict_max would be exceeded
    dict_index, n_dict_pages = {}, 0
    if col.encoding == 'DICT':
        for pg in pages:
            new = []
            for v in pg:
                if v is not None and v not in dict_index and v not in new:
                    new.append(v)
            if col.dict_max is not None and len(dict_index) + len(new) > col.dict_max:
                break
            for v in new:
                dict_index[v] = len(dict_index)
            n_dict_pages += 1
    start = len(buf)
    info = {'name': col.name, 'pages': [], 'codec': codec}
    encs, tot_unc = [], 0

    def emit(kind, hdr, body, unc_len, nvals, lie_prefix, extra):
        nonlocal tot_unc
        hdr.lie(lie_prefix, lies, used)
        for x in hdr.f:
            if isinstance(x[3], S):
                x[3].lie(lie_prefix, lies, used)
        h = hdr.enc()
        off = len(buf)
        buf.extend(h)
        buf.extend(body)
        tot_unc += len(h) + unc_len
        info['pages'].append(dict(kind=kind, header_off=off, header_len=len(h), body_off=off + len(h),
                                  body_len=len(body), num_values=nvals, **extra))  # extra: encoding, num_nulls

    dict_off = None
    if n_dict_pages:
        dict_off = len(buf)
        raw = _plain(col, list(dict_index))
        body = comp(raw)
        e = 'PLAIN_DICTIONARY' if col.dict_legacy else 'PLAIN'
        encs.append(e)
        dh = S((1, 'i32', 'num_values', len(dict_index)), (2, 'i32', 'encoding', ENC[e]),
               (3, 'bool', 'is_sorted', None))
        hdr = S((1, 'i32', 'type', 2), (2, 'i32', 'uncompressed_page_size', len(raw)),
                (3, 'i32', 'compressed_page_size', len(body)), (4, 'i32', 'crc', _crc(body) if crc else None),
                (7, 'struct', 'dictionary_page_header', dh))
        emit('dict', hdr, body, len(raw), len(dict_index), prefix + 'dict.', {'encoding': e})
    nbits_dict = max(len(dict_index) - 1, 0).bit_length()
    data_off = len(buf)
    for k, pg in enumerate(pages):
        nn = [v for v in pg if v is not None]
        wenc = col.encoding
        if wenc == 'DICT' and k >= n_dict_pages:
            wenc = 'PLAIN'
        fenc = ('PLAIN_DICTIONARY' if col.dict_legacy else 'RLE_DICTIONARY') if wenc == 'DICT' else wenc
        data = _encode_values(col, wenc, nn, dict_index, nbits_dict)
        lv = rle_hybrid([0 if v is None else 1 for v in pg], 1, col.level_style) if col.optional else b''
        if fenc not in encs:
            encs.append(fenc)
        if 'RLE' not in encs:
            encs.append('RLE')
        if page_version == 1:
            raw = (struct.pack('<I', len(lv)) + lv if col.optional else b'') + data
            body = comp(raw)
            ph = S((1, 'i32', 'num_values', len(pg)), (2, 'i32', 'encoding', ENC[fenc]),
                   (3, 'i32', 'definition_level_encoding', ENC['RLE']),
                   (4, 'i32', 'repetition_level_encoding', ENC['RLE']), (5, 'struct', 'statistics', None))
            hdr = S((1, 'i32', 'type', 0), (2, 'i32', 'uncompressed_page_size', len(raw)),
                    (3, 'i32', 'compressed_page_size', len(body)),
                    (4, 'i32', 'crc', _crc(body) if crc else None), (5, 'struct', 'data_page_header', ph))
            unc = len(raw)
        else:
            is_c = codec != 'UNCOMPRESSED' and col.v2_compressed
            body = lv + (comp(data) if is_c else data)
            unc = len(lv) + len(data)
            ph = S((1, 'i32', 'num_values', len(pg)), (2, 'i32', 'num_nulls', len(pg) - len(nn)),
                   (3, 'i32', 'num_rows', len(pg)), (4, 'i32', 'encoding', ENC[fenc]),
                   (5, 'i32', 'definition_levels_byte_length', len(lv)),
                   (6, 'i32', 'repetition_levels_byte_length', 0), (7, 'bool', 'is_compressed', is_c),
                   (8, 'struct', 'statistics', None))
            hdr = S((1, 'i32', 'type', 3), (2, 'i32', 'uncompressed_page_size', unc),
                    (3, 'i32', 'compressed_page_size', len(body)),
                    (4, 'i32', 'crc', _crc(body) if crc else None), (8, 'struct', 'data_page_header_v2', ph))
        emit('data', hdr, body, unc, len(pg), '%spage%d.' % (prefix, k),
             {'encoding': fenc, 'num_nulls': len(pg) - len(nn)})
    nn_all = [v for v in pv if v is not None]
    st, rmin, rmax = _statistics(col, nn_all, len(pv) - len(nn_all))
    info.update(file_offset=start, data_page_offset=data_off, dictionary_page_offset=dict_off,
                num_values=len(pv), total_compressed_size=len(buf) - start,
                total_uncompressed_size=tot_unc, encodings=encs, null_count=len(pv) - len(nn_all),
                min=rmin, max=rmax)
    if st is not None:
        st.lie(prefix + 'stats.', lies, used)
    md = S((1, 'i32', 'type', PHYS[col.phys]), (2, ('list', 'i32'), 'encodings', [ENC[e] for e in encs]),
           (3, ('list', 'bin'), 'path_in_schema', [col.name]), (4, 'i32', 'codec', CODEC[codec]),
           (5, 'i64', 'num_values', len(pv)), (6, 'i64', 'total_uncompressed_size', tot_unc),
           (7, 'i64', 'total_compressed_size', len(buf) - start), (9, 'i64', 'data_page_offset', data_off),
           (10, 'i64', 'index_page_offset', None), (11, 'i64', 'dictionary_page_offset', dict_off),
           (12, 'struct', 'statistics', st))
    cc = S((1, 'bin', 'file_path', None), (2, 'i64', 'file_offset', start), (3, 'struct', 'meta_data', md))
    md.lie(prefix, lies, used)
    cc.lie(prefix, lies, used)
    return cc, info


def _schema_element(col):
    conv, lt = _annotation(col)
    if col.annot == 'converted':
        lt = None
    elif col.annot == 'logical':
        conv = None
    dec = col.logical == 'DECIMAL' and conv is not None
    return S((1, 'i32', 'type', PHYS[col.phys]),
             (2, 'i32', 'type_length', col.type_length if col.phys == 'FIXED_LEN_BYTE_ARRAY' else None),
             (3, 'i32', 'repetition_type', 1 if col.optional else 0), (4, 'bin', 'name', col.name),
             (5, 'i32', 'num_children', None), (6, 'i32', 'converted_type', conv),
             (7, 'i32', 'scale', col.scale if dec else None),
             (8, 'i32', 'precision', col.precision if dec else None), (9, 'i32', 'field_id', None),
             (10, 'struct', 'logicalType', lt))


def write_file(path, cols, row_groups, *, page_version=1, codec='UNCOMPRESSED', lies=None,
               created_by='vf-pqwrite', crc=False, empty_rg_page=False, column_orders=True):
    if page_version not in (1, 2):
        raise ValueError('page_version')
    lies, used = dict(lies or {}), set()
    buf = bytearray(b'PAR1')
    rgs, rg_info, total = [], [], 0
    for i, rows in enumerate(row_groups):
        for r in rows:
            if len(r) != len(cols):
                raise ValueError('row arity')
        start, ccs, infos = len(buf), [], []
        for j, col in enumerate(cols):
            cc, info = _write_chunk(buf, col, [r[j] for r in rows], page_version, col.codec or codec,
                                    lies, used, 'rg%d.col%d.' % (i, j), crc, empty_rg_page)
            ccs.append(cc)
            infos.append(info)
        tbs = sum(x['total_uncompressed_size'] for x in infos)
        rg = S((1, ('list', 'struct'), 'columns', ccs), (2, 'i64', 'total_byte_size', tbs),
               (3, 'i64', 'num_rows', len(rows)), (5, 'i64', 'file_offset', start),
               (6, 'i64', 'total_compressed_size', len(buf) - start), (7, 'i16', 'ordinal', i))
        rg.lie('rg%d.' % i, lies, used)
        rgs.append(rg)
        rg_info.append({'num_rows': len(rows), 'total_byte_size': tbs, 'columns': infos})
        total += len(rows)
    root = S((1, 'i32', 'type', None), (2, 'i32', 'type_length', None), (3, 'i32', 'repetition_type', None),
             (4, 'bin', 'name', 'schema'), (5, 'i32', 'num_children', len(cols)),
             (6, 'i32', 'converted_type', None), (7, 'i32', 'scale', None), (8, 'i32', 'precision', None),
             (9, 'i32', 'field_id', None), (10, 'struct', 'logicalType', None))
    root.lie('root.', lies, used)
    schema = [root]
    for j, col in enumerate(cols):
        se = _schema_element(col)
        se.lie('col%d.' % j, lies, used)
        schema.append(se)
    orders = [S((1, 'struct', 'TYPE_ORDER', S())) for _ in cols] if column_orders else None
    fmd = S((1, 'i32', 'version', 2 if page_version == 2 else 1), (2, ('list', 'struct'), 'schema', schema),
            (3, 'i64', 'num_rows', total), (4, ('list', 'struct'), 'row_groups', rgs),
            (6, 'bin', 'created_by', created_by), (7, ('list', 'struct'), 'column_orders', orders))
    fmd.lie('', lies, used)
    unused = set(lies) - used
    if unused:
        raise ValueError('lies not applicable: %s' % sorted(unused))
    footer = fmd.enc()
    footer_off = len(buf)
    buf += footer + struct.pack('<I', len(footer)) + b'PAR1'
    with open(path, 'wb') as fh:
        fh.write(buf)
    return {'num_rows': total, 'row_groups': rg_info, 'footer_off': footer_off, 'footer_len': len(footer),
            'schema': [(c.name, c.phys, c.logical, c.optional) for c in cols], 'file_size': len(buf)}


# ---------------------------------------------------------------- oracle side
JULIAN_EPOCH = 2440588
NANOS_PER_DAY = 86400 * 10 ** 9


def engine_type(col):
    """Engine type string per the documented Parquet logical type semantics, or None when the
    engine has no corresponding type (TIME_*: there is no time-of-day type)."""
    p, lg = col.phys, col.logical
    if lg in _INTS:
        w, sg = _INTS[lg]
        return ('Int' if sg else 'UInt') + str(w)
    if lg == 'DECIMAL':
        return 'Decimal%d(%d,%d)' % (64 if col.precision <= 18 else 128, col.precision, col.scale)
    if lg == 'DATE':
        return 'Date32'
    if lg and lg.startswith('TIMESTAMP_'):
        return 'Timestamp(%s)' % _TIMEU[lg.split('_')[1]][1]
    if lg and lg.startswith('TIME_'):
        return None
    if lg in ('STRING', 'ENUM', 'JSON'):
        return 'Utf8'
    if lg == 'FLOAT16':
        return 'Float16'
    if lg == 'INTERVAL':
        return 'Interval'
    return {'BOOLEAN': 'Boolean', 'INT32': 'Int32', 'INT64': 'Int64', 'INT96': 'Timestamp(ns)',
            'FLOAT': 'Float32', 'DOUBLE': 'Float64'}.get(p, 'Binary')   # BSON, UUID, plain bytes


def engine_value(col, v):
    """Canonical vdrive JSON encoding of python value v as the engine should return it."""
    if v is None:
        return None
    p, lg = col.phys, col.logical
    pv = _phys(col, v)
    et = engine_type(col)
    if p == 'BOOLEAN':
        return pv
    if p in ('INT32', 'INT64'):
        if lg in _INTS and not _INTS[lg][1]:
            return pv & ((1 << _INTS[lg][0]) - 1)
        if lg == 'DECIMAL':
            return {'d': [pv, col.precision, col.scale]}
        if lg == 'DATE':
            return {'date': pv}
        if lg and lg.startswith('TIMESTAMP_'):
            return {'ts': [_TIMEU[lg.split('_')[1]][1], pv]}
        return pv
    if p == 'FLOAT':
        return {'f32': pv}
    if p == 'DOUBLE':
        return {'f64': pv}
    if p == 'INT96':
        return {'ts': ['ns', (pv[1] - JULIAN_EPOCH) * NANOS_PER_DAY + pv[0]]}
    if lg == 'FLOAT16':
        return {'f16': struct.unpack('<H', pv)[0]}
    if lg == 'DECIMAL':
        u = int.from_bytes(pv, 'big', signed=True)
        return {'d': [u if col.precision <= 18 else {'big': str(u)}, col.precision, col.scale]}
    if lg == 'INTERVAL':
        m, d, ms = struct.unpack('<III', pv)
        return {'iv': [m, d, ms * 10 ** 6]}
    if et == 'Utf8':
        try:
            return pv.decode('utf-8')
        except UnicodeDecodeError:
            return {'badutf8': pv.hex()}
    return {'b': pv.hex()}


_F_SPECIAL = {  # exponent bits, mantissa bits
    'FLOAT': (8, 23), 'DOUBLE': (11, 52), 'FLOAT16': (5, 10)}
_STRS = ['', 'a', 'ab', 'abc', 'abd', 'é', 'ée', '日本語', '日本', '😀', 'a\x00b', 'x' * 300, 'prefix-' * 40,
         'ß' * 70, ' ', 'NULL', 'ࠀ', '￿', '\U00010000', 'Ω≈ç√∫', 'z' * 4097]


def _rand_float_bits(kind, rng):
    e, m = _F_SPECIAL[kind]
    n = 1 + e + m
    sign, expmax = 1 << (n - 1), ((1 << e) - 1) << m
    one = ((1 << (e - 1)) - 1) << m
    special = [0, sign, expmax, sign | expmax, expmax | (1 << (m - 1)), expmax | 1,
               sign | expmax | (1 << (m - 1)) | 5, 1, sign | 1, expmax - 1, sign | (expmax - 1),
               one, sign | one, (1 << m), (1 << m) - 1]
    r = rng.random()
    if r < 0.5:
        return rng.choice(special)
    if r < 0.8:
        return one + rng.randrange(-3, 4) * (1 << (m - 2)) & ((1 << n) - 1)
    return rng.getrandbits(n)


def _rand_int(lo, hi, rng):
    r = rng.random()
    if r < 0.4:
        c = [x for x in (lo, lo + 1, -1, 0, 1, hi - 1, hi, 127, 128, 255, 256, -128, -129, 32767, 32768,
                         65535, 65536, 2 ** 31 - 1, 2 ** 31, -2 ** 31, 2 ** 32 - 1, 2 ** 32) if lo <= x <= hi]
        return rng.choice(c)
    if r < 0.7:
        return max(lo, min(hi, rng.randrange(-100, 100)))
    if r < 0.85:
        return max(lo, min(hi, rng.choice((-1, 1)) * (1 << rng.randrange(0, 64)) + rng.randrange(-1, 2)))
    return rng.randrange(lo, hi + 1)


def _rand_one(col, rng, prev):
    p, lg = col.phys, col.logical
    if p == 'BOOLEAN':
        return rng.random() < 0.5
    if lg == 'FLOAT16' or p in ('FLOAT', 'DOUBLE'):
        return Bits(_rand_float_bits('FLOAT16' if lg == 'FLOAT16' else p, rng))
    if p in ('INT32', 'INT64'):
        return _rand_int(*_logical_int_range(col), rng)
    if lg == 'DECIMAL':
        m = 10 ** col.precision - 1
        return _rand_int(-m, m, rng)
    if p == 'INT96':
        jd = rng.choice([JULIAN_EPOCH, JULIAN_EPOCH + 1, JULIAN_EPOCH - 1, JULIAN_EPOCH + 20000,
                         JULIAN_EPOCH - 20000, JULIAN_EPOCH + rng.randrange(-100000, 100000)])
        return (rng.choice([0, 1, NANOS_PER_DAY - 1, rng.randrange(NANOS_PER_DAY)]), jd)
    if p == 'FIXED_LEN_BYTE_ARRAY':
        n = col.type_length
        r = rng.random()
        if r < 0.3:
            return bytes([rng.choice((0, 0xff, 0x7f, 0x80))]) * n
        if r < 0.5 and isinstance(prev, bytes) and len(prev) == n:
            return prev[:n - 1] + bytes([rng.randrange(256)])
        return bytes(rng.getrandbits(8) for _ in range(n))
    if engine_type(col) == 'Utf8':
        r = rng.random()
        if r < 0.25 and isinstance(prev, str):
            return prev[:rng.randrange(len(prev) + 1)] + rng.choice(_STRS)[:rng.randrange(1, 6)]
        if r < 0.8:
            return rng.choice(_STRS)
        return ''.join(chr(rng.choice((rng.randrange(32, 127), rng.randrange(0xa0, 0x800),
                                       rng.randrange(0x4e00, 0x9fff), rng.randrange(0x1f600, 0x1f640))))
                       for _ in range(rng.randrange(0, 20)))
    r = rng.random()
    if r < 0.25 and isinstance(prev, bytes):
        return prev[:rng.randrange(len(prev) + 1)] + bytes(rng.getrandbits(8) for _ in range(rng.randrange(4)))
    if r < 0.5:
        return rng.choice([b'', b'\x00', b'\xff', b'\xff\xfe\x00', b'a', b'\x80' * 40, b'\x00' * 5000, b'abc'])
    return bytes(rng.getrandbits(8) for _ in range(rng.randrange(0, 24)))


def random_values(col, n, rng, null_p=0.0):
    """n boundary-biased values valid for col (None with probability null_p if optional).
    About half of the values repeat earlier ones so dictionaries and RLE runs form."""
    out, pool, prev = [], [], None
    for _ in range(n):
        if col.optional and rng.random() < null_p:
            out.append(None)
            continue
        r = rng.random()
        if pool and r < 0.2:
            v = prev
        elif pool and r < 0.5:
            v = rng.choice(pool[:6])
        else:
            v = _rand_one(col, rng, prev)
            pool.append(v)
        out.append(v)
        prev = v
    return out


# ---------------------------------------------------------------- observed engine limits
KNOWN_MAPPING_NOTES = [
    'INT32 + converted_type TIME_MILLIS (no LogicalType) is announced by the engine as Timestamp(ms) '
    '(convert.rs); a time of day is not a timestamp, and the scan then fails with "Not yet implemented: '
    'timestamp reader for physical type: (Millisecond, INT32)". engine_type() returns None for TIME_*.',
    'INT64 + LogicalType DATE would map to Date64 in convert.rs; DATE may only annotate INT32 and the '
    'schema builder rejects it first, so the arm is dead.',
    'Timestamp isAdjustedToUTC is ignored (both map to Timestamp(unit)); accepted, engine has one timestamp type.',
    'INT96 maps to Timestamp(ns) = (julian_day - 2440588) * 86400e9 + nanos_of_day (Impala/Spark convention).',
    'LogicalType DECIMAL without the legacy SchemaElement.scale/precision fields is rejected although '
    'parquet.thrift says those fields are superseded by DecimalType.',
]

# Observed with the self-test on the unchanged /repo tree.  Keys of 'types': (phys, logical, annot|'*');
# keys of 'encodings': (phys, logical|'*', writer-encoding).  Values: engine error text (prefix).
_NOTYPE = 'Cannot handle %s with logical type ... or converted type ...'
UNSUPPORTED = {
    'types': {
        ('INT32', 'TIME_MILLIS', '*'): 'no time-of-day type; Cannot handle INT32 with logical type Some(Time..) / '
                                       'converted-only: Not yet implemented: timestamp reader for (Millisecond, INT32)',
        ('INT64', 'TIME_MICROS', '*'): _NOTYPE % 'INT64',
        ('INT64', 'TIME_NANOS', '*'): _NOTYPE % 'INT64',
        ('INT64', 'TIMESTAMP_MILLIS', 'converted'): 'Cannot handle INT64 with logical type None or converted type TIMESTAMP_MILLIS',
        ('INT64', 'TIMESTAMP_MICROS', 'converted'): 'Cannot handle INT64 with logical type None or converted type TIMESTAMP_MICROS',
        ('INT32', 'DECIMAL', 'logical'): 'DECIMAL logical type scale N must match self.scale -1',
        ('INT64', 'DECIMAL', 'logical'): 'DECIMAL logical type scale N must match self.scale -1',
        ('BYTE_ARRAY', 'DECIMAL', '*'): _NOTYPE % 'BYTE_ARRAY',
        ('BYTE_ARRAY', 'ENUM', '*'): _NOTYPE % 'BYTE_ARRAY',
        ('BYTE_ARRAY', 'JSON', '*'): _NOTYPE % 'BYTE_ARRAY',
        ('BYTE_ARRAY', 'BSON', '*'): _NOTYPE % 'BYTE_ARRAY',
        ('FIXED_LEN_BYTE_ARRAY', None, '*'): _NOTYPE % 'FIXED_LEN_BYTE_ARRAY',
        ('FIXED_LEN_BYTE_ARRAY', 'UUID', '*'): _NOTYPE % 'FIXED_LEN_BYTE_ARRAY',
        ('FIXED_LEN_BYTE_ARRAY', 'INTERVAL', '*'): _NOTYPE % 'FIXED_LEN_BYTE_ARRAY',
        ('FIXED_LEN_BYTE_ARRAY', 'DECIMAL', '*'): _NOTYPE % 'FIXED_LEN_BYTE_ARRAY',
    },
    'encodings': {
        ('FIXED_LEN_BYTE_ARRAY', '*', 'DELTA_BYTE_ARRAY'): 'failed to downcast array buffer (mut) (decoder only writes Binary/Utf8)',
        ('FIXED_LEN_BYTE_ARRAY', '*', 'BYTE_STREAM_SPLIT'): 'BYTE_STREAM_SPLIT only valid for INT32, INT64, FLOAT, DOUBLE',
    },
    'other': {
        'codec': 'BROTLI, LZ4 (hadoop framing) and LZO are not produced by this writer; LZO is rejected by the engine',
        'nested': 'MAP / LIST / nested groups: not implemented in convert.rs; writer is flat-only',
    },
}


def unsupported_reason(col):
    """Reason string if the engine (as observed by the self-test) rejects this column, else None."""
    for key in ((col.phys, col.logical, col.annot), (col.phys, col.logical, '*')):
        if key in UNSUPPORTED['types']:
            return UNSUPPORTED['types'][key]
    for key in ((col.phys, col.logical, col.encoding), (col.phys, '*', col.encoding)):
        if key in UNSUPPORTED['encodings']:
            return UNSUPPORTED['encodings'][key]
    return None
