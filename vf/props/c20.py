"""C20 -- string and pattern functions are Unicode-correct; LIKE rewrites are equivalent.

Runs the real engine on generated (string, argument) tuples and judges every returned value with the
code-point reference in vf/strref.py:

* every function of docs/sql/functions/string.md and regexp.md, in three evaluation contexts that must all
  agree with the reference (arguments from table columns incl. NULL in every position / under a WHERE that
  leaves a selection / all-constant, i.e. folded), plus "string column x constant pattern" for the functions
  that specialise on a constant second argument (starts_with, ends_with, contains, regexp_*);
* LIKE: all patterns x all strings up to a length bound over {a, b, e-acute, %, _, backslash} in the forms
  constant pattern / optimizer on (rewritten to =, starts_with, ends_with, contains), constant pattern /
  optimizer off, pattern from a column, NOT LIKE and WHERE, all against a small reference matcher;
  long strings (> 12 bytes, shared 4-byte prefixes) x prefix/suffix/contains patterns; strings with newlines;
* every returned string must be valid UTF-8 (the driver reports {"badutf8": hex} otherwise).

Argument tuples of classes that are known to hang or panic (so would take a whole batch with them) are run as
single-statement probe cases under a CPU limit instead; a batch that fails unexpectedly is re-run tuple by tuple.
"""
import json, re, itertools
from vf import run as vrun
from vf import strref as R
from vf.core import outcome_signature, strip_numbers
from vf.strref import ERR

E_ACUTE = "\u00e9"
SHARP_S = "\u00df"
DZ = "\u01c6"
HAN = "\ud55c"
GRIN = "\U0001F600"
COMB = "e\u0301"

ALPHA = ["a", "b", "B", " ", "\n", E_ACUTE, SHARP_S, DZ, HAN, GRIN, COMB, "%", "_", "\\", ".", "*", "[", "("]
SUB = ["a", "B", " ", E_ACUTE, HAN, GRIN, SHARP_S, "."]
ASCII_UNITS = [u for u in ALPHA if u.isascii()]
LIKE_ALPHA = ["a", "b", E_ACUTE, "%", "_", "\\"]
PREFIXES = ["abcd", "ab" + E_ACUTE, GRIN, "a" + HAN, "abc" + E_ACUTE, "abc" + SHARP_S, "abc" + DZ]

PROBE_CPU_S = 5
ENV = {"RUST_LIB_BACKTRACE": "0"}     # DbError captures a backtrace per error (2-8 s CPU each in this build when enabled)


# ----------------------------------------------------------------------------------------------------------------------
# strings

def all_strings(alpha, maxlen):
    out = [""]
    for n in range(1, maxlen + 1):
        out += ["".join(t) for t in itertools.product(alpha, repeat=n)]
    return out


def blen(s):
    return len(s.encode("utf-8"))


def gen_bytes(rng, target, alpha=ALPHA, head=""):
    """Random string over `alpha` with exactly `target` UTF-8 bytes (if head fits)."""
    s = head
    while True:
        room = target - blen(s)
        if room <= 0:
            return s
        fits = [u for u in alpha if blen(u) <= room]
        if not fits:
            return s
        s += rng.choice(fits)


def gen_random(rng, alpha=ALPHA):
    r = rng.random()
    if r < 0.45:
        target = rng.choice([11, 12, 13])
    elif r < 0.65:
        target = rng.randint(0, 10)
    else:
        target = rng.randint(14, 40)
    return gen_bytes(rng, target, alpha)


def gen_prefixed(rng, alpha=ALPHA):
    head = rng.choice(PREFIXES)
    target = rng.choice([12, 13, 13, 14, 16, 20, 25, 33, 40])
    return gen_bytes(rng, max(target, blen(head)), alpha, head)


I64_MIN, I64_MAX = -2 ** 63, 2 ** 63 - 1


def lit(v):
    if v is None:
        return "NULL"
    if isinstance(v, int):
        if v == I64_MIN:
            return "(-9223372036854775807 - 1)"      # the literal -9223372036854775808 itself does not parse as BIGINT
        return str(v)
    assert "'" not in v
    return "'" + v + "'"


def clit(v, kind):
    """literal for the all-constant context (typed NULLs)."""
    if v is None:
        return "NULL::text" if kind == "s" else "NULL::bigint"
    return lit(v)


# ----------------------------------------------------------------------------------------------------------------------
# forms

def extreme(args):
    return any(isinstance(a, int) and abs(a) >= 2 ** 62 for a in args)


def default_cls(args):
    for a in args:
        if a is None:
            return "null"
    if extreme(args):
        return "int-extreme"
    for a in args:
        if isinstance(a, str) and not a.isascii():
            return "multibyte"
    return "ascii"


class Form:
    def __init__(self, fn, label, tmpl, kinds, ref, cls=None, risky=None, masks=(), domain=None, ctxs=("col", "sel", "const")):
        self.fn, self.label, self.tmpl, self.kinds, self.ref = fn, label, tmpl, kinds, ref
        self._cls, self._risky, self.masks, self.domain, self.ctxs = cls, risky, masks, domain, ctxs
        cols, si, ni = [], 0, 0
        for k in kinds:
            if k == "s":
                si += 1
                cols.append(f"s{si}")
            else:
                ni += 1
                cols.append(f"n{ni}")
        self.cols = cols

    def cls(self, args):
        d = default_cls(args)
        if d in ("null", "int-extreme") or self._cls is None:
            return d
        return self._cls(args) or d

    def expected(self, args):
        if any(a is None for a in args):
            return [None]
        return self.ref(*args)

    def risky(self, args):
        """class name if this tuple must be run on its own (may hang / panic / legitimately fail)."""
        if any(a is None for a in args):
            return None
        if extreme(args):
            return "int-extreme"
        if self._risky is not None:
            r = self._risky(args)
            if r:
                return r
        if ERR in self.ref(*args):
            return self.cls(args)
        return None

    def expr_cols(self, const=None):
        """SQL with column references; `const` = {argindex: value} replaces some by literals."""
        parts = []
        for i, c in enumerate(self.cols):
            parts.append(lit(const[i]) if const and i in const else c)
        return self.tmpl.format(*parts)

    def expr_const(self, args):
        return self.tmpl.format(*[clit(a, k) for a, k in zip(args, self.kinds)])


def canonical(form):
    """is this form the canonical spelling of its function (as opposed to an alias / alternative syntax)?"""
    return form.label == form.fn or form.label.startswith(form.fn + "/")


def cls_substring(args):
    if args[1] <= 0:
        return "start<=0"
    if len(args) > 2 and args[2] < 0:
        return "neg-count"
    return None


def risky_substring(args):
    return "start<=0" if args[1] <= 0 else None     # start <= 0 spins for 2^64 iterations on the unrepaired tree


def cls_pad(args):
    s, n = args[0], args[1]
    if n < 0:
        return "neg-count"
    if n < len(s):
        return "truncate-multibyte" if not s.isascii() else "truncate"
    if len(args) > 2 and args[2] == "":
        return "empty-pad"
    return None


def risky_lpad(args):
    s, n = args[0], args[1]
    if n < 0:
        return "neg-count"
    if n < len(s) and not s.isascii():
        return "truncate-multibyte"
    return None


def cls_split(args):
    s, d, n = args
    if n == 0:
        return "n=0"
    if d == "":
        return "empty-delim"
    if n < 0 and s.split(d) != s.rsplit(d):
        return "neg-n-overlapping-delim"
    return None


def cls_like(args):
    if "\\" in args[1]:
        return "escape"
    return None


def dom_nonnullable(args):
    return args[1] is None or args[1] not in R.NULLABLE


def dom_small_count(args):
    return args[1] is None or args[1] <= 1000      # larger counts only exhaust memory (out of scope here)


def dom_like(args):
    return args[0] is None or "\n" not in args[0]     # newline subjects are the LIKE section's own experiment


U = "s"
FORMS = {
    "U": [
        Form("length", "length", "length({0})", "s", R.r_length),
        Form("length", "char_length", "char_length({0})", "s", R.r_length),
        Form("length", "character_length", "character_length({0})", "s", R.r_length),
        Form("byte_length", "byte_length", "byte_length({0})", "s", R.r_byte_length),
        Form("byte_length", "octet_length", "octet_length({0})", "s", R.r_byte_length),
        Form("bit_length", "bit_length", "bit_length({0})", "s", R.r_bit_length),
        Form("upper", "upper", "upper({0})", "s", R.r_upper),
        Form("lower", "lower", "lower({0})", "s", R.r_lower),
        Form("reverse", "reverse", "reverse({0})", "s", R.r_reverse),
        Form("initcap", "initcap", "initcap({0})", "s", R.r_initcap),
        Form("ascii", "ascii", "ascii({0})", "s", R.r_ascii),
        Form("btrim", "trim/1", "trim({0})", "s", R.r_trim),
        Form("btrim", "btrim/1", "btrim({0})", "s", R.r_trim),
        Form("ltrim", "ltrim/1", "ltrim({0})", "s", R.r_ltrim),
        Form("rtrim", "rtrim/1", "rtrim({0})", "s", R.r_rtrim),
        Form("md5", "md5", "md5({0})", "s", R.r_md5),
        Form("concat", "concat/1", "concat({0})", "s", R.r_concat),
    ],
    "SS": [
        Form("btrim", "trim/2", "trim({0}, {1})", "ss", R.r_trim),
        Form("btrim", "btrim/2", "btrim({0}, {1})", "ss", R.r_trim),
        Form("ltrim", "ltrim/2", "ltrim({0}, {1})", "ss", R.r_ltrim),
        Form("rtrim", "rtrim/2", "rtrim({0}, {1})", "ss", R.r_rtrim),
        Form("strpos", "strpos", "strpos({0}, {1})", "ss", R.r_strpos),
        Form("strpos", "instr", "instr({0}, {1})", "ss", R.r_strpos),
        Form("strpos", "position-in", "position({1} in {0})", "ss", R.r_strpos),
        Form("starts_with", "starts_with", "starts_with({0}, {1})", "ss", R.r_starts_with, masks=((1,),)),
        Form("starts_with", "prefix", "prefix({0}, {1})", "ss", R.r_starts_with, masks=((1,),)),
        Form("ends_with", "ends_with", "ends_with({0}, {1})", "ss", R.r_ends_with, masks=((1,),)),
        Form("ends_with", "suffix", "suffix({0}, {1})", "ss", R.r_ends_with, masks=((1,),)),
        Form("contains", "contains", "contains({0}, {1})", "ss", R.r_contains, masks=((1,),)),
        Form("like", "like-fn", "like({0}, {1})", "ss", R.r_like, cls=cls_like, domain=dom_like, ctxs=("col", "sel")),
        Form("like", "like-op", "({0} like {1})", "ss", R.r_like, cls=cls_like, domain=dom_like, ctxs=("col", "sel")),
        Form("concat", "concat-op/2", "({0} || {1})", "ss", R.r_concat),
        Form("concat", "concat/2", "concat({0}, {1})", "ss", R.r_concat),
    ],
    "SI": [
        Form("substring", "substring/2", "substring({0}, {1})", "si", R.r_substring, cls=cls_substring, risky=risky_substring),
        Form("substring", "substr/2", "substr({0}, {1})", "si", R.r_substring, cls=cls_substring, risky=risky_substring),
        Form("substring", "substring-from", "substring({0} from {1})", "si", R.r_substring, cls=cls_substring, risky=risky_substring),
        Form("left", "left", "left({0}, {1})", "si", R.r_left),
        Form("right", "right", "right({0}, {1})", "si", R.r_right),
        Form("lpad", "lpad/2", "lpad({0}, {1})", "si", R.r_lpad, cls=cls_pad, risky=risky_lpad, domain=dom_small_count),
        Form("rpad", "rpad/2", "rpad({0}, {1})", "si", R.r_rpad, cls=cls_pad, domain=dom_small_count),
        Form("repeat", "repeat", "repeat({0}, {1})", "si", R.r_repeat, domain=dom_small_count),
    ],
    "SII": [
        Form("substring", "substring/3", "substring({0}, {1}, {2})", "sii", R.r_substring, cls=cls_substring, risky=risky_substring),
        Form("substring", "substr/3", "substr({0}, {1}, {2})", "sii", R.r_substring, cls=cls_substring, risky=risky_substring),
        Form("substring", "substring-from-for", "substring({0} from {1} for {2})", "sii", R.r_substring, cls=cls_substring, risky=risky_substring),
    ],
    "SIS": [
        Form("lpad", "lpad/3", "lpad({0}, {1}, {2})", "sis", R.r_lpad, cls=cls_pad, risky=risky_lpad, domain=dom_small_count),
        Form("rpad", "rpad/3", "rpad({0}, {1}, {2})", "sis", R.r_rpad, cls=cls_pad, domain=dom_small_count),
    ],
    "SSS": [
        Form("replace", "replace", "replace({0}, {1}, {2})", "sss", R.r_replace),
        Form("translate", "translate", "translate({0}, {1}, {2})", "sss", R.r_translate),
        Form("concat", "concat/3", "concat({0}, {1}, {2})", "sss", R.r_concat),
        Form("concat", "concat-op/3", "({0} || {1} || {2})", "sss", R.r_concat),
    ],
    "SSI": [
        Form("split_part", "split_part", "split_part({0}, {1}, {2})", "ssi", R.r_split_part, cls=cls_split),
    ],
    "RS": [
        Form("regexp_like", "regexp_like", "regexp_like({0}, {1})", "ss", R.r_regexp_like, masks=((1,),)),
        Form("regexp_count", "regexp_count", "regexp_count({0}, {1})", "ss", R.r_regexp_count, masks=((1,),), domain=dom_nonnullable),
        Form("regexp_instr", "regexp_instr", "regexp_instr({0}, {1})", "ss", R.r_regexp_instr, masks=((1,),), domain=dom_nonnullable),
    ],
    "RSS": [
        Form("regexp_replace", "regexp_replace", "regexp_replace({0}, {1}, {2})", "sss", R.r_regexp_replace, masks=((1,), (2,), (1, 2))),
    ],
}


# ----------------------------------------------------------------------------------------------------------------------
# argument tuples per group

def units_of(s):
    """split into alphabet units (the combining pair stays together only when it came as a unit; code points otherwise)."""
    return list(s)


def second_args(rng, s, k):
    cands = ["", s]
    n = len(s)
    if n:
        i = rng.randint(0, n)
        j = rng.randint(0, n)
        cands += [s[:i], s[j:], s[min(i, j):max(i, j)], s[rng.randrange(n)], s[0] + s[-1], s[-1] + rng.choice(ALPHA) + s[0]]
    cands += [rng.choice(ALPHA), rng.choice(ALPHA) + rng.choice(ALPHA), s + rng.choice(ALPHA), rng.choice(ALPHA) + s,
              "%", "_", s[:1] + "%", "%" + s[-1:], "%" + s[1:2] + "%", s[:1] + "_" * max(0, n - 1)]
    out = []
    for c in rng.sample(cands, len(cands)):
        if c not in out:
            out.append(c)
        if len(out) >= k:
            break
    return out


def int_sweep(s):
    return list(range(-3, len(s) + 4))


def gen_tuples(group, rng, small, rand, thorough):
    out = []
    pool = small + rand
    if group == "U":
        return [(s,) for s in pool]
    if group == "SS":
        k = 6 if thorough else 3
        for s in pool:
            out += [(s, t) for t in second_args(rng, s, k)]
        return out
    if group == "SI":
        for s in pool:
            sw = int_sweep(s) + [100]
            if not (thorough and len(s) <= 3):
                sw = rng.sample(sw, 3 if not thorough else 5)
            out += [(s, n) for n in sw]
        return out
    if group == "SII":
        for s in pool:
            sw = int_sweep(s)
            cw = list(range(-2, len(s) + 4))
            if thorough and len(s) <= 2:
                out += [(s, n, m) for n in sw for m in cw]
            else:
                for _ in range(6 if thorough else 3):
                    out.append((s, rng.choice(sw), rng.choice(cw + [100])))
        return out
    if group == "SIS":
        pads = ["", "x", "xy", E_ACUTE + HAN, GRIN, " ", "ab" + GRIN, COMB, "%"]
        for s in pool:
            sw = int_sweep(s) + [len(s) + 5, len(s) + 8]
            for _ in range(5 if thorough else 2):
                out.append((s, rng.choice(sw), rng.choice(pads)))
        return out
    if group == "SSS":
        tos = ["", "X", HAN, GRIN + "e", "\\", "%_"]
        for s in pool:
            n = len(s)
            for _ in range(5 if thorough else 2):
                r = rng.random()
                if n and r < 0.35:
                    frm = s[rng.randrange(n)]
                elif n and r < 0.6:
                    i = rng.randrange(n)
                    frm = s[i:i + rng.randint(1, 3)]
                elif n and r < 0.8:
                    frm = "".join(rng.choice(s) for _ in range(rng.randint(1, 3)))
                elif r < 0.9:
                    frm = ""
                else:
                    frm = rng.choice(ALPHA)
                to = rng.choice(tos + [frm + frm, "".join(rng.choice(ALPHA) for _ in range(rng.randint(1, 3)))])
                out.append((s, frm, to))
        return out
    if group == "SSI":
        for s in pool:
            n = len(s)
            for _ in range(5 if thorough else 2):
                r = rng.random()
                if n and r < 0.5:
                    d = s[rng.randrange(n)]
                elif n > 1 and r < 0.75:
                    i = rng.randrange(n - 1)
                    d = s[i:i + 2]
                elif r < 0.85:
                    d = ""
                else:
                    d = rng.choice(ALPHA)
                out.append((s, d, rng.randint(-4, 4)))
        return out
    pats = [p for (p, _, _) in R.REGEX_PATTERNS]
    if group == "RS":
        for s in pool:
            out += [(s, p) for p in rng.sample(pats, 6 if thorough else 2)]
        return out
    if group == "RSS":
        reps = ["", "X", HAN, "\\1", "<\\2\\1>", "\\\\", "%_", "a\\.b", GRIN]
        for s in pool:
            out += [(s, p, rng.choice(reps)) for p in rng.sample(pats, 4 if thorough else 2)]
        return out
    raise KeyError(group)


# tuples that are part of every run (one or two per argument class that matters), so that each class is exercised at every seed
FIXED = {
    "U": [("hello world",), ("tsch\u00fc\u00df",), ("a-b_c.d,e(f " + DZ + "x",)],
    "SS": [("->hello<", "<>-"), ("ab", "a\\b"), ("a" + E_ACUTE + "b", E_ACUTE), ("abc", "")],
    "SI": [(HAN + "a", 1), (E_ACUTE + HAN + "a", 2), ("ab", -1), ("hello", 0), ("a" + E_ACUTE + "b", 2),
           ("alphabet", 3), (GRIN * 3, 2), ("abcdefghijklm", 12), ("abcdefghijklm", 13), ("abc", I64_MIN), ("abc", I64_MAX)],
    "SII": [("hello", 0, 3), ("hello", -1, 3), ("h" + E_ACUTE + "llo", 2, -1), ("hello", 2, 0), ("hello", 2, 100), (GRIN * 4, 2, 2),
            ("abc", 2, I64_MAX), ("abc", I64_MAX, 1), ("abc", I64_MIN, I64_MAX)],
    "SIS": [(HAN * 2, 1, "x"), (E_ACUTE + HAN + "a", 2, "xy"), ("abc", -1, "x"), ("abc", 5, ""), ("abcdef", 3, ""), ("aaa", 6, "bb"), ("abc", I64_MIN, "x")],
    "SSS": [("abcdefabcdef", "cd", "XX"), ("12345", "143", "ax"), ("h" + E_ACUTE + "llo", E_ACUTE + "l", "e")],
    "SSI": [("abc", "", -1), ("abc", "", 1), ("a.b", ".", 0), ("a.b", ".", I64_MIN), ("a.b", ".", I64_MAX), ("aaa", "aa", -2), ("aaa", "aa", -1), ("abc~@~def~@~ghi", "~@~", 2), ("a" + E_ACUTE + "b" + E_ACUTE + "c", E_ACUTE, -1)],
    "RS": [(E_ACUTE + "a", "a"), ("abacad", "a|b"), (HAN + GRIN + "ab", "b$"), ("a\nb", "a.b")],
    "RSS": [("alphabet", "[ae]", "DOG"), ("abab", "(a)(b)", "<\\2\\1>"), (E_ACUTE + "ab", "(a|)(b)", "\\1" + HAN)],
}


# ----------------------------------------------------------------------------------------------------------------------
# building cases for the function section

CHUNK = 300
SAMPLE_FORMS = {"length", "initcap", "trim/2", "strpos", "starts_with", "like-op", "substring/2", "lpad/2", "substring/3", "rpad/3",
                "translate", "split_part", "regexp_count", "regexp_replace"}


def table_steps(kinds_cols, rows):
    """rows: list of (id, {col: value}, sel)"""
    steps = [{"sql": "create temp table t (id int, s1 text, s2 text, s3 text, n1 bigint, n2 bigint, sel boolean)"}]
    for k in range(0, len(rows), 150):
        vals = []
        for (i, cv, sel) in rows[k:k + 150]:
            vals.append("(%d, %s, %s, %s, %s, %s, %s)" % (
                i, lit(cv.get("s1")), lit(cv.get("s2")), lit(cv.get("s3")),
                lit(cv.get("n1")), lit(cv.get("n2")),
                "true" if sel else "false"))
        steps.append({"sql": "insert into t values " + ", ".join(vals), "out": "count"})
    return steps


def build_fn_case(cid, form, tuples, seed, rng, n_const):
    """One case = one form x <= CHUNK tuples, all contexts. Returns (case, plan) where plan describes each step."""
    rows = []
    for i, args in enumerate(tuples):
        cv = {c: a for c, a in zip(form.cols, args)}
        rows.append((i, cv, rng.random() < 0.5))
    steps = table_steps(form.cols, rows)
    plan = [("setup",)] * len(steps)
    steps.append({"sql": "select id, s1, s2, s3, n1, n2 from t"})
    plan.append(("echo",))
    if "col" in form.ctxs:
        steps.append({"sql": f"select id, {form.expr_cols()} from t"})
        plan.append(("col", None))
    if "sel" in form.ctxs:
        steps.append({"sql": f"select id, {form.expr_cols()} from t where sel"})
        plan.append(("sel", [i for (i, _, sel) in rows if sel]))
    for mask in form.masks:
        combos = []
        for args in rng.sample(tuples, len(tuples)):
            c = tuple(args[i] for i in mask)
            if None not in c and c not in combos:
                combos.append(c)
            if len(combos) >= n_const:
                break
        for c in combos:
            const = {i: v for i, v in zip(mask, c)}
            steps.append({"sql": f"select id, {form.expr_cols(const)} from t"})
            plan.append(("colconst", const))
    if "const" in form.ctxs:
        for k in range(0, len(tuples), 100):
            ids = list(range(k, min(k + 100, len(tuples))))
            steps.append({"sql": "select " + ", ".join(form.expr_const(tuples[i]) for i in ids)})
            plan.append(("const", ids))
    case = {"id": cid, "exec": {"kind": "det", "policy": "random", "seed": seed, "partitions": rng.choice([1, 2, 4])},
            "steps": steps, "max_rows": 200000}
    return case, plan


def probe_cases(cid, form, args):
    """Single-tuple cases: folded constant, and one-row table."""
    c1 = {"id": cid + "/const", "steps": [{"sql": "select " + form.expr_const(args)}]}
    cv = {c: a for c, a in zip(form.cols, args)}
    steps = table_steps(form.cols, [(0, cv, True)])
    steps.append({"sql": f"select id, {form.expr_cols()} from t"})
    c2 = {"id": cid + "/col", "steps": steps}
    return [c1, c2]


# ----------------------------------------------------------------------------------------------------------------------
# judging values

def panic_sig(fn, st):
    msg = st.get("panic_msg") or ""
    msg = strip_numbers(re.split(r"[`';]", msg)[0]).strip()[:80]
    loc = st.get("panic_loc") or ""
    site = loc.split("/repo/crates/", 1)[1].rsplit(":", 2)[0] if "/repo/crates/" in loc else outcome_signature(st).get("frame", "")
    site = re.sub(r":\d+$", "", site)
    return {"kind": "panic", "fn": fn, "message": msg, "site": site}


class Agg:
    """collect violations by signature so that each is reported once with counts and examples."""

    def __init__(self, chk):
        self.chk = chk
        self.by = {}

    def add(self, sig, example, replay):
        key = json.dumps(sig, sort_keys=True)
        e = self.by.get(key)
        if e is None:
            e = self.by[key] = {"sig": sig, "n": 0, "examples": [], "replay": replay() if callable(replay) else replay}
        e["n"] += 1
        if len(e["examples"]) < 6:
            e["examples"].append(example)

    def flush(self):
        for key in sorted(self.by):
            e = self.by[key]
            text = f"{e['n']} occurrence(s); examples:\n" + "\n".join("  " + x for x in e["examples"])
            self.chk.violation(e["sig"], text, e["replay"])


def show(v):
    return json.dumps(v, ensure_ascii=False)


def judge_value(agg, form, ctx, args, got, col_value, replay, sql):
    """got: engine JSON value. col_value: (present, value) the column-context result for the same tuple (for the
    non-column contexts) so that one defect is reported once and context disagreements separately."""
    want = form.expected(args)
    if sql is None:
        sql = "select " + form.expr_const(args)
    if isinstance(got, dict) and "badutf8" in got:
        agg.add({"kind": "invalid-utf8", "fn": form.fn, "class": form.cls(args)},
                f"{sql} with args {show(args)} returned invalid UTF-8 bytes {got['badutf8']} [{ctx}]", replay)
        return False
    if isinstance(got, dict):
        agg.add({"kind": "wrong-type", "fn": form.fn}, f"{sql} args {show(args)} -> {show(got)} [{ctx}]", replay)
        return False
    ok = any((w is not ERR) and type(w) == type(got) and w == got for w in want)
    if ok:
        return True
    wtxt = " or ".join("error" if w is ERR else show(w) for w in want)
    if ctx == "col" or col_value is None:
        agg.add({"kind": "wrong-value", "fn": form.fn, "class": form.cls(args)},
                f"{form.label}: {sql} with {show(list(args))} -> {show(got)}; expected {wtxt} [{ctx}]", replay)
    elif col_value[0] and col_value[1] == got and type(col_value[1]) == type(got):
        pass        # same wrong value as in the column context: already reported there
    else:
        agg.add({"kind": "context-disagree", "fn": form.fn, "ctx": ctx, "class": form.cls(args)},
                f"{form.label}: {sql} with {show(list(args))} -> {show(got)} in context {ctx}, but {show(col_value[1]) if col_value[0] else 'n/a'} "
                f"from columns; expected {wtxt}", replay)
    return False


def mini_replay(form, args):
    return {"cases": probe_cases("replay", form, args), "run_kw": {"cpu_s": 20, "env": ENV}}


def judge_fn_case(chk, agg, case, plan, form, tuples, res, retry):
    """retry: list to which (form, tuples, why) is appended when a batch failed and must be isolated."""
    cid = case["id"]
    if res is None or "not_run" in res or "fatal" in res:
        chk.inconc("case not run: " + str((res or {}).get("not_run") or (res or {}).get("fatal") or "missing")[:50])
        return
    if "died" in res:
        retry.append((form, tuples, "died:" + json.dumps(outcome_signature(res))))
        return
    steps = res["steps"]
    for st, pl in zip(steps, plan):
        if pl[0] == "setup" and st["outcome"] not in ("rows", "empty"):
            chk.inconc("function table could not be loaded: " + (st.get("error") or st["outcome"])[:60])
            return
    colvals = {}
    failed = None
    for k, (st, pl) in enumerate(zip(steps, plan)):
        kind = pl[0]
        if kind == "setup":
            continue
        sql = case["steps"][k]["sql"]
        if st["outcome"] == "skipped":
            continue
        if st["outcome"] != "rows":
            if kind == "echo":
                chk.inconc("echo of loaded strings failed")
                return
            if failed is None:
                failed = f"{kind}:{st['outcome']}:{(st.get('error') or st.get('panic_msg') or '')[:80]}"
            continue
        if kind == "echo":
            got = {r[0]: r[1:] for r in st["rows"]}
            for i, args in enumerate(tuples):
                cv = {c: a for c, a in zip(form.cols, args)}
                want = [cv.get("s1"), cv.get("s2"), cv.get("s3"), cv.get("n1"), cv.get("n2")]
                if got.get(i) != want:
                    agg.add({"kind": "literal-roundtrip"}, f"inserted {show(want)} reads back {show(got.get(i))}", {"cases": [case]})
                    return
            continue
        if kind in ("col", "sel", "colconst"):
            got = {}
            dup = False
            for r in st["rows"]:
                if r[0] in got:
                    dup = True
                got[r[0]] = r[1]
            want_ids = list(pl[1]) if kind == "sel" else list(range(len(tuples)))
            if dup or sorted(got) != sorted(want_ids):
                agg.add({"kind": "row-set", "fn": form.fn, "ctx": kind}, f"{cid}: {sql[:200]} returned ids {sorted(got)[:10]}.. expected {want_ids[:10]}.. dup={dup}", {"cases": [case]})
                continue
            n_ok = 0
            sql_expr = form.expr_cols(pl[1] if kind == "colconst" else None)
            for i in want_ids:
                args = tuples[i]
                if kind == "colconst":
                    args = tuple(pl[1].get(j, a) for j, a in enumerate(args))
                    if form.domain and not form.domain(args):
                        continue
                    if form.risky(args):
                        continue
                chk.evaluated()
                cv = None if kind == "col" else ((i in colvals, colvals.get(i)) if kind == "sel" else None)
                ok = judge_value(agg, form, kind, args, got[i], cv, (lambda f=form, a=args: mini_replay(f, a)), sql_expr)
                if kind == "col":
                    colvals[i] = got[i]
                    chk.nontrivial((form.label, args))
                n_ok += ok
            chk.count(f"ctx_{kind}", len(want_ids))
            chk.count(f"fn_{form.label}", len(want_ids))
            chk.nontrivial((form.label, kind))
            if kind == "col" and cid.endswith("/0") and want_ids and form.label in SAMPLE_FORMS:
                i = want_ids[len(want_ids) // 2]
                chk.sample({"form": form.label, "sql": sql, "args": list(tuples[i]), "got": got[i], "accepted": ["<error>" if w is ERR else w for w in form.expected(tuples[i])]}, cap=14)
            continue
        if kind == "const":
            ids = pl[1]
            row = st["rows"][0] if st["rows"] else []
            if len(row) != len(ids):
                agg.add({"kind": "row-set", "fn": form.fn, "ctx": "const"}, f"{cid}: constant select returned {len(row)} columns for {len(ids)} expressions", {"cases": [case]})
                continue
            for i, g in zip(ids, row):
                args = tuples[i]
                chk.evaluated()
                judge_value(agg, form, "const", args, g, (i in colvals, colvals.get(i)) if "col" in form.ctxs else None, (lambda f=form, a=args: mini_replay(f, a)), None)
            chk.count("ctx_const", len(ids))
            chk.count(f"fn_{form.label}", len(ids))
            chk.nontrivial((form.label, "const"))
    if failed is not None:
        retry.append((form, tuples, failed))
    else:
        for args in tuples:
            chk.nontrivial((form.label, form.cls(args)))


def run_probes(pcases, alone):
    """Probe cases run under a CPU limit so that a statement that spins is killed. Cases of classes expected to spin (`alone`:
    set of ids) get a driver process and a small limit each; the others share processes (six per process, generous limit) and
    any of them that is killed at the limit is run once more on its own before it counts as a hang."""
    from concurrent.futures import ThreadPoolExecutor
    solo = [c for c in pcases if c["id"] in alone]
    rest = [c for c in pcases if c["id"] not in alone]
    ng = max(1, (len(rest) + 5) // 6)
    groups = [rest[i::ng] for i in range(ng)]
    out = {}

    def cpu_killed(r):
        return "died" in r and outcome_signature(r).get("class") in ("cpu-limit", "watchdog")

    with ThreadPoolExecutor(max_workers=16) as ex:
        jobs = [([c], PROBE_CPU_S) for c in solo] + [(g, 10) for g in groups if g]
        for r, _ in ex.map(lambda j: vrun.run_cases(j[0], cpu_s=j[1], wall_s=60 * len(j[0]), env=ENV), jobs):
            out.update(r)
        again = [c for c in pcases if c["id"] not in out or "not_run" in out[c["id"]] or "fatal" in out[c["id"]]
                 or (c["id"] not in alone and cpu_killed(out[c["id"]]))]
        for r, _ in ex.map(lambda c: vrun.run_cases([c], cpu_s=PROBE_CPU_S * 2, wall_s=120, env=ENV), again):
            out.update(r)
    return out


def judge_probe(chk, agg, form, args, ctx, case, res, expected_class):
    """single-tuple case: value must be acceptable, or an error where the reference allows one; never a hang/panic."""
    chk.evaluated()
    chk.count("probes")
    cls = expected_class or form.cls(args)
    sql = case["steps"][-1]["sql"]
    replay = {"cases": [case], "run_kw": {"cpu_s": 20, "env": ENV}}
    if res is None or "not_run" in res or "fatal" in res:
        chk.inconc("probe not run: " + strip_numbers(str((res or {}).get("not_run") or (res or {}).get("fatal") or "missing"))[:60])
        return
    if "died" in res:
        sig = outcome_signature(res)
        if sig.get("class") in ("cpu-limit", "watchdog"):
            agg.add({"kind": "hang", "fn": form.fn, "class": cls}, f"{form.label}: {sql} with {show(list(args))} did not finish within {PROBE_CPU_S}s CPU [{ctx}]", replay)
        elif sig.get("class") == "panic":
            agg.add({"kind": "panic", "fn": form.fn, "message": sig.get("message", "")[:80], "site": sig.get("frame", "")}, f"{form.label}: {sql} killed the process: {json.dumps(res['died'])[:300]}", replay)
        else:
            agg.add({"kind": "died", "fn": form.fn, "class": cls, "how": sig.get("class")}, f"{form.label}: {sql}: {json.dumps(res['died'])[:300]}", replay)
        chk.nontrivial((form.label, "probe", cls, "died"))
        return
    for st in res["steps"][:-1]:
        if st["outcome"] not in ("rows", "empty"):
            chk.inconc("probe setup failed")
            return
    st = res["steps"][-1]
    chk.nontrivial((form.label, "probe", ctx, cls, st["outcome"]))
    want = form.expected(args)
    if st["outcome"] == "panic":
        agg.add(panic_sig(form.fn, st), f"{form.label}: {sql} with {show(list(args))} -> panic {st.get('panic_msg')} @ {st.get('panic_loc')} [{ctx}]", replay)
        return
    if st["outcome"] == "error":
        if ERR not in want:
            agg.add({"kind": "unexpected-error", "fn": form.fn, "class": cls}, f"{form.label}: {sql} -> error {(st.get('error') or '')[:200]}; expected {show([w for w in want])} [{ctx}]", replay)
        return
    if st["outcome"] != "rows":
        agg.add({"kind": "outcome", "fn": form.fn, "class": st["outcome"]}, f"{form.label}: {sql} -> {st['outcome']}", replay)
        return
    row = st["rows"][0]
    got = row[-1]
    judge_value(agg, form, "probe-" + ctx, args, got, None, replay, sql)


# ----------------------------------------------------------------------------------------------------------------------
# invalid regular expressions arriving from a column

BAD_REGEX = ["(", "[", "*a", "\\", "a{2,1}", ")"]
BAD_FORMS = [("regexp_like", "regexp_like(s, p)", R.r_regexp_like, False), ("regexp_count", "regexp_count(s, p)", R.r_regexp_count, 0),
             ("regexp_instr", "regexp_instr(s, p)", R.r_regexp_instr, 0), ("regexp_replace", "regexp_replace(s, p, r)", None, "s"),
             ("regexp_replace", "regexp_replace(s, p, 'X')", None, "s")]


def bad_regex_cases():
    """rows with a valid pattern around rows with invalid ones; one statement per case (a crash must not hide the others)."""
    rows = [(0, "aaa", "a", "X")]
    for k, b in enumerate(BAD_REGEX):
        rows.append((1 + 2 * k, "a" + HAN + "a" * k, b, "X"))
        rows.append((2 + 2 * k, "bab", "a|b", "X"))
    out = []
    for n, (fn, expr, ref, neutral) in enumerate(BAD_FORMS):
        for ctx, sql in (("column", f"select id, {expr} from t"), ("constant", None)):
            if ctx == "constant":
                steps = [{"sql": "select " + expr.replace("(s, p", "('aaa', '('").replace(", r)", ", 'X')")}]
            else:
                steps = [{"sql": "create temp table t (id int, s text, p text, r text)"},
                         {"sql": "insert into t values " + ", ".join(f"({i}, {lit(a)}, {lit(b)}, {lit(c)})" for (i, a, b, c) in rows)},
                         {"sql": sql}]
            out.append(({"id": f"badre/{n}/{ctx}", "steps": steps}, (fn, expr, ref, neutral, ctx, rows)))
    return out


def judge_bad_regex(chk, agg, case, ex, res):
    fn, expr, ref, neutral, ctx, rows = ex
    chk.evaluated()
    chk.count("invalid_regex_probes")
    replay = {"cases": [case], "run_kw": {"cpu_s": 20, "env": ENV}}
    cls = "invalid-pattern-from-" + ctx
    if res is None or "not_run" in res or "fatal" in res:
        chk.inconc("probe not run")
        return
    if "died" in res:
        agg.add({"kind": "crash", "fn": fn, "class": cls}, f"{case['steps'][-1]['sql']} (patterns {show(BAD_REGEX)}) killed the process: {json.dumps(res['died'].get('panic_hook') or res['died'])[:300]}", replay)
        return
    st = res["steps"][-1]
    chk.nontrivial(("badre", expr, ctx, st["outcome"]))
    if st["outcome"] == "error":
        return          # rejecting the pattern is the expected behaviour
    if st["outcome"] == "panic":
        agg.add({"kind": "crash", "fn": fn, "class": cls}, f"{case['steps'][-1]['sql']} -> panic {st.get('panic_msg')} @ {st.get('panic_loc')}", replay)
        return
    if st["outcome"] != "rows" or ctx == "constant":
        agg.add({"kind": "wrong-value", "fn": fn, "class": cls}, f"{case['steps'][-1]['sql']} -> {st['outcome']} {show(st.get('rows'))[:100]}; expected an error", replay)
        return
    got = {r[0]: r[1] for r in st["rows"]}
    for (i, a, b, c) in rows:
        g = got.get(i, "<missing>")
        if b in BAD_REGEX:
            ok = g is None or (g == (a if neutral == "s" else neutral) and type(g) == type(a if neutral == "s" else neutral))
            want = "an error, NULL or " + show(a if neutral == "s" else neutral)
        else:
            w = R.r_regexp_replace(a, b, c) if ref is None else ref(a, b)
            ok = g in w and type(g) == type(w[0])
            want = show(w)
        if not ok:
            agg.add({"kind": "wrong-value", "fn": fn, "class": cls if b in BAD_REGEX else "row-next-to-invalid-pattern"},
                    f"{expr} with s={show(a)}, p={show(b)} -> {show(g)}; expected {want}", replay)


# ----------------------------------------------------------------------------------------------------------------------
# LIKE section

def like_lit(s):
    """escape a literal piece for use inside a LIKE pattern"""
    return "".join("\\" + c if c in "%_\\" else c for c in s)


class LikeExp:
    """strings x patterns in every form. `name` goes into case ids and (as 'exp') into signatures only when `tag` is set."""

    def __init__(self, name, strs, pats, tag=None, pchunk=40):
        self.name, self.strs, self.pats, self.tag, self.pchunk = name, strs, pats, tag, pchunk
        self.tok = None

    def load_strs(self):
        steps = [{"sql": "create temp table ls (id int, s text)"}]
        rows = [(i, s) for i, s in enumerate(self.strs)] + [(-1, None)]
        for k in range(0, len(rows), 400):
            steps.append({"sql": "insert into ls values " + ", ".join(f"({i}, {lit(s)})" for i, s in rows[k:k + 400]), "out": "count"})
        return steps

    def cases(self, seed):
        out = []
        for k in range(0, len(self.pats), self.pchunk):
            pids = list(range(k, min(k + self.pchunk, len(self.pats))))
            proj = "select id, " + ", ".join(f"s like {lit(self.pats[p])}" for p in pids) + " from ls"
            nproj = "select id, " + ", ".join(f"s not like {lit(self.pats[p])}" for p in pids) + " from ls"
            where = " union all ".join(f"select {j} as k, id from ls where s like {lit(self.pats[p])}" for j, p in enumerate(pids))
            steps = self.load_strs()
            n0 = len(steps)
            steps += [{"sql": "select id, s from ls"},
                      {"sql": "set enable_optimizer to true"}, {"sql": proj}, {"sql": nproj}, {"sql": where},
                      {"sql": "set enable_optimizer to false"}, {"sql": proj}, {"sql": nproj}]
            plan = {"pids": pids, "echo": n0, "on": n0 + 2, "not_on": n0 + 3, "where_on": n0 + 4, "off": n0 + 6, "not_off": n0 + 7, "kind": "const"}
            out.append(({"id": f"like/{self.name}/const/{k}", "exec": {"kind": "det", "policy": "random", "seed": seed + k, "partitions": 2},
                         "steps": steps, "max_rows": 400000}, plan))
            # pattern from a column
            steps = self.load_strs()
            steps.append({"sql": "create temp table lp (id int, p text)"})
            steps.append({"sql": "insert into lp values " + ", ".join(f"({p}, {lit(self.pats[p])})" for p in pids) + ", (-1, NULL)", "out": "count"})
            n0 = len(steps)
            steps += [{"sql": "select id, p from lp"},
                      {"sql": "select p.id, s.id, s.s like p.p, s.s not like p.p from lp p, ls s"}]
            plan = {"pids": pids, "echo": n0, "col": n0 + 1, "kind": "col"}
            out.append(({"id": f"like/{self.name}/col/{k}", "exec": {"kind": "det", "policy": "random", "seed": seed + k, "partitions": 2},
                         "steps": steps, "max_rows": 400000}, plan))
        return out

    def ref_row(self, p):
        toks = R.like_tokens(self.pats[p])
        return [R.like_match_tokens(toks, s) for s in self.strs]

    def sig(self, form, p):
        pat = self.pats[p]
        if self.tag:       # dedicated experiment (newline subjects): one signature per form
            return {"kind": "like-mismatch", "form": form, "strings": self.tag}
        return {"kind": "like-mismatch", "form": form, "shape": R.like_shape(pat), "escape": "\\" in pat}

    def replay(self, form, p, s):
        pat = self.pats[p]
        steps = [{"sql": "create temp table ls (id int, s text)"}, {"sql": f"insert into ls values (0, {lit(s)})"},
                 {"sql": "create temp table lp (id int, p text)"}, {"sql": f"insert into lp values (0, {lit(pat)})"},
                 {"sql": "set enable_optimizer to " + ("false" if form.endswith("off") else "true")},
                 {"sql": f"select s, s like {lit(pat)}, s not like {lit(pat)} from ls"},
                 {"sql": "select s, p, s like p from ls, lp"}]
        return {"cases": [{"id": "replay", "steps": steps}]}

    def judge(self, chk, agg, case, plan, res):
        cid = case["id"]
        if res is None or "not_run" in res or "fatal" in res or "died" in res:
            if res is not None and "died" in res:
                agg.add(dict(outcome_signature(res), where="like"), f"{cid}: process died {json.dumps(res['died'])[:300]}", {"cases": [case]})
            else:
                chk.inconc("like case not run")
            return
        steps = res["steps"]
        for k, st in enumerate(steps):
            if st["outcome"] not in ("rows", "empty"):
                if st["outcome"] == "panic":
                    agg.add(panic_sig("like", st), f"{cid}: {case['steps'][k]['sql'][:200]} -> panic {st.get('panic_msg')} @ {st.get('panic_loc')}", {"cases": [case]})
                elif st["outcome"] == "error":
                    agg.add({"kind": "unexpected-error", "fn": "like", "form": plan["kind"]}, f"{cid}: {case['steps'][k]['sql'][:200]} -> {(st.get('error') or '')[:200]}", {"cases": [case]})
                else:
                    agg.add({"kind": "outcome", "fn": "like", "class": st["outcome"]}, f"{cid}: step {k} {st['outcome']}", {"cases": [case]})
                return
        pids = plan["pids"]
        ns = len(self.strs)
        refs = {p: self.ref_row(p) for p in pids}
        echo = steps[plan["echo"]]["rows"]
        if plan["kind"] == "const":
            if sorted((r[0], r[1]) for r in echo if r[0] >= 0) != [(i, s) for i, s in enumerate(self.strs)]:
                agg.add({"kind": "literal-roundtrip"}, f"{cid}: strings do not read back as inserted", {"cases": [case]})
                return
            tables = {}
            for form in ("on", "not_on", "off", "not_off"):
                t = {}
                for r in steps[plan[form]]["rows"]:
                    t[r[0]] = r[1:]
                if sorted(t) != list(range(-1, ns)):
                    agg.add({"kind": "row-set", "fn": "like", "ctx": form}, f"{cid}: ids {sorted(t)[:5]}..", {"cases": [case]})
                    return
                tables[form] = t
            for form, label in (("on", "const-opt-on"), ("off", "const-opt-off")):
                t = tables[form]
                nt = tables["not_" + form]
                for j, p in enumerate(pids):
                    ref = refs[p]
                    bad = 0
                    for i in range(ns):
                        g = t[i][j]
                        if g is not ref[i] :
                            bad += 1
                            agg.add(self.sig(label, p), f"{show(self.strs[i])} LIKE {show(self.pats[p])} -> {show(g)} [{label}]; reference {show(ref[i])}", (lambda lb=label, pp=p, ss=self.strs[i]: self.replay(lb, pp, ss)))
                        ng = nt[i][j]
                        if not (isinstance(g, bool) and isinstance(ng, bool) and ng == (not g)):
                            agg.add({"kind": "not-like-inconsistent", "form": label}, f"{show(self.strs[i])} NOT LIKE {show(self.pats[p])} -> {show(ng)} but LIKE -> {show(g)} [{label}]", (lambda lb=label, pp=p, ss=self.strs[i]: self.replay(lb, pp, ss)))
                    if t[-1][j] is not None or nt[-1][j] is not None:
                        agg.add({"kind": "like-null", "form": label}, f"NULL [NOT] LIKE {show(self.pats[p])} -> {show(t[-1][j])}/{show(nt[-1][j])}", {"cases": [case]})
                    chk.evaluated(2 * ns + 2)
                    chk.count("like_" + label, ns)
                    chk.count("like_not_" + label, ns)
                    chk.nontrivial(("like", self.name, label, self.pats[p]))
                    chk.nontrivial(("like-shape", label, R.like_shape(self.pats[p]), "\\" in self.pats[p]))
            # WHERE form vs projection form (same optimizer setting)
            w = {}
            for r in steps[plan["where_on"]]["rows"]:
                w.setdefault(r[0], set()).add(r[1])
            for j, p in enumerate(pids):
                proj = {i for i in range(-1, ns) if tables["on"][i][j] is True}
                chk.evaluated(ns)
                chk.count("like_where-opt-on", ns)
                if w.get(j, set()) != proj:
                    d = sorted(w.get(j, set()) ^ proj)[:3]
                    agg.add({"kind": "like-where-vs-projection", "shape": R.like_shape(self.pats[p])},
                            f"WHERE s LIKE {show(self.pats[p])} keeps a different row set than the projection computes; differing strings {[self.strs[i] for i in d if i >= 0]}", {"cases": [case]})
            return
        # column form
        if sorted((r[0], r[1]) for r in echo if r[0] >= 0) != [(p, self.pats[p]) for p in pids]:
            agg.add({"kind": "literal-roundtrip"}, f"{cid}: patterns do not read back as inserted", {"cases": [case]})
            return
        rows = steps[plan["col"]]["rows"]
        seen = set()
        for (p, i, g, ng) in rows:
            seen.add((p, i))
            if p < 0 or i < 0:
                if g is not None or ng is not None:
                    agg.add({"kind": "like-null", "form": "column"}, f"NULL operand: LIKE -> {show(g)} / NOT LIKE -> {show(ng)}", {"cases": [case]})
                continue
            want = refs[p][i]
            if g is not want:
                agg.add(self.sig("column", p), f"{show(self.strs[i])} LIKE {show(self.pats[p])} -> {show(g)} [pattern from a column]; reference {show(want)}", (lambda pp=p, ss=self.strs[i]: self.replay("column", pp, ss)))
            if not (isinstance(g, bool) and isinstance(ng, bool) and ng == (not g)):
                agg.add({"kind": "not-like-inconsistent", "form": "column"}, f"{show(self.strs[i])} NOT LIKE {show(self.pats[p])} -> {show(ng)} but LIKE -> {show(g)} [column]", (lambda pp=p, ss=self.strs[i]: self.replay("column", pp, ss)))
        if len(seen) != len(rows) or len(seen) != (len(pids) + 1) * (ns + 1):
            agg.add({"kind": "row-set", "fn": "like", "ctx": "column"}, f"{cid}: cross join returned {len(rows)} rows ({len(seen)} distinct), expected {(len(pids) + 1) * (ns + 1)}", {"cases": [case]})
        chk.evaluated(2 * len(rows))
        chk.count("like_column", len(pids) * ns)
        chk.count("like_not_column", len(pids) * ns)
        for p in pids:
            chk.nontrivial(("like", self.name, "column", self.pats[p]))
            chk.nontrivial(("like-shape", "column", R.like_shape(self.pats[p]), "\\" in self.pats[p]))


def long_like_experiment(rng, thorough):
    alpha = [u for u in ALPHA if u != "\n"]
    n = 260 if thorough else 90
    strs = []
    while len(strs) < n:
        s = gen_prefixed(rng, alpha) if rng.random() < 0.6 else gen_bytes(rng, rng.choice([11, 12, 13]), alpha)
        if s not in strs:
            strs.append(s)
    pats = []

    def add(p):
        if p not in pats:
            pats.append(p)
    for s in rng.sample(strs, len(strs)):
        L = len(s)
        i = rng.randint(1, max(1, L - 1))
        j = rng.randint(0, max(0, L - 1))
        k = rng.randint(j, L)
        pieces = [("prefix", s[:i]), ("suffix", s[j:]), ("contains", s[j:k]), ("literal", s)]
        shape, piece = rng.choice(pieces)
        for variant in (piece, piece[:-1] + ("a" if piece[-1:] != "a" else "b")):
            body = like_lit(variant)
            raw_ok = not any(c in "%_\\" for c in variant)
            for b in ([body] if raw_ok or rng.random() < 0.7 else [body, variant]):
                add({"prefix": b + "%", "suffix": "%" + b, "contains": "%" + b + "%", "literal": b}[shape])
        if rng.random() < 0.3 and L > 2:
            add(like_lit(s[:i]) + "%" + like_lit(s[k:]))
            add("_" * i + like_lit(s[i:]))
    # the 4-byte prefixes themselves, and patterns that cut inside a multi-byte character's neighbourhood
    for h in PREFIXES:
        add(like_lit(h) + "%")
        add("%" + like_lit(h))
        add("%" + like_lit(h) + "%")
    pats = pats[: (600 if thorough else 200)]
    for fp in ["a\\b", "\\a%", "%\\a", "%\\a%", "%a\\b%", "ab\\c%", "%\\%%", "\\%%", "%\\_", "abcdefghijkl", "abcdefghijklm", "abcdefghijkl%", "%bcdefghijklm", "%cdefghijkl%"]:
        add(fp)
    for fs in ["a", "ab", "xab", "abx", "xabx", "\\a", "a\\b", "xa\\bx", "abc", "%", "x%", "%x", "_", "abcdefghijkl", "abcdefghijklm", "abcdefghijklmn"]:
        if fs not in strs:
            strs.append(fs)
    return LikeExp("long", strs, pats, pchunk=40)


# ----------------------------------------------------------------------------------------------------------------------

def run(chk):
    thorough = chk.tier == "thorough"
    rng = chk.rng
    chk.rule = ("functions: every form of string.md/regexp.md (aliases and FROM/FOR syntax included) on all strings of length <= 3 over a "
                "sub-alphabet (thorough: the full 18-symbol alphabet) plus random strings of 0-40 bytes biased to 11/12/13 bytes and to long "
                "strings sharing a 4-byte prefix, with argument sweeps (positions/counts -3..len+3, empty and multi-character pads, "
                "trim sets, delimiters, from/to sets, 41 regex patterns common to Rust regex and Python re); each tuple judged in column, "
                "selection and folded-constant context (+ constant-pattern context for the specialising functions) against the code-point "
                "reference; classes known to hang/panic (substring start <= 0, lpad truncation) and extreme counts (i64 MIN/MAX) are probed one "
                "statement per case under a CPU limit; invalid regular expressions arriving from a column. LIKE: all patterns x all "
                "strings of length <= 3 (thorough: 4) over {a,b,e-acute,%,_,backslash} in the forms constant/optimizer-on, "
                "constant/optimizer-off, pattern-from-column, NOT LIKE (each), WHERE; long strings x prefix/suffix/contains/literal "
                "patterns; newline strings. distinct non-trivial = distinct (form, argument tuple) judged in column context, distinct "
                "(form, context), (form, argument class), and distinct (LIKE form, pattern).")
    chk.assumptions = [
        "Python str methods (upper/lower/title, slicing, find, replace, split) implement the Unicode code-point semantics the docs describe",
        "LIKE: backslash escapes the next character; a trailing backslash stands for itself (engine rule, like.rs); % = any sequence incl. newline, _ = any one character incl. newline (SQL standard)",
        "Python re and Rust regex agree on the 41 listed patterns (Rust '$' translated to Python '\\Z'); patterns that can match the empty string are not used for regexp_count/regexp_instr",
        "one-argument trim/ltrim/rtrim/btrim may remove spaces only or all ASCII whitespace; initcap word boundaries: either the engine's documented-in-code set or any non-alphanumeric; concat() with a NULL argument yields NULL",
        "substring with a negative count may fail, return '' or count backwards; split_part(.., 0) may fail or return ''",
    ]
    agg = Agg(chk)

    # ---- strings -----------------------------------------------------------------------------------------------------
    small = all_strings(ALPHA if thorough else SUB, 3)
    n_rand = 3000 if thorough else 320
    rand = []
    seen = set(small)
    while len(rand) < n_rand:
        s = gen_prefixed(rng) if rng.random() < 0.4 else gen_random(rng)
        if s not in seen:
            seen.add(s)
            rand.append(s)
    byte_hist = {}
    for s in rand:
        b = blen(s)
        byte_hist[b] = byte_hist.get(b, 0) + 1
    chk.extra["random_string_byte_lengths"] = {str(k): byte_hist[k] for k in sorted(byte_hist)}
    chk.extra["exhaustive_subspaces"] = [f"all {len(small)} strings of length <= 3 over {len(ALPHA if thorough else SUB)} symbols, every one-argument form"]

    # ---- argument tuples per group ------------------------------------------------------------------------------------
    bases = {}
    for group, forms in FORMS.items():
        if thorough:
            g_small, g_rand = small, rand
            if group in ("SS", "SSS", "SSI", "RS", "RSS", "SIS"):
                g_small = rng.sample(small, 2500)
        else:
            g_small, g_rand = small, rand
            if group != "U":
                g_small = rng.sample(small, 260)
                g_rand = rng.sample(rand, 200)
        fixed = FIXED.get(group, [])
        bases[group] = fixed + [t for t in gen_tuples(group, rng, g_small, g_rand, thorough) if t not in set(fixed)]

    # ---- canaries: the fixed tuples of every risky class, one statement per case, before anything is batched ----------------
    # A class whose canaries all return a value is evaluated in bulk like everything else; a class with a canary that
    # hangs, panics or fails stays out of the batches and is sampled through single-statement probes.
    import time
    t_run = time.time()
    ccases, cinfo, calone = [], {}, set()
    for group, forms in FORMS.items():
        for form in forms:
            for t in FIXED.get(group, []):
                if form.domain is not None and not form.domain(t):
                    continue
                r = form.risky(t)
                if not r or (r == "int-extreme" and not thorough and not canonical(form)):
                    continue
                pc = probe_cases(f"canary/{form.label}/{len(ccases)}", form, t)[0]
                ccases.append(pc)
                cinfo[pc["id"]] = (form, t, r)
    cres = run_probes(ccases, calone) if ccases else {}
    has_canary, unsafe = set(), set()
    for pc in ccases:
        form, t, r = cinfo[pc["id"]]
        res = cres.get(pc["id"])
        judge_probe(chk, agg, form, t, "const", pc, res, r)
        has_canary.add((form.label, r))
        if not (res and "steps" in res and res["steps"][-1]["outcome"] == "rows"):
            unsafe.add((form.label, r))
    chk.extra["classes_kept_out_of_batches"] = sorted(f"{l}:{r}" for (l, r) in unsafe)
    chk.extra["phase_s"] = {"canaries": round(time.time() - t_run, 1), "canary_cases": len(ccases)}

    # ---- function cases ----------------------------------------------------------------------------------------------
    cases = []
    info = {}
    probes = []      # (form, args, class, skip_const)
    n_const = 8 if thorough else 4
    for group, forms in FORMS.items():
        fixed = FIXED.get(group, [])
        base = bases[group]
        for form in forms:
            tuples = [t for t in base if (form.domain is None or form.domain(t))]
            bulk = []
            risky = {}
            for t in tuples:
                r = form.risky(t)
                if r and (r == "int-extreme" or (form.label, r) not in has_canary or (form.label, r) in unsafe):
                    risky.setdefault(r, []).append(t)
                else:
                    bulk.append(t)
            for r in sorted(risky):
                lst = risky[r]
                if r == "int-extreme" and not thorough and not canonical(form):
                    continue
                danger = r == "int-extreme" or (form._risky is not None and form._risky(lst[0]))
                k = (5 if danger else 12) if thorough else (0 if danger else 3)
                must = [t for t in lst if t in fixed]
                rest = [t for t in lst if t not in fixed]
                if danger and not thorough and not canonical(form):
                    must = must[:1]
                for t in must:
                    probes.append((form, t, r, (form.label, r) in has_canary))
                for t in rng.sample(rest, min(k, len(rest))):
                    probes.append((form, t, r, False))
                chk.count("risky_tuples_not_in_bulk", len(lst))
            # NULL in every argument position
            if bulk:
                t0 = bulk[0]
                nulls = [tuple(None if j == i else a for j, a in enumerate(t0)) for i in range(len(t0))] + [tuple(None for _ in t0)]
            else:
                nulls = []
            for k in range(0, len(bulk), CHUNK):
                chunk = bulk[k:k + CHUNK] + nulls
                cid = f"fn/{form.label}/{k // CHUNK}"
                case, plan = build_fn_case(cid, form, chunk, chk.seed * 1000 + len(cases), rng, n_const)
                cases.append(case)
                info[cid] = ("fn", form, chunk, plan)

    # ---- LIKE experiments --------------------------------------------------------------------------------------------
    N = 4 if thorough else 3
    lstr = all_strings(LIKE_ALPHA, N)
    exps = [LikeExp("small", lstr, lstr, pchunk=40 if thorough else 26)]
    chk.extra["exhaustive_subspaces"].append(f"LIKE: all {len(lstr)} patterns x all {len(lstr)} strings of length <= {N} over {{a,b,e-acute,%,_,backslash}}, 3 reference-judged forms + NOT LIKE + WHERE")
    exps.append(long_like_experiment(rng, thorough))
    nl_str = [s for s in all_strings(["a", "\n", "b"], 3) if "\n" in s]
    nl_pat = all_strings(["a", "%", "_", "\n"], 3)
    exps.append(LikeExp("newline", nl_str, nl_pat, tag="newline", pchunk=43))
    like_cases = []
    for e in exps:
        for case, plan in e.cases(chk.seed * 100000):
            like_cases.append(case)
            info[case["id"]] = ("like", e, plan)

    # ---- run ---------------------------------------------------------------------------------------------------------
    allc = cases + like_cases
    send = list(allc)
    # interleave so that the heavy LIKE cases spread over the shards
    rng.shuffle(send)
    t_run = time.time()
    results, meta = vrun.run_sharded(send, shards=16, wall_s=1500 if thorough else 420, cpu_s=1200 if thorough else 300, env=ENV)
    chk.extra["process_restarts"] = meta["restarts"]
    chk.extra["phase_s"].update({"bulk_run": round(time.time() - t_run, 1), "cases": len(send)})
    t_run = time.time()

    retry = []
    for c in cases:
        _, form, chunk, plan = info[c["id"]]
        judge_fn_case(chk, agg, c, plan, form, chunk, results.get(c["id"]), retry)
    for c in like_cases:
        _, e, plan = info[c["id"]]
        e.judge(chk, agg, c, plan, results.get(c["id"]))

    chk.extra["phase_s"]["bulk_judge"] = round(time.time() - t_run, 1)
    t_run = time.time()
    # ---- second round: probes for risky classes + isolation of batches that failed ----------------------------------------------
    pcases = []
    pinfo = {}
    alone = set()
    for n, (form, args, r, skip_const) in enumerate(probes):
        dangerous = (form._risky is not None and form._risky(args)) or r == "int-extreme"
        for pc in probe_cases(f"probe/{form.label}/{n}", form, args):
            if skip_const and pc["id"].endswith("/const"):
                continue        # already run as a canary
            if dangerous and not thorough and pc["id"].endswith("/col") and not canonical(form):
                continue        # quick tier: hang/panic classes are probed from a table only through the canonical spelling
            if form.fn == "substring" and dangerous:
                alone.add(pc["id"])     # spins on the unrepaired tree
            pcases.append(pc)
            pinfo[pc["id"]] = (form, args, pc["id"].rsplit("/", 1)[1], r)
    bad = bad_regex_cases()
    for pc, ex in bad:
        pcases.append(pc)
    iso_budget = 1500 if thorough else 500
    for (form, tuples, why) in retry:
        chk.count("batches_failed")
        chk.sample({"failed_batch": form.label, "why": why})
        take = [t for t in tuples if None not in t][: max(0, iso_budget)]
        iso_budget -= len(take)
        if not take:
            agg.add({"kind": "batch-failed", "fn": form.fn}, f"{form.label}: a batch failed ({why}) and could not be isolated (budget)", None)
        for n, args in enumerate(take):
            pc = probe_cases(f"iso/{form.label}/{len(pcases)}/{n}", form, args)[0]
            pcases.append(pc)
            pinfo[pc["id"]] = (form, args, "const", None)
    if pcases:
        presults = run_probes(pcases, alone)
        before = {k: v["n"] for k, v in agg.by.items()}
        for pc in pcases:
            if pc["id"] in pinfo:
                form, args, ctx, r = pinfo[pc["id"]]
                judge_probe(chk, agg, form, args, ctx, pc, presults.get(pc["id"]), r)
        for pc, ex in bad:
            judge_bad_regex(chk, agg, pc, ex, presults.get(pc["id"]))
        # a failed batch none of whose tuples fails alone
        for (form, tuples, why) in retry:
            hit = any(e["sig"].get("fn") == form.fn and e["n"] > before.get(k, 0) for k, e in agg.by.items())
            if not hit:
                agg.add({"kind": "batch-failed", "fn": form.fn, "why": strip_numbers(why)[:60]}, f"{form.label}: batch failed ({why}) but no single tuple reproduces it", None)

    chk.extra["phase_s"]["probes"] = round(time.time() - t_run, 1)
    chk.extra["phase_s"]["probe_cases"] = len(pcases)
    agg.flush()
    chk.floor(chk.evaluations > (200000 if thorough else 50000), f"only {chk.evaluations} values judged")
