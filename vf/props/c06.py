"""C06 — joins return exactly the defined pairs and unmatched rows (nested-loop oracle + conservation identities)."""
import json
from vf import run as vrun
from vf import compare, knowncases
from vf.core import outcome_signature
from vf.vals import decode

KEY_TYPES = {
    "TINYINT": lambda r: r.choice([-128, -1, 0, 1, 2, 127]),
    "SMALLINT": lambda r: r.choice([-32768, -1, 0, 1, 2, 32767]),
    "INT": lambda r: r.choice([-2147483648, -1, 0, 1, 2, 3, 2147483647]),
    "BIGINT": lambda r: r.choice([-9223372036854775807, -1, 0, 1, 2, 9223372036854775807]),
    "UTINYINT": lambda r: r.choice([0, 1, 2, 255]),
    "UINT": lambda r: r.choice([0, 1, 2, 4294967295]),
    "DOUBLE": lambda r: r.choice([-1.5, 0.0, 0.5, 1.0, 2.25, 1e300]),
    "DECIMAL(9,2)": lambda r: r.choice(["-1.50", "0.00", "0.50", "1.00", "1234567.89"]),
    "DECIMAL(30,5)": lambda r: r.choice(["-1.50000", "0.00000", "1.00000", "1234567890123456789012345.12345"]),
    "TEXT": lambda r: r.choice(["", "a", "b", "ab", "longer than twelve bytes", "longer than twelve bytez", "héllo"]),
    "DATE": lambda r: r.choice(["1970-01-01", "2000-02-29", "2024-12-31", "1969-12-31"]),
    "BOOLEAN": lambda r: r.choice([True, False]),
}


def lit(v, t):
    if v is None:
        return f"CAST(NULL AS {t})"
    if t == "TEXT":
        return "'" + v + "'"
    if t == "DATE":
        return f"DATE '{v}'"
    if t == "BOOLEAN":
        return "true" if v else "false"
    if t.startswith("DECIMAL"):
        return f"'{v}'::{t}"
    if t == "DOUBLE":
        return f"'{v!r}'::DOUBLE"
    return f"('{v}')::{t}"


def gen_side(rng, t, n, dist, null_p):
    f = KEY_TYPES[t]
    hot = f(rng)
    rows = []
    for i in range(n):
        if rng.random() < null_p:
            k = None
        elif dist == "hot" and rng.random() < 0.8:
            k = hot
        elif dist == "allnull":
            k = None
        else:
            k = f(rng)
        rows.append((i, k, rng.choice([0, 1, 2, None]), rng.randint(0, 5)))
    if dist == "unique":
        seen = set()
        out = []
        for r in rows:
            if r[1] not in seen:
                seen.add(r[1])
                out.append(r)
        rows = out
    return rows


QUERIES = [
    # (name, sql, kind, predicate(l, r) -> True/False/None)   l, r = decoded row tuples (id, k, k2, v)
    ("inner_eq", "SELECT l.id, r.id FROM l INNER JOIN r ON (l.k = r.k)", "inner", "eq"),
    ("left_eq", "SELECT l.id, r.id FROM l LEFT JOIN r ON (l.k = r.k)", "left", "eq"),
    ("right_eq", "SELECT l.id, r.id FROM l RIGHT JOIN r ON (l.k = r.k)", "right", "eq"),
    ("semi_kw", "SELECT l.id FROM l SEMI JOIN r ON (l.k = r.k)", "semi", "eq"),
    ("semi_exists", "SELECT l.id FROM l WHERE EXISTS (SELECT 1 FROM r WHERE r.k = l.k)", "semi", "eq"),
    ("semi_in", "SELECT l.id FROM l WHERE l.k IN (SELECT k FROM r)", "semi", "eq"),
    ("anti_not_exists", "SELECT l.id FROM l WHERE NOT EXISTS (SELECT 1 FROM r WHERE r.k = l.k)", "anti", "eq"),
    ("anti_not_in_nullfree", "SELECT l.id FROM l WHERE l.k IS NOT NULL AND l.k NOT IN (SELECT k FROM r WHERE k IS NOT NULL)", "anti_nn", "eq"),
    ("mark_in_nullfree", "SELECT l.id, (l.k IN (SELECT k FROM r WHERE k IS NOT NULL)) FROM l WHERE l.k IS NOT NULL", "mark_nn", "eq"),
    ("using", "SELECT l.id, r.id FROM l INNER JOIN r USING (k)", "inner", "eq"),
    ("left_using", "SELECT l.id, r.id FROM l LEFT JOIN r USING (k)", "left", "eq"),
    ("inner_eq2", "SELECT l.id, r.id FROM l INNER JOIN r ON (l.k = r.k AND l.k2 = r.k2)", "inner", "eq2"),
    ("left_eq2", "SELECT l.id, r.id FROM l LEFT JOIN r ON (l.k = r.k AND l.k2 = r.k2)", "left", "eq2"),
    ("inner_eq_ineq", "SELECT l.id, r.id FROM l INNER JOIN r ON (l.k = r.k AND l.v < r.v)", "inner", "eq_ineq"),
    ("left_eq_ineq", "SELECT l.id, r.id FROM l LEFT JOIN r ON (l.k = r.k AND l.v < r.v)", "left", "eq_ineq"),
    ("right_eq_ineq", "SELECT l.id, r.id FROM l RIGHT JOIN r ON (l.k = r.k AND l.v <> r.v)", "right", "eq_ne"),
    ("inner_ineq", "SELECT l.id, r.id FROM l INNER JOIN r ON (l.v < r.v)", "inner", "ineq"),
    ("left_ineq", "SELECT l.id, r.id FROM l LEFT JOIN r ON (l.v < r.v)", "left", "ineq"),
    ("inner_expr", "SELECT l.id, r.id FROM l INNER JOIN r ON ((l.k2 + 1) = r.k2)", "inner", "expr"),
    ("left_expr", "SELECT l.id, r.id FROM l LEFT JOIN r ON ((l.k2 + 1) = r.k2)", "left", "expr"),
    ("cross", "SELECT l.id, r.id FROM l CROSS JOIN r", "inner", "true"),
    ("comma_where", "SELECT l.id, r.id FROM l, r WHERE l.k = r.k", "inner", "eq"),
    ("lateral", "SELECT l.id, x.rid FROM l, LATERAL (SELECT r.id AS rid FROM r WHERE r.k = l.k) x", "inner", "eq"),
    ("left_on_true", "SELECT l.id, r.id FROM l LEFT JOIN r ON true", "left", "true"),
    ("semi_ineq", "SELECT l.id FROM l WHERE EXISTS (SELECT 1 FROM r WHERE r.v > l.v)", "semi", "ineq"),
    ("anti_eq2", "SELECT l.id FROM l WHERE NOT EXISTS (SELECT 1 FROM r WHERE r.k = l.k AND r.k2 = l.k2)", "anti", "eq2"),
]


def eq3(a, b):
    if a is None or b is None:
        return None
    return a == b


def and3(*xs):
    if any(x is False for x in xs):
        return False
    if any(x is None for x in xs):
        return None
    return True


def lt3(a, b):
    if a is None or b is None:
        return None
    return a < b


def pred(shape, l, r):
    if shape == "eq":
        return eq3(l[1], r[1])
    if shape == "eq2":
        return and3(eq3(l[1], r[1]), eq3(l[2], r[2]))
    if shape == "eq_ineq":
        return and3(eq3(l[1], r[1]), lt3(l[3], r[3]))
    if shape == "eq_ne":
        e = eq3(l[3], r[3])
        return and3(eq3(l[1], r[1]), None if e is None else (not e))
    if shape == "ineq":
        return lt3(l[3], r[3])
    if shape == "expr":
        return eq3(None if l[2] is None else l[2] + 1, r[2])
    if shape == "true":
        return True
    raise ValueError(shape)


def expected(kind, shape, L, R):
    out = []
    if kind == "inner":
        return [(l[0], r[0]) for l in L for r in R if pred(shape, l, r) is True]
    if kind == "left":
        for l in L:
            m = [(l[0], r[0]) for r in R if pred(shape, l, r) is True]
            out += m if m else [(l[0], None)]
        return out
    if kind == "right":
        for r in R:
            m = [(l[0], r[0]) for l in L if pred(shape, l, r) is True]
            out += m if m else [(None, r[0])]
        return out
    if kind == "semi":
        return [(l[0],) for l in L if any(pred(shape, l, r) is True for r in R)]
    if kind == "anti":
        return [(l[0],) for l in L if not any(pred(shape, l, r) is True for r in R)]
    if kind == "anti_nn":
        rk = [r for r in R if r[1] is not None]
        return [(l[0],) for l in L if l[1] is not None and not any(pred(shape, l, r) is True for r in rk)]
    if kind == "mark_nn":
        rk = [r for r in R if r[1] is not None]
        return [(l[0], any(pred(shape, l, r) is True for r in rk)) for l in L if l[1] is not None]
    raise ValueError(kind)


def run(chk):
    thorough = chk.tier == "thorough"
    rng = chk.rng
    chk.rule = ("two tables with a key column of each joinable type (8 integer widths, DOUBLE, DECIMAL64/128, TEXT short/long, DATE, BOOLEAN), "
                "key distributions {unique, duplicates, hot key > batch, all NULL, empty side}, 26 join forms (INNER/LEFT/RIGHT/SEMI/anti/mark/"
                "USING/LATERAL/cross; conditions: none, 1-2 equalities, equality+inequality, inequality only, expression on key) under hash joins "
                "on/off x partitions {1,2,4} x batch_size {1,3,16,2048}; oracle = Python nested loop over the echoed table contents with SQL "
                "three-valued conditions, plus conservation identities. distinct non-trivial = distinct (key type, distribution, join form, "
                "configuration) with a non-empty expected result")
    chk.assumptions = ["row ids make every row distinguishable so bag comparison is exact", "NaN/-0.0 keys are out of scope (no documented rule)"]
    knowncases.run_known_cases(chk)
    n_cases = 600 if thorough else 120
    cases = []
    meta = {}
    types = list(KEY_TYPES)
    for ci in range(n_cases):
        t = types[ci % len(types)]
        dl = rng.choice(["dups", "hot", "unique", "dups", "allnull", "empty"])
        dr = rng.choice(["dups", "hot", "unique", "dups", "empty"])
        nl = 0 if dl == "empty" else rng.choice([1, 5, 12, 40])
        nr = 0 if dr == "empty" else rng.choice([1, 5, 12, 40])
        L = gen_side(rng, t, nl, dl, rng.choice([0, 0.15, 0.4]))
        R = gen_side(rng, t, nr, dr, rng.choice([0, 0.15, 0.4]))
        hashj = rng.random() < 0.6
        parts = rng.choice([1, 2, 4])
        bs = rng.choice([1, 3, 16, 2048])
        steps = [{"sql": f"SET partitions TO {parts}", "out": "count"}, {"sql": f"SET batch_size TO {bs}", "out": "count"},
                 {"sql": f"SET enable_hash_joins TO {'true' if hashj else 'false'}", "out": "count"}]
        for name, rows in (("l", L), ("r", R)):
            steps.append({"sql": f"CREATE TEMP TABLE {name} (id INT, k {t}, k2 INT, v INT)", "out": "count"})
            if rows:
                steps.append({"sql": f"INSERT INTO {name} VALUES " + ", ".join(
                    f"({i}, {lit(k, t)}, {'CAST(NULL AS INT)' if k2 is None else k2}, {v})" for (i, k, k2, v) in rows), "out": "count"})
        nload = len(steps)
        steps.append({"sql": "SELECT id, k, k2, v FROM l"})
        steps.append({"sql": "SELECT id, k, k2, v FROM r"})
        for (name, sql, kind, shape) in QUERIES:
            steps.append({"sql": sql})
        ex = {"kind": "det", "policy": "random", "seed": rng.randint(0, 1 << 30), "yield_p": 0.05, "partitions": parts}
        c = {"id": f"c06-{ci}", "exec": ex, "steps": steps, "max_rows": 100000}
        cases.append(c)
        meta[c["id"]] = (t, dl, dr, hashj, parts, bs, nload)
    # split at panics: each query after a panic would be skipped; keep it simple and re-run the tail once
    results, m = vrun.run_sharded(cases, shards=16, wall_s=2400 if thorough else 900)
    by_form = {}
    for c in cases:
        t, dl, dr, hashj, parts, bs, nload = meta[c["id"]]
        cfg = f"{t}/{dl}x{dr}/{'hash' if hashj else 'nlj'}/p{parts}/b{bs}"
        res = results.get(c["id"])
        if res is None or "not_run" in res or "fatal" in res:
            chk.inconc("case not run")
            continue
        if "died" in res:
            chk.violation(outcome_signature(res), f"{cfg}: process died {json.dumps(res['died'])[:300]}", {"cases": [c]})
            continue
        steps = res["steps"]
        if any(st["outcome"] not in ("rows", "empty") for st in steps[:nload + 2]):
            bad = [st for st in steps[:nload + 2] if st["outcome"] not in ("rows", "empty")][0]
            if bad["outcome"] == "panic":
                chk.violation(outcome_signature(bad), f"{cfg}: panic while loading: {bad.get('panic_msg')}", {"cases": [c]})
            else:
                chk.violation({"kind": "load-failed", "type": t}, f"{cfg}: load failed: {json.dumps(bad)[:300]}", {"cases": [c]})
            continue
        L = [compare.dec_row(r) for r in steps[nload]["rows"]]
        R = [compare.dec_row(r) for r in steps[nload + 1]["rows"]]
        got = {}
        for qi, (name, sql, kind, shape) in enumerate(QUERIES):
            st = steps[nload + 2 + qi]
            chk.evaluated()
            what = f"{cfg} {name}"
            if st["outcome"] == "skipped":
                break
            if st["outcome"] == "panic":
                chk.violation(outcome_signature(st), f"{what}: panic {st.get('panic_msg')} @ {st.get('panic_loc')}\n{sql}", {"cases": [c]})
                break
            if st["outcome"] in ("deadlock", "diverged"):
                chk.violation({"kind": "outcome", "class": st["outcome"], "deadlock_kind": st.get("deadlock_kind"), "parked_ops": st.get("parked_ops")}, f"{what}: {st['outcome']}\n{sql}", {"cases": [c]})
                continue
            if st["outcome"] == "error":
                first = st.get("error", "").split("\n")[0]
                from vf import qcheck
                if any(mk in first for mk in qcheck.UNSUPPORTED_MARKERS):
                    chk.count("unsupported:" + first[:60])
                    continue
                chk.violation({"kind": "unexpected-error", "message": qcheck.compare_msg(first)}, f"{what}: {first}\n{sql}", {"cases": [c]})
                continue
            want = expected(kind, shape, L, R)
            rows = [compare.dec_row(r) for r in st.get("rows", [])]
            got[name] = rows
            ok, why = compare.bag_equal(want, rows)
            if not ok:
                chk.violation({"kind": "wrong-join-result", "form": name, "algo": "hash" if hashj else "nlj", "keytype": t.split("(")[0]},
                              f"{what}: {why}\n{sql}\nl={L[:8]}\nr={R[:8]}\nexpected({len(want)})={want[:6]} engine({len(rows)})={rows[:6]}", {"cases": [c]})
                continue
            by_form[name] = by_form.get(name, 0) + 1
            if want:
                chk.nontrivial((t, dl, dr, name, hashj, parts, bs))
        # conservation identities (model-free, on the engine's own answers)
        if "inner_eq" in got and "left_eq" in got:
            unmatched = sum(1 for r in got["left_eq"] if r[1] is None)
            if len(got["left_eq"]) != len(got["inner_eq"]) + unmatched:
                chk.violation({"kind": "conservation", "id": "left=inner+unmatched"}, f"{cfg}: |LEFT|={len(got['left_eq'])} != |INNER|={len(got['inner_eq'])} + unmatched {unmatched}", {"cases": [c]})
        if "semi_exists" in got and "anti_not_exists" in got:
            ids = sorted(r[0] for r in got["semi_exists"] + got["anti_not_exists"])
            if ids != sorted(l[0] for l in L):
                chk.violation({"kind": "conservation", "id": "semi+anti=left"}, f"{cfg}: SEMI ⊎ ANTI != left input", {"cases": [c]})
        if "cross" in got and len(got["cross"]) != len(L) * len(R):
            chk.violation({"kind": "conservation", "id": "cross=l*r"}, f"{cfg}: |CROSS|={len(got['cross'])} != {len(L)}*{len(R)}", {"cases": [c]})
        if "inner_eq" in got and any(True for (li, ri) in got["inner_eq"] if next(l for l in L if l[0] == li)[1] is None):
            chk.violation({"kind": "conservation", "id": "null-key-matched"}, f"{cfg}: an INNER equality join paired a NULL key", {"cases": [c]})
        if len(chk.samples) < 6 and L and R:
            chk.sample({"config": cfg, "l_rows": len(L), "r_rows": len(R), "example": QUERIES[1][1], "result_rows": len(got.get("left_eq", []))})
    chk.extra["join_forms_compared"] = by_form
