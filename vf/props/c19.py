"""C19 — malformed Parquet/CSV input fails cleanly (fault enumeration over small valid files)."""
import json, os, shutil, re
from vf import run as vrun
from vf import pqwrite as pq
from vf.core import outcome_signature

LEVEL = "fault_enumeration"

LIE_VALUES = [-1, 0, 1, 2**31 - 1, 2**32, 2**63 - 1]


def base_files(rng, d, n):
    """Small valid files covering encodings / codecs / page versions."""
    specs = []
    combos = [
        ("INT32", None, "PLAIN"), ("INT64", None, "DELTA_BINARY_PACKED"), ("INT32", None, "DICT"), ("BOOLEAN", None, "RLE"), ("BOOLEAN", None, "PLAIN"),
        ("BYTE_ARRAY", "STRING", "PLAIN"), ("BYTE_ARRAY", "STRING", "DICT"), ("BYTE_ARRAY", "STRING", "DELTA_LENGTH_BYTE_ARRAY"),
        ("BYTE_ARRAY", "STRING", "DELTA_BYTE_ARRAY"), ("DOUBLE", None, "BYTE_STREAM_SPLIT"), ("FLOAT", None, "PLAIN"), ("INT96", None, "PLAIN"),
        ("FIXED_LEN_BYTE_ARRAY", "FLOAT16", "PLAIN"), ("INT64", "DECIMAL", "PLAIN"), ("INT32", "DATE", "DICT"), ("INT64", "TIMESTAMP_MICROS", "PLAIN"),
        ("INT32", "UINT8", "PLAIN"), ("INT64", "UINT64", "DELTA_BINARY_PACKED"),
    ]
    codecs = ["UNCOMPRESSED", "GZIP", "SNAPPY", "LZ4_RAW", "ZSTD"]
    for i in range(n):
        phys, logical, enc = combos[i % len(combos)]
        kw = dict(precision=12, scale=2) if logical == "DECIMAL" else {}
        c1 = pq.Col("a", phys, logical, optional=rng.random() < 0.7, encoding=enc, page_values=rng.choice([None, 4, 9]), stats=rng.choice(["new", "old", "both", "none"]), strict=False, **kw)
        cols = [c1]
        if rng.random() < 0.5:
            cols.append(pq.Col("b", "INT32", None, optional=True, encoding=rng.choice(["PLAIN", "DICT"])))
        shape = rng.choice([(12,), (6, 5), (9, 0, 4)])
        rgs = []
        for nrows in shape:
            vals = [pq.random_values(c, nrows, rng, 0.2 if c.optional else 0.0) for c in cols]
            rgs.append([tuple(v[j] for v in vals) for j in range(nrows)])
        path = os.path.join(d, f"base{i}.parquet")
        pv = rng.choice([1, 2])
        codec = codecs[i % len(codecs)]
        try:
            info = pq.write_file(path, cols, rgs, page_version=pv, codec=codec)
        except Exception:
            continue
        specs.append((path, cols, rgs, info, {"col": [phys, logical, enc], "codec": codec, "v": pv, "rg": list(shape)}))
    return specs


def mutants_of(rng, d, bi, spec, thorough):
    """Yield (kind, descr, path) for every enumerated fault of one base file."""
    path, cols, rgs, info, tag = spec
    data = open(path, "rb").read()
    n = len(data)
    out = []
    sub = os.path.join(d, f"m{bi}")
    os.makedirs(sub, exist_ok=True)

    def emit(kind, descr, content):
        p = os.path.join(sub, f"{kind}{len(out)}.parquet")
        with open(p, "wb") as f:
            f.write(content)
        out.append((kind, descr, p))
    # every truncation length
    for k in range(n):
        emit("trunc", k, data[:k])
    # byte mutations: every position in footer + page headers + level/dict regions; 10% of other bytes
    hot = set(range(info["footer_off"], n))
    for rg in info["row_groups"]:
        for cc in rg["columns"]:
            for pg in cc["pages"]:
                hot.update(range(pg["header_off"], pg["header_off"] + pg["header_len"]))
                if pg["kind"] == "dict":
                    hot.update(range(pg["body_off"], pg["body_off"] + pg["body_len"]))
                else:
                    hot.update(range(pg["body_off"], min(pg["body_off"] + 12, pg["body_off"] + pg["body_len"])))
    for pos in range(n):
        if pos in hot or rng.random() < 0.10:
            for m in (0x00, 0xFF, data[pos] ^ 0x01, data[pos] ^ 0x80):
                if m == data[pos]:
                    continue
                b = bytearray(data)
                b[pos] = m
                emit("byte", (pos, m), bytes(b))
    # the 4-byte little-endian footer length in the trailer, overwritten as a whole (single-byte mutations above only reach
    # values one byte away from the true length): small, off-by-one, file-size-relative, sign-bit and all-ones neighbourhoods
    flen = info["footer_len"]
    for v in sorted(set([0, 1, 2, 7, 8, flen - 1, flen + 1, flen + 8, n - 8, n - 9, n - 7, n - 12, n, n + 1, 2 * flen, 0x7FFFFFFF, 0x7FFFFFF8, 0x80000000, 0x80000001, 0x80000008]
                        + [0xFFFFFFFF - k for k in range(0, 17)] + [0xFFFFFFFF - n + k for k in (0, 7, 8, 9)])):
        if 0 <= v <= 0xFFFFFFFF and v != flen:
            b = bytearray(data)
            b[n - 8:n - 4] = int(v).to_bytes(4, "little")
            emit("footerlen", v, bytes(b))
    # targeted metadata lies
    keys = ["num_rows", "rg0.num_rows", "rg0.total_byte_size"]
    for j in range(len(cols)):
        keys += [f"rg0.col{j}.num_values", f"rg0.col{j}.total_compressed_size", f"rg0.col{j}.total_uncompressed_size", f"rg0.col{j}.data_page_offset",
                 f"rg0.col{j}.dictionary_page_offset", f"rg0.col{j}.file_offset", f"rg0.col{j}.codec", f"rg0.col{j}.type",
                 f"rg0.col{j}.page0.num_values", f"rg0.col{j}.page0.uncompressed_page_size", f"rg0.col{j}.page0.compressed_page_size", f"rg0.col{j}.page0.encoding",
                 f"rg0.col{j}.dict.num_values", f"rg0.col{j}.dict.uncompressed_page_size", f"rg0.col{j}.dict.compressed_page_size",
                 f"col{j}.type_length", f"col{j}.type", f"col{j}.repetition_type", f"col{j}.converted_type"]
        if info.get("row_groups") and len(info["row_groups"][0]["columns"][j]["pages"]) > 1:
            keys.append(f"rg0.col{j}.page1.num_values")
    for key in keys:
        for v in LIE_VALUES + [99]:
            p = os.path.join(sub, f"lie{len(out)}.parquet")
            try:
                pq.write_file(p, cols, rgs, page_version=tag["v"], codec=tag["codec"], lies={key: v})
            except (ValueError, KeyError, TypeError, OverflowError, AssertionError, Exception):
                continue
            out.append(("lie", (key, v), p))
    return out, n


def csv_mutants(d):
    sub = os.path.join(d, "csv")
    os.makedirs(sub, exist_ok=True)
    base = b"a,b,c\n1,x,2.5\n2,\"y,z\",3.5\n3,,4.5\n"
    cases = {
        "invalid_utf8_header": b"a,\xff\xfe,c\n1,2,3\n",
        "invalid_utf8_data": b"a,b\n1,\xc3\x28\n2,ok\n",
        "unterminated_quote_eof": b"a,b\n1,\"abc\n2,def\n",
        "unterminated_quote_long": b"a,b\n1,\"" + b"x" * 9000,
        "ragged_more": b"a,b\n1,2,3,4\n5,6\n",
        "ragged_fewer": b"a,b,c\n1\n2,3\n",
        "nul_bytes": b"a,b\n1,\x00\x00\n\x00,2\n",
        "huge_field": b"a,b\n1," + b"z" * 1_000_000 + b"\n",
        "only_delimiters": b",,,,\n,,,,\n",
        "bom": b"\xef\xbb\xbfa,b\n1,2\n",
        "empty": b"",
        "only_newlines": b"\n\n\n\n",
        "cr_only": b"a,b\r1,2\r3,4\r",
        "quote_in_unquoted": b"a,b\n1,x\"y\n",
        "long_line_no_newline": b"a" * 5000,
        "type_changes_late": b"a\n" + b"1\n" * 3000 + b"x\n",
        "binary_garbage": bytes(range(256)) * 20,
    }
    for k in range(len(base)):
        cases[f"trunc{k}"] = base[:k]
    out = []
    for name, content in cases.items():
        p = os.path.join(sub, name + ".csv")
        with open(p, "wb") as f:
            f.write(content)
        out.append(("csv", name, p))
    return out


def run(chk):
    thorough = chk.tier == "thorough"
    rng = chk.rng
    chk.rule = ("for each small valid Parquet file (every encoding/codec/page version): EVERY truncation length; EVERY byte position in the footer, page "
                "headers, dictionary pages and level regions x {0x00, 0xFF, ^0x01, ^0x80} plus 10% of data bytes; ~45 whole-field values of the trailer's footer length; targeted metadata lies written by "
                "the independent writer (num_rows, num_values, page/chunk sizes, offsets, type_length, codec ids, encodings, types) x {-1,0,1,2^31-1,"
                "2^32,2^63-1,99}. CSV: invalid UTF-8, unterminated quotes, ragged rows, NUL bytes, 1 MB field, only delimiters, BOM, every truncation. "
                "Each mutant is read in its own engine on the det executor under a CPU-time limit and a 4 GiB address-space cap; outcome classes rows / "
                "error are fine; panic, process death, allocation abort, non-termination refute. distinct non-trivial = distinct (fault class, base "
                "file layout, outcome class) observed")
    chk.assumptions = ["a mutant whose read returns rows is accepted (some corruptions keep the file valid)"]
    from vf import knowncases
    knowncases.run_known_cases(chk)
    d = vrun.tmpdir("c19")
    try:
        nbase = 120 if thorough else 10
        bases = base_files(rng, d, nbase)
        cases = []
        meta = {}
        per_base = {}
        for bi, spec in enumerate(bases):
            muts, size = mutants_of(rng, d, bi, spec, thorough)
            per_base[bi] = {"layout": spec[4], "bytes": size, "truncations": sum(1 for m in muts if m[0] == "trunc"),
                            "byte_mutations": sum(1 for m in muts if m[0] == "byte"), "lies": sum(1 for m in muts if m[0] == "lie"), "exhaustive_truncation": True}
            for mi, (kind, descr, p) in enumerate(muts):
                cid = f"c19-{bi}-{mi}"
                steps = [{"sql": f"SELECT * FROM read_parquet('{p}')", "out": "count"}]
                if mi % 7 == 0:
                    steps.append({"sql": f"SELECT count(*) FROM parquet.column_metadata('{p}')", "out": "count"})
                cases.append({"id": cid, "exec": {"kind": "det", "policy": "fifo", "partitions": 1, "step_budget": 300000}, "steps": steps})
                meta[cid] = (kind, descr, bi, p)
        for mi, (kind, name, p) in enumerate(csv_mutants(d)):
            cid = f"c19-csv-{mi}"
            cases.append({"id": cid, "exec": {"kind": "det", "policy": "fifo", "partitions": 1, "step_budget": 300000},
                          "steps": [{"sql": f"SELECT * FROM read_csv('{p}')", "out": "count"}, {"sql": f"SELECT count(*) FROM '{p}'", "out": "count"}]})
            meta[cid] = ("csv", name, None, p)
        # shard into many short processes: a spinning mutant only burns one process's CPU budget
        chunks = [cases[i:i + 150] for i in range(0, len(cases), 150)]
        results = {}
        from concurrent.futures import ThreadPoolExecutor

        def go(chunk):
            return vrun.run_cases(chunk, cpu_s=20, as_bytes=4 << 30, wall_s=900)
        restarts = 0
        with ThreadPoolExecutor(max_workers=16) as ex:
            for r, m in ex.map(go, chunks):
                results.update(r)
                restarts += m["restarts"]
        chk.extra["process_restarts"] = restarts
        hist = {}
        for c in cases:
            kind, descr, bi, p = meta[c["id"]]
            res = results.get(c["id"])
            chk.evaluated()
            layout = json.dumps(per_base[bi]["layout"]) if bi is not None else "csv"
            if res is None or "not_run" in res or "fatal" in res:
                chk.inconc("mutant not run")
                continue
            replay = {"cases": [c], "fault": [kind, str(descr)], "layout": layout, "file_hex": open(p, "rb").read()[:6000].hex()}
            if "died" in res:
                sig = outcome_signature(res)
                cls = sig.get("class")
                hist[(kind, cls)] = hist.get((kind, cls), 0) + 1
                chk.violation(sig, f"{kind} {descr} of {layout}: process died ({cls}): {json.dumps(res['died'])[:300]}", replay)
                chk.nontrivial((kind, layout, cls))
                continue
            for st in res["steps"]:
                o = st["outcome"]
                hist[(kind, o)] = hist.get((kind, o), 0) + 1
                chk.nontrivial((kind, layout, o))
                if o in ("rows", "empty", "error"):
                    continue
                if o == "skipped":
                    continue
                if o == "panic":
                    sig = outcome_signature(st)
                    chk.violation(sig, f"{kind} {descr} of {layout}: panic {st.get('panic_msg')} @ {st.get('panic_loc')}", replay)
                elif o in ("deadlock", "diverged"):
                    chk.violation({"kind": "outcome", "class": o, "fault": kind, "parked_ops": st.get("parked_ops")}, f"{kind} {descr} of {layout}: {o} (reader does not terminate)", replay)
                else:
                    chk.violation({"kind": "outcome", "class": o}, f"{kind} {descr} of {layout}: {o}", replay)
                break
        chk.extra["faults_per_base_file"] = per_base
        chk.extra["outcome_histogram"] = {f"{k[0]}/{k[1]}": v for k, v in sorted(hist.items())}
        chk.sample({"fault": "trunc", "base": per_base[0] if per_base else None, "sql": cases[0]["steps"][0]["sql"]})
        chk.sample({"fault": "lie", "example": str(next((meta[c['id']][1] for c in cases if meta[c['id']][0] == 'lie'), None))})
    finally:
        shutil.rmtree(d, ignore_errors=True)
