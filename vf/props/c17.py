"""C17 — reading a CSV file returns the RFC-4180 records with inferred types (Python csv as oracle; chunking invariance)."""
import csv, io, json, os, shutil, re, struct
from vf import run as vrun
from vf import compare
from vf.core import outcome_signature

BOOL_T = {"t", "true", "TRUE", "T"}
BOOL_F = {"f", "false", "FALSE", "F"}
INT_RE = re.compile(r"^[+-]?\d+$")
FLOAT_RE = re.compile(r"^[+-]?(\d+\.?\d*|\.\d+)([eE][+-]?\d+)?$")
CHAOS = [None, "r1", "r2", "r3", "r5", "r64", "r4095", "r4096", "r4097", "R13,p40", "r1,p50"]


def fits(v, t):
    if t == "Boolean":
        return v in BOOL_T or v in BOOL_F
    if t == "Int64":
        return bool(INT_RE.match(v)) and -2**63 <= int(v) <= 2**63 - 1
    if t == "Float64":
        return bool(FLOAT_RE.match(v)) or v in ("inf", "-inf", "NaN", "nan", "infinity")
    return True


def narrowest(values):
    vals = [v for v in values if v != ""]
    if not vals:
        return None   # undetermined by the sample
    for t in ("Boolean", "Int64", "Float64"):
        if all(fits(v, t) for v in vals):
            return t
    return "Utf8"


def convert(v, t):
    """Expected engine value (canonical encoding) of field text v under column type t."""
    if v == "":
        return None
    if t == "Boolean":
        return True if v in BOOL_T else False if v in BOOL_F else ("ERR",)
    if t == "Int64":
        if INT_RE.match(v) and -2**63 <= int(v) <= 2**63 - 1:
            return int(v)
        return ("ERR",)
    if t == "Float64":
        try:
            if not (FLOAT_RE.match(v) or v in ("inf", "-inf", "NaN", "nan", "infinity")):
                return ("ERR",)
            f = float(v)
            return {"f64": struct.unpack("<Q", struct.pack("<d", f))[0]}
        except ValueError:
            return ("ERR",)
    return v


def gen_field(rng, kind):
    if kind == "int":
        return rng.choice(["0", "1", "-1", "42", "+7", "007", "9223372036854775807", "-9223372036854775808", str(rng.randint(-10**6, 10**6))])
    if kind == "float":
        return rng.choice(["0.5", "-1.25", "1e3", "2.5E-3", ".5", "3.", "1.7976931348623157e308", "5e-324", "-0.0", str(rng.randint(-999, 999) / 8)])
    if kind == "bool":
        return rng.choice(["t", "true", "TRUE", "T", "f", "false", "FALSE", "F"])
    if kind == "int_or_float":
        return rng.choice(["1", "2", "3.5", "-4", "1e2"])
    return rng.choice(["a", "hello world", "x,y", "say \"hi\"", "semi;colon", "pipe|d", "tab\there", "multi\nline", "cr\rlf", "crlf\r\nhere", "héllo", "日本語", "😀 emoji",
                       "'single'", " lead", "trail ", "longer than twelve bytes", "1x", "true!", "", "#hash", "\"", "''"])


def render(records, delim, quote, lineterm, policy, final_newline, rng):
    out = []
    for rec in records:
        fields = []
        for f in rec:
            must = any(c in f for c in (delim, quote, "\n", "\r"))
            q = must or policy == "all" or (policy == "random" and rng.random() < 0.3 and f != "")
            if q:
                fields.append(quote + f.replace(quote, quote + quote) + quote)
            else:
                fields.append(f)
        out.append(delim.join(fields))
    text = lineterm.join(out)
    if final_newline and out:
        text += lineterm
    return text


def run(chk):
    thorough = chk.tier == "thorough"
    rng = chk.rng
    compare.set_exact(True)
    chk.rule = ("generated CSV/TSV files over delimiter {, | ; tab} x quote {\" '} x header yes/no x LF/CRLF x quoting policy {minimal, all, random} x "
                "final newline yes/no x column kinds {int, float, bool, mixed, text with embedded delimiters/quotes/CR/LF/multi-byte characters} x sizes "
                "below and above the 4096-byte inference sample, plus files whose sample ends inside a boolean / after a minus sign / inside an exponent / a multi-byte character / a quoted field / a digit run of the straddling record; each file is read under ChaosFs read sizes {1,2,3,5,64,4095,4096,4097,random} with "
                "and without Pending, batch_size {1,7,2048}, partitions {1,3}. Oracle: Python's csv module configured with the dialect and header "
                "decision the engine reported (hook H3), empty field = NULL, values parsed by the inferred type; all read configurations of one "
                "file must return identical rows. distinct non-trivial = distinct (dialect, column kinds, file size class, read configuration) "
                "with > 0 records compared")
    chk.assumptions = ["Python csv with doublequote=True is an RFC-4180 parser for the reported dialect", "quoted and unquoted empty fields are both NULL (observed engine rule; RFC 4180 does not define NULL)"]
    d = vrun.tmpdir("c17")
    try:
        nfiles = 1500 if thorough else 160
        cases = []
        meta = {}
        for fi in range(nfiles):
            delim = rng.choice([",", ",", "|", ";", "\t"])
            quote = rng.choice(['"', '"', '"', "'"])
            header = rng.random() < 0.7
            lineterm = rng.choice(["\n", "\n", "\r\n"])
            policy = rng.choice(["minimal", "all", "random"])
            final_nl = rng.random() < 0.7
            ncols = rng.randint(1, 5)
            kinds = [rng.choice(["int", "float", "bool", "text", "text", "int_or_float"]) for _ in range(ncols)]
            nrows = rng.choice([0, 1, 2, 5, 30, 200, 1200])
            null_p = rng.choice([0, 0.1, 0.3])
            recs = []
            if header:
                recs.append([f"col{j}" if rng.random() < 0.8 else rng.choice(["a b", "x,y", "h\"q", "ü"]) for j in range(ncols)])
            for _ in range(nrows):
                recs.append(["" if rng.random() < null_p else gen_field(rng, k) for k in kinds])
            if not recs:
                continue
            # a single-column record consisting of one empty field is indistinguishable from a blank line: avoid
            if ncols == 1:
                recs = [r if r[0] != "" else ["x" if kinds[0] == "text" else gen_field(rng, kinds[0])] for r in recs]
            text = render(recs, delim, quote, lineterm, policy, final_nl, rng)
            ext = "tsv" if delim == "\t" and rng.random() < 0.5 else "csv"
            path = os.path.join(d, f"f{fi}.{ext}")
            with open(path, "wb") as f:
                f.write(text.encode("utf-8"))
            steps = []
            spec = []
            cfgs = [(None, 2048, 1)] + [(rng.choice(CHAOS), rng.choice([1, 7, 2048]), rng.choice([1, 3])) for _ in range(8 if thorough else 4)]
            for (ch, bs, parts) in cfgs:
                p = path if ch is None else f"chaos:{ch},s{rng.randint(0, 999)}:{path}"
                steps.append({"sql": f"SET batch_size TO {bs}", "out": "count"})
                steps.append({"sql": f"SET partitions TO {parts}", "out": "count"})
                steps.append({"sql": f"SELECT * FROM read_csv('{p}')"})
                spec.append((len(steps) - 1, ch, bs, parts))
            c = {"id": f"c17-{fi}", "exec": {"kind": "det", "policy": "random", "seed": rng.randint(0, 1 << 30), "yield_p": 0.05}, "steps": steps, "max_rows": 100000}
            cases.append(c)
            meta[c["id"]] = (path, text, dict(delim=delim, quote=quote, header=header, lineterm=lineterm, policy=policy, final_nl=final_nl, kinds=kinds, rows=nrows), spec)
        # files whose 4096-byte inference sample ends inside a chosen token of the record that straddles the boundary: the
        # incomplete record must not take part in type inference, and the file must stay readable
        for ai in range(240 if thorough else 40):
            target = ["bool", "neg", "exp", "multibyte", "quoted", "digits"][ai % 6]
            lineterm = rng.choice(["\n", "\r\n"])
            rows = [["id", "flag", "delta", "ratio", "name"]]
            def mk(i, pad=0):
                return [str(i), rng.choice(["true", "false"]), str(rng.randint(1, 9999)), rng.choice(["0.5", "12.25", "3"]), "n" + "x" * pad]
            cross = {"bool": ["7", "true", "5", "0.5", "tail"], "neg": ["7", "false", "-12345", "0.5", "tail"], "exp": ["7", "true", "5", "1e5", "tail"],
                     "multibyte": ["7", "true", "5", "0.5", "語語語語"], "quoted": ["7", "true", "5", "0.5", "\"a,b\"\"c\""], "digits": ["7", "true", "123456", "0.5", "tail"]}[target]
            line = ",".join(cross)
            off = (line.index("true") + 2 if target == "bool" else line.index("-") + 1 if target == "neg" else line.index("1e") + 2 if target == "exp" else
                   len(line[:line.index("語")].encode()) + 1 if target == "multibyte" else line.index("\"a,b") + 3 if target == "quoted" else line.index("123456") + 3)
            body = []
            size = len((",".join(rows[0]) + lineterm).encode())
            i = 0
            while True:
                r = mk(i)
                ln = len((",".join(r) + lineterm).encode())
                if size + ln > 4096 - off - 60:
                    break
                body.append(r)
                size += ln
                i += 1
            last = mk(i)
            pad = (4096 - off) - size - len((",".join(last) + lineterm).encode())
            if pad < 0:
                continue
            last[4] += "x" * pad
            body.append(last)
            size += len((",".join(last) + lineterm).encode())
            body.append(cross)
            for k in range(rng.choice([0, 3, 40])):
                body.append(mk(1000 + k))
            text = "".join(",".join(r) + lineterm for r in rows + body)
            if size != 4096 - off:
                continue
            path = os.path.join(d, f"a{ai}.csv")
            with open(path, "wb") as f:
                f.write(text.encode("utf-8"))
            steps = []
            spec = []
            for (ch, bs, parts) in [(None, 2048, 1), (rng.choice(CHAOS), rng.choice([1, 7, 2048]), rng.choice([1, 3]))]:
                pth = path if ch is None else f"chaos:{ch},s{rng.randint(0, 999)}:{path}"
                steps.append({"sql": f"SET batch_size TO {bs}", "out": "count"})
                steps.append({"sql": f"SET partitions TO {parts}", "out": "count"})
                steps.append({"sql": f"SELECT * FROM read_csv('{pth}')"})
                spec.append((len(steps) - 1, ch, bs, parts))
            c = {"id": f"c17-a{ai}", "exec": {"kind": "det", "policy": "random", "seed": rng.randint(0, 1 << 30)}, "steps": steps, "max_rows": 100000}
            cases.append(c)
            meta[c["id"]] = (path, text, dict(delim=",", quote='"', header=True, lineterm=lineterm, policy="minimal", final_nl=True, kinds=["int", "bool", "int", "float", "text"], rows=len(body), aligned=target), spec)
            chk.count("sample boundary aligned inside: " + target)
        results, m = vrun.run_sharded(cases, shards=16, wall_s=3000 if thorough else 900)
        infer_differs = 0
        for c in cases:
            path, text, gen, spec = meta[c["id"]]
            res = results.get(c["id"])
            if res is None or "not_run" in res or "fatal" in res:
                chk.inconc("case not run")
                continue
            if "died" in res:
                chk.violation(outcome_signature(res), f"{gen}: process died {json.dumps(res['died'])[:300]}", {"cases": [c], "file": text[:3000]})
                continue
            steps = res["steps"]
            first = None
            for (si, ch, bs, parts) in spec:
                st = steps[si]
                chk.evaluated()
                what = f"{ {k: v for k, v in gen.items()} } read=(chaos={ch}, batch={bs}, partitions={parts})"
                replay = {"cases": [c], "file": text[:4000]}
                if st["outcome"] == "skipped":
                    break
                if st["outcome"] == "panic":
                    chk.violation(outcome_signature(st), f"{what}: panic {st.get('panic_msg')} @ {st.get('panic_loc')}", replay)
                    break
                if st["outcome"] in ("deadlock", "diverged"):
                    chk.violation({"kind": "outcome", "class": st["outcome"], "parked_ops": st.get("parked_ops")}, f"{what}: {st['outcome']}", replay)
                    continue
                summary = (st["outcome"], json.dumps(st.get("schema")), json.dumps(st.get("rows")) if st["outcome"] == "rows" else (st.get("error") or "").split("\n")[0][:80])
                if first is None:
                    first = summary
                    # oracle comparison once per file (on the plain read)
                    judge_file(chk, c, st, text, gen, what, replay)
                elif summary != first:
                    a, b = first, summary
                    chk.violation({"kind": "chunking-dependent-result"}, f"{what}: differs from the plain read of the same file: {b[0]} {b[2][:300]} vs {a[0]} {a[2][:300]}", replay)
                else:
                    if st["outcome"] == "rows" and st.get("count"):
                        chk.nontrivial((gen["delim"], gen["quote"], gen["header"], tuple(gen["kinds"]), len(text) > 4096, ch, bs, parts))
            if len(chk.samples) < 4 and gen["rows"] > 2:
                chk.sample({"dialect": {k: gen[k] for k in ("delim", "quote", "header", "lineterm", "policy", "final_nl")}, "kinds": gen["kinds"], "bytes": len(text), "head": text[:160]})
    finally:
        shutil.rmtree(d, ignore_errors=True)


def judge_file(chk, c, st, text, gen, what, replay):
    notes = [n for n in st.get("notes", []) if n[0] == "csv_infer"]
    if st["outcome"] == "error":
        first = (st.get("error") or "").split("\n")[0]
        # only a file whose later rows do not fit the type inferred from the sample may legitimately fail
        if len(text.encode()) > 4096 and not gen.get("aligned"):
            chk.count("error_on_file_larger_than_sample")
            return
        if gen.get("aligned"):
            # every value of these files fits the type of its column: nothing can legitimately fail
            chk.violation({"kind": "unexpected-error", "aligned": gen["aligned"]}, f"{what}: a valid file whose inference sample ends inside a {gen['aligned']} token fails: {first}", replay)
            return
        if notes:
            # ... or a file that is not rectangular under the dialect the engine reports it inferred (dialect inference
            # needs >= 2 records with >= 2 fields; otherwise the default , " applies)
            kv = dict(x.split("=", 1) for x in notes[-1][1].split(";"))
            try:
                recs = [r for r in csv.reader(io.StringIO(text, newline=""), delimiter=chr(int(kv["delimiter"])), quotechar=chr(int(kv["quote"])), doublequote=True) if r != []]
                if len(set(len(r) for r in recs)) > 1:
                    chk.count("ragged_under_reported_dialect")
                    return
            except csv.Error:
                pass
        chk.violation({"kind": "unexpected-error", "message": re.sub(r"\d+", "N", re.sub(r"'[^']*'", "'S'", first))[:80]}, f"{what}: {first}", replay)
        return
    if st["outcome"] != "rows":
        chk.violation({"kind": "outcome", "class": st["outcome"]}, f"{what}: {st['outcome']}", replay)
        return
    if not notes:
        chk.inconc("no csv_infer note from hook H3")
        return
    kv = dict(x.split("=", 1) for x in notes[-1][1].split(";"))
    delim, quote = chr(int(kv["delimiter"])), chr(int(kv["quote"]))
    has_header = kv["has_header"] == "true"
    types = kv["types"].split(",") if kv["types"] else []
    if (delim, quote) != (gen["delim"], gen["quote"]) or has_header != gen["header"]:
        chk.count("inferred_dialect_or_header_differs_from_generator")
    try:
        recs = list(csv.reader(io.StringIO(text, newline=""), delimiter=delim, quotechar=quote, doublequote=True, strict=False))
    except csv.Error:
        chk.inconc("python csv rejected the file under the reported dialect")
        return
    recs = [r for r in recs if r != []]          # csv.reader yields [] for blank lines
    body = recs[1:] if has_header else recs
    ncols = len(types)
    if any(len(r) != ncols for r in body):
        # ragged under the reported dialect: the engine picked a dialect under which the file is not rectangular
        chk.count("ragged_under_reported_dialect")
        return
    want = []
    bad_type = False
    for r in body:
        row = []
        for v, t in zip(r, types):
            cv = convert(v, t)
            if cv == ("ERR",):
                bad_type = True
            row.append(cv)
        want.append(row)
    if bad_type:
        # a value beyond the sample does not fit the inferred type: outcome unspecified (consistency is checked separately)
        chk.count("value_does_not_fit_inferred_type")
        return
    got = st.get("rows", [])
    if has_header:
        names = [s[0] for s in st.get("schema", [])]
        if names != recs[0]:
            chk.violation({"kind": "wrong-header-names"}, f"{what}: column names {names}, header record {recs[0]}", replay)
            return
    if got != want:
        i = next((i for i, (a, b) in enumerate(zip(got, want)) if a != b), min(len(got), len(want)))
        chk.violation({"kind": "wrong-records"}, f"{what}: {len(got)} rows vs {len(want)} records; first difference at {i}: got {got[i:i+2]} expected {want[i:i+2]} (reported dialect delim={delim!r} quote={quote!r} header={has_header} types={types})", replay)
        return
    # type narrowing rule on files entirely inside the sample
    if len(text.encode()) <= 4096:
        for j, t in enumerate(types):
            n = narrowest([r[j] for r in body])
            if n is not None and n != t:
                chk.violation({"kind": "type-not-narrowest", "got": t, "want": n}, f"{what}: column {j} inferred {t}, narrowest fitting type is {n}; values {[r[j] for r in body][:8]}", replay)
                return
    elif gen.get("aligned"):
        # larger than the sample: the types are the narrowest over the records that are complete inside the first 4096 bytes
        sample = text.encode()[:4096]
        cut = max(sample.rfind(b"\n"), 0)
        srecs = [r for r in csv.reader(io.StringIO(sample[:cut + 1].decode("utf-8", errors="ignore"), newline=""), delimiter=delim, quotechar=quote, doublequote=True) if r != []]
        sbody = srecs[1:] if has_header else srecs
        for j, t in enumerate(types):
            n = narrowest([r[j] for r in sbody if len(r) == ncols])
            if n is not None and n != t:
                chk.violation({"kind": "type-not-narrowest", "got": t, "want": n, "aligned": gen["aligned"]},
                              f"{what}: column {j} inferred {t}; the narrowest type over the {len(sbody)} records complete inside the 4096-byte sample is {n} (the sample ends inside a {gen['aligned']} token of the next record)", replay)
                return
    chk.count("files_compared_with_python_csv")
