"""C05 — scalar operators and functions follow their definition on all values, in every evaluation context.

Oracle: Python reference implementations (vf/fnref.py) applied to the *echoed* argument values, plus pairwise
agreement of eight evaluation contexts (flat columns, selection vector, constant vector from a one-row cross
join, literal-only with and without the optimizer, CASE branch / CASE condition, JOIN .. ON, duplicated
sub-expression).  Where the documentation leaves the value open (NaN ordering, shifts beyond the width,
factorial overflow ...) only the agreement of the contexts is checked.
"""
import json, math, itertools, datetime, re
from fractions import Fraction
from vf import run as vrun
from vf import fnref as R
from vf.fnref import Exact, Approx, Real, OneOf, ANY, NULL
from vf.core import outcome_signature, canon
from vf.vals import decode as _decode, int_range, INT_TYPES


def decode(raw):
    if isinstance(raw, dict) and "d" in raw and raw["d"][2] < 0:
        u, p, sc = raw["d"]
        u = int(u["big"]) if isinstance(u, dict) else u
        return Fraction(u) * 10 ** (-sc)
    return _decode(raw)

INT_T = ["tinyint", "smallint", "int", "bigint", "utinyint", "usmallint", "uint", "ubigint"]
BITS = {"tinyint": 8, "smallint": 16, "int": 32, "bigint": 64, "utinyint": 8, "usmallint": 16, "uint": 32, "ubigint": 64}
CONTEXTS = ("flat", "sel", "pred", "const", "lit", "lit_noopt", "case", "join", "cse")


# =============================================================================================
# values
# =============================================================================================

class V:
    """One argument value: SQL literal text + the Python value it denotes (used only to build/filter rows;
    the oracle works on the echoed engine values)."""
    __slots__ = ("lit", "py")

    def __init__(self, lit, py):
        self.lit = lit
        self.py = py


def vnull(t):
    return V(f"NULL::{t}", None)


def vint(v, t):
    return V(f"'{v}'::{t}", v)


def fl_text(x):
    if x != x:
        return "NaN"
    if x == R.INF:
        return "inf"
    if x == -R.INF:
        return "-inf"
    return repr(x)


def vfloat(x, t="double"):
    if t == "real":
        x = R.f32r(x)
    return V(f"'{fl_text(x)}'::{t}", x)


def dec_text(u, s):
    sign = "-" if u < 0 else ""
    d = str(abs(u)).rjust(s + 1, "0")
    return sign + (d[:-s] + "." + d[-s:] if s > 0 else d)


def vdec(u, p, s):
    return V(f"'{dec_text(u, s)}'::decimal({p},{s})", Fraction(u, 10 ** s))


def vtext(s):
    assert "'" not in s
    return V(f"'{s}'", s)


def vdate(d):
    """d: datetime.date"""
    return V(f"'{d.year:04d}-{d.month:02d}-{d.day:02d}'::date", ("date", d.toordinal() - R.EPOCH_ORD))


def vbool(b):
    return V("true" if b else "false", b)


def int_pool(t, rng, n_rand=4, extra=()):
    lo, hi = int_range(t)
    vs = {lo, lo + 1, hi, hi - 1, 0, 1, 2, 3, 10}
    if lo < 0:
        vs |= {-1, -2, -10}
    for e in (7, 8, 15, 16, 24, 31, 32, 53, 63):
        for d in (-1, 0, 1):
            for sg in (1, -1):
                v = sg * (2 ** e + d)
                if lo <= v <= hi:
                    vs.add(v)
    for v in extra:
        if lo <= v <= hi:
            vs.add(v)
    for _ in range(n_rand):
        vs.add(rng.randint(lo, hi))
    return sorted(vs)


F64_SPECIAL = [R.NAN, R.INF, -R.INF, 0.0, -0.0, 5e-324, -5e-324, 2.225073858507201e-308, 2.2250738585072014e-308,
               -2.2250738585072014e-308, 1.7976931348623157e308, -1.7976931348623157e308, 1.0, -1.0, 0.5, -0.5, 1.5, -1.5,
               2.5, -2.5, 3.5, 0.1, 0.2, 0.30000000000000004, 1 / 3, math.pi, -math.pi, math.e, 2.0, 3.0, 4.0, 8.0, 9.0, 10.0, 27.0,
               100.0, 1000.0, -8.0, 0.49999999999999994, 4503599627370495.5, 4503599627370496.5, 9007199254740992.0,
               9007199254740994.0, -9007199254740992.0, 1e15, 1e-10, -1e-10, 1e10, 700.0, 710.0, -745.0, -746.0, 1e300, 1e-300,
               2147483647.0, 2147483648.0, -2147483648.0, 9.223372036854776e18, 1.8446744073709552e19, 127.0, 128.0, 255.0, 256.0,
               16777216.0, 16777217.0, 0.9999999999999999, 1.0000000000000002, math.pi / 2, math.pi / 4, 1e22, 1e16]
F32_SPECIAL = [R.NAN, R.INF, -R.INF, 0.0, -0.0, 1e-45, -1e-45, 1.1754942e-38, 1.1754944e-38, -1.1754944e-38, 3.4028235e38,
               -3.4028235e38, 1.0, -1.0, 0.5, -0.5, 1.5, -1.5, 2.5, -2.5, 3.5, 0.1, 0.2, 0.3, 1 / 3, math.pi, math.e, 2.0, 3.0, 4.0, 8.0,
               9.0, 10.0, 27.0, 100.0, -8.0, 8388607.5, 8388608.0, 16777216.0, 16777218.0, -16777216.0, 1e10, 1e-10, 88.0, 89.0,
               -103.0, -104.0, 1e30, 1e-30, 2147483648.0, 9.223372e18, 127.0, 128.0, 255.0, 256.0, 0.99999994, 1.0000001]


def float_pool(t, rng, n_rand=6):
    base = F64_SPECIAL if t == "double" else F32_SPECIAL
    vs = list(base)
    for _ in range(n_rand):
        k = rng.randrange(4)
        if k == 0:
            vs.append(rng.uniform(-10, 10))
        elif k == 1:
            vs.append(rng.uniform(-1, 1) * 10 ** rng.randint(-30, 30))
        elif k == 2:
            vs.append(float(rng.randint(-1000, 1000)) + rng.choice([0.0, 0.5, 0.25]))
        else:
            vs.append(math.ldexp(rng.random(), rng.randint(-1070, 1020) if t == "double" else rng.randint(-148, 126)))
    if t == "real":
        vs = [R.f32r(v) for v in vs]
    out, seen = [], set()
    for v in vs:
        k = fl_text(v) + ("-" if R.isneg0(v) else "")
        if k not in seen:
            seen.add(k)
            out.append(v)
    return out


def dec_pool(p, s, rng, n_rand=4, small=False):
    m = 10 ** p - 1
    if small:
        m = min(m, 10 ** max(1, p // 2 - 1))
    vs = {0, 1, -1, m, -m, m - 1, 5 * 10 ** max(0, s - 1), -5 * 10 ** max(0, s - 1), 10 ** s, -(10 ** s), 15 * 10 ** max(0, s - 1),
          25 * 10 ** max(0, s - 1), -25 * 10 ** max(0, s - 1), 10 ** s + 1, 3 * 10 ** s}
    for _ in range(n_rand):
        vs.add(rng.randint(-m, m))
        vs.add(rng.randint(-min(m, 1000), min(m, 1000)))
    return sorted(v for v in vs if abs(v) <= m)


TEXT_POOL = ["", "a", "A", "ab", "abc", "b", "B", "aa", "a ", " a", " ", "z", "Z", "0", "9", "10", "ä", "é", "zä", "日本",
             "日", "\U0001F600", "￿", "abcdefghijkl", "abcdefghijklm", "abcdefghijkl0", "abcdefghijklmnopqrstuvwxyz",
             "abcdefghijklmnopqrstuvwxyZ", "abcdefghijklmnopqrstuvwxy", "abcd", "abcdefgh", "abcdefghi", "\u007f", "~", "a\tb", "_", "%"]

DATE_POOL = [(1, 1, 1), (1, 1, 2), (1, 12, 31), (4, 2, 29), (100, 3, 1), (999, 12, 31), (1000, 1, 1), (1582, 10, 4), (1582, 10, 15),
             (1600, 2, 29), (1700, 3, 1), (1900, 2, 28), (1900, 3, 1), (1969, 12, 31), (1970, 1, 1), (1970, 1, 2), (1999, 12, 31),
             (2000, 1, 1), (2000, 2, 29), (2000, 3, 1), (2023, 1, 1), (2024, 2, 29), (2024, 12, 29), (2024, 12, 30), (2024, 12, 31),
             (2025, 1, 1), (2026, 1, 4), (2038, 1, 19), (2100, 2, 28), (2100, 3, 1), (9999, 12, 31), (9999, 1, 1), (2021, 1, 3),
             (2020, 12, 31), (2016, 1, 3), (2015, 12, 28)]


def date_pool(rng, n_rand=6):
    ds = [datetime.date(*x) for x in DATE_POOL]
    for _ in range(n_rand):
        ds.append(datetime.date.fromordinal(rng.randint(1, datetime.date(9999, 12, 31).toordinal())))
    return sorted(set(ds))


def ts_ms_pool(rng, n_rand=10):
    """timestamps as milliseconds since the epoch, years 1..9999"""
    lo = R.MIN_DAYS * 86400000
    hi = (R.MAX_DAYS + 1) * 86400000 - 1
    vs = {0, 1, -1, 999, 1000, -999, -1000, -1001, 1500, 61500, -61500, 59999, 60000, 3599999, 3600000, -3600000, -3600001, 86399999,
          86400000, -86400000, -86400001, -43200000, lo, lo + 1, hi, hi - 1, 1675209600000, 951782400000, 951868799999,
          1709164800000 + 45296789, -2208988800000, -2208988800001, 253402214400000, 4102444800000, -11644473600000,
          1735603199999, 1735603200000, 1609459199999}
    for _ in range(n_rand):
        vs.add(rng.randint(lo, hi))
        vs.add(rng.randint(-10 ** 10, 10 ** 10))
    return sorted(vs)


def arg_class(x):
    if x is None:
        return "null"
    if isinstance(x, bool):
        return "T" if x else "F"
    if isinstance(x, float):
        if x != x:
            return "nan"
        if abs(x) == R.INF:
            return "+inf" if x > 0 else "-inf"
        if x == 0:
            return "-0" if R.isneg0(x) else "+0"
        a = abs(x)
        c = "sub" if a < 2.2250738585072014e-308 else ("tiny" if a < 1e-3 else ("unit" if a <= 1 else ("mid" if a < 2.0 ** 24 else ("big" if a < 2.0 ** 53 else "huge"))))
        return ("-" if x < 0 else "+") + c + ("" if x != int(x) or a > 1e18 else "i")
    if isinstance(x, (int, Fraction)):
        if x == 0:
            return "0"
        a = abs(x)
        c = "1" if a == 1 else ("s" if a < 128 else ("m" if a < 2 ** 31 else ("l" if a < 2 ** 53 else "xl")))
        fr = "" if isinstance(x, int) or x.denominator == 1 else "f"
        return ("-" if x < 0 else "+") + c + fr
    if isinstance(x, str):
        n = len(x.encode())
        return "s0" if n == 0 else ("s<=12" if n <= 12 else "s>12") + ("u" if n != len(x) else "")
    if isinstance(x, tuple):
        v = x[-1]
        return x[0] + ("-" if v < 0 else "+" if v > 0 else "0")
    return "?"


# =============================================================================================
# families, groups, statements
# =============================================================================================

ARGN = "abcdefgh"


class Fam:
    """An expression family: SQL template over {a},{b},.. and a reference over the decoded arguments."""

    def __init__(self, name, tmpl, ref, boolean=False):
        self.name = name
        self.tmpl = tmpl
        self.ref = ref
        self.boolean = boolean

    def sql(self, amap):
        return "(" + self.tmpl.format(**amap) + ")"


class Group:
    def __init__(self, gid, sig, types, rows, fams, ctas=None, ctxs=CONTEXTS, lit_n=12, nrows=None, const_ok=None):
        self.const_ok = const_ok      # (position, V) -> may this value be the constant partner of every row?
        self.gid = gid
        self.sig = sig
        self.types = types
        self.rows = rows          # list of tuples of V (None when ctas)
        self.fams = fams
        self.ctas = ctas
        self.ctxs = ctxs
        self.lit_n = lit_n
        self.n = len(types)
        self.nrows = nrows if nrows is not None else len(rows)


def chunks(xs, n):
    for i in range(0, len(xs), n):
        yield xs[i:i + n]


def fam_chunks(g, fidx, n):
    """families that may legitimately fail (not implemented ...) get a statement of their own"""
    cur = []
    for i in fidx:
        if getattr(g.fams[i], "may_error", None) is not None:
            yield [i]
            continue
        cur.append(i)
        if len(cur) == n:
            yield cur
            cur = []
    if cur:
        yield cur


def setup_steps(g):
    if g.ctas:
        return [{"sql": g.ctas, "out": "count"}]
    cols = ", ".join(f"{ARGN[i]} {t}" for i, t in enumerate(g.types))
    steps = [{"sql": f"create temp table t (id int, {cols})"}]
    for ch in chunks(list(enumerate(g.rows)), 250):
        steps.append({"sql": "insert into t values " + ",".join("(%d,%s)" % (i, ",".join(v.lit for v in row)) for i, row in ch), "out": "count"})
    return steps


FAMS_PER_STMT = 10


def group_cases(g, thorough, rng):
    """-> list of (case, [descriptor per step])"""
    out = []
    n = g.n
    plain = {ARGN[i]: ARGN[i] for i in range(n)}
    echo = ", ".join(ARGN[:n])
    setup = setup_steps(g)
    nset = len(setup)
    exec_ = {"kind": "det", "policy": "random", "seed": rng.randrange(1 << 30), "partitions": rng.choice([1, 2, 3])}

    for ctx in g.ctxs:
        fidx = [i for i in range(len(g.fams)) if ctx not in getattr(g.fams[i], "skip_ctx", ())]
        st = []
        if ctx in ("flat", "sel"):
            where = " where id % 3 = 1" if ctx == "sel" else ""
            for ch in fam_chunks(g, fidx, FAMS_PER_STMT):
                sel = ", ".join(g.fams[i].sql(plain) for i in ch)
                st.append((f"select id, {echo}, {sel} from t{where}",
                           {"ctx": ctx, "ids": 1, "echo": True, "outs": [(i, "val") for i in ch], "idset": ("mod3",) if ctx == "sel" else ("all",)}))
        elif ctx == "pred":
            for i in (fidx if thorough or len(fidx) <= 6 else sorted(rng.sample(fidx, 6))):
                f = g.fams[i]
                e = f.sql(plain)
                w = e if f.boolean else f"{e} is not null"
                st.append((f"select id, {echo}, {e} from t where {w}",
                           {"ctx": ctx, "ids": 1, "echo": True, "outs": [(i, "val")], "idset": ("pred", i, "true" if f.boolean else "notnull")}))
        elif ctx == "const":
            poss = list(range(n)) if thorough else [rng.randrange(n)]
            for p in poss:
                cand = list(range(g.nrows))
                if g.const_ok is not None:
                    cand = [i for i in cand if g.const_ok(p, g.rows[i][p])]
                for K in rng.sample(cand, min(len(cand), 2 if thorough else 1)):
                    amap = {ARGN[i]: ("k." if i == p else "t.") + ARGN[i] for i in range(n)}
                    ech = ", ".join(amap[ARGN[i]] for i in range(n))
                    for ch in fam_chunks(g, fidx, FAMS_PER_STMT):
                        sel = ", ".join(g.fams[i].sql(amap) for i in ch)
                        st.append((f"select t.id, k.id, {ech}, {sel} from t, (select id, {ARGN[p]} from t where id = {K}) k",
                                   {"ctx": ctx, "ids": 2, "echo": True, "outs": [(i, "val") for i in ch], "idset": ("all",), "constpos": p, "K": K}))
        elif ctx == "case":
            for ch in fam_chunks(g, fidx, FAMS_PER_STMT // 2):
                sel, outs = [], []
                for i in ch:
                    f = g.fams[i]
                    e = f.sql(plain)
                    sel.append(f"case when id % 2 = 0 then {e} end")
                    outs.append((i, "even"))
                    if f.boolean:
                        sel.append(f"case when {e} then 1 when not {e} then 0 else 2 end")
                        outs.append((i, "cond3"))
                    else:
                        sel.append(f"case when {e} is null then 1 else 0 end")
                        outs.append((i, "isnull10"))
                st.append((f"select id, {echo}, {', '.join(sel)} from t", {"ctx": ctx, "ids": 1, "echo": True, "outs": outs, "idset": ("all",)}))
        elif ctx == "join":
            amap = {ARGN[i]: ("y." if i % 2 else "x.") + ARGN[i] for i in range(n)}
            ech = ", ".join(amap[ARGN[i]] for i in range(n))
            nonb = [i for i in fidx if not g.fams[i].boolean]
            for ch in fam_chunks(g, nonb, FAMS_PER_STMT):
                sel = ", ".join(g.fams[i].sql(amap) for i in ch)
                st.append((f"select x.id, {ech}, {sel} from t x join t y on x.id = y.id",
                           {"ctx": ctx, "ids": 1, "echo": True, "outs": [(i, "val") for i in ch], "idset": ("all",)}))
            bf = [i for i in fidx if g.fams[i].boolean]
            must = [i for i in bf if g.fams[i].name in ("=", "is_not_distinct_from")]
            for i in (bf if thorough or len(bf) <= 5 else sorted(set(must + rng.sample(bf, 4)))):
                f = g.fams[i]
                if f.boolean:
                    e = f.sql(amap)
                    st.append((f"select x.id, {ech} from t x join t y on x.id = y.id and {e}",
                               {"ctx": ctx, "ids": 1, "echo": True, "outs": [], "idset": ("pred", i, "true")}))
        elif ctx == "cse":
            for ch in fam_chunks(g, fidx, FAMS_PER_STMT // 2):
                sel, outs = [], []
                for i in ch:
                    e = g.fams[i].sql(plain)
                    sel += [e, e, f"{e} is null"]
                    outs += [(i, "val"), (i, "val"), (i, "isnull")]
                st.append((f"select id, {echo}, {', '.join(sel)} from t", {"ctx": ctx, "ids": 1, "echo": True, "outs": outs, "idset": ("all",)}))
        elif ctx in ("lit", "lit_noopt"):
            if g.rows is None:
                continue
            k = min(len(g.rows), g.lit_n * (3 if thorough else 1))
            ids = sorted(rng.sample(range(len(g.rows)), k))
            for rid in ids:
                amap = {ARGN[i]: g.rows[rid][i].lit for i in range(n)}
                ech = ", ".join(amap[ARGN[i]] for i in range(n))
                for ch in fam_chunks(g, fidx, FAMS_PER_STMT * 2):
                    sel = ", ".join(g.fams[i].sql(amap) for i in ch)
                    st.append((f"select {ech}, {sel}", {"ctx": ctx, "ids": 0, "echo": True, "outs": [(i, "val") for i in ch], "idset": ("one", rid)}))
            # literal contexts need no table
            steps = ([{"sql": "set enable_optimizer to false"}] if ctx == "lit_noopt" else []) + [{"sql": s} for s, _ in st]
            descs = ([None] if ctx == "lit_noopt" else []) + [d for _, d in st]
            for part, (cs, cd) in enumerate(zip(chunks(steps, 40), chunks(descs, 40))):
                pre = [{"sql": "set enable_optimizer to false"}] if (ctx == "lit_noopt" and part > 0) else []
                out.append(({"id": f"{g.gid}/{ctx}/{part}", "exec": {"kind": "det"}, "steps": pre + cs}, [None] * len(pre) + cd))
            continue
        if st:
            # keep cases to tens of statements
            for part, sub in enumerate(chunks(st, 30)):
                steps = list(setup) + [{"sql": s} for s, _ in sub]
                descs = [None] * nset + [d for _, d in sub]
                big = g.nrows > 5000
                out.append(({"id": f"{g.gid}/{ctx}/{part}", "exec": exec_, "steps": steps, "max_rows": 200000 if big else 100000}, descs))
    return out


# =============================================================================================
# judging
# =============================================================================================

def rawkey(raw):
    if isinstance(raw, dict):
        if "f64" in raw:
            f = decode(raw)
            return "nan" if f != f else "f64:%d" % raw["f64"]
        if "f32" in raw:
            f = decode(raw)
            return "nan" if f != f else "f32:%d" % raw["f32"]
        return canon(raw)
    if isinstance(raw, bool):
        return "b1" if raw else "b0"
    if raw is None:
        return "null"
    if isinstance(raw, int):
        return "i%d" % raw
    return canon(raw)


def nullness(exp):
    """set of possible 'is NULL' truth values, or None if unknown"""
    if exp is ANY:
        return None
    if isinstance(exp, OneOf):
        s = set()
        for e in exp.alts:
            x = nullness(e)
            if x is None:
                return None
            s |= x
        return s
    if isinstance(exp, Exact):
        return {exp.v is None}
    return {False}


def expect_out(exp, tr, rid):
    if tr == "val":
        return exp
    if tr == "even":
        return exp if rid % 2 == 0 else NULL
    if tr == "cond3":
        vs = R._val_of(exp)
        if "any" in vs:
            return ANY
        return OneOf(*[Exact(1 if v is True else 0 if v is False else 2) for v in vs])
    ns = nullness(exp)
    if ns is None:
        return ANY
    if tr == "isnull10":
        return OneOf(*[Exact(1 if x else 0) for x in ns])
    return OneOf(*[Exact(bool(x)) for x in ns])


def flat_out_key(flatraw, tr, rid):
    """rawkey the output must have given the flat-context value of the same tuple"""
    if tr == "val":
        return rawkey(flatraw)
    if tr == "even":
        return rawkey(flatraw) if rid % 2 == 0 else "null"
    if tr == "cond3":
        return "i1" if flatraw is True else "i0" if flatraw is False else "i2"
    if tr == "isnull10":
        return "i1" if flatraw is None else "i0"
    return "b1" if flatraw is None else "b0"


def sigclass(sig):
    import re
    return re.sub(r"\(\d+,\d+\)", "", sig)


SEEN_NT = set()


class GState:
    def __init__(self, g):
        self.g = g
        self.args = {}        # id -> [raw args]
        self.flat = {}        # fam idx -> {argkey: raw}
        self.refc = {}        # (fam idx, argkey) -> expectation
        self.pyc = {}         # argkey -> decoded args
        self.failed = set()   # fam idx with failing statements (already reported)
        self.clsc = {}        # argkey -> argument classes


def lit_of_raw(raw, t):
    """SQL literal reproducing an echoed argument value of SQL type t."""
    if raw is None:
        return vnull(t).lit
    v = decode(raw)
    if isinstance(v, bool):
        return "true" if v else "false"
    if isinstance(v, float):
        return f"'{fl_text(v)}'::{t}"
    if isinstance(v, Fraction) or (isinstance(raw, dict) and "d" in raw):
        u, p, s = raw["d"]
        u = int(u["big"]) if isinstance(u, dict) else u
        return f"'{dec_text(u, s)}'::decimal({p},{s})"
    if isinstance(v, int):
        return f"'{v}'::{t}"
    if isinstance(v, str):
        return f"'{v}'"
    if isinstance(v, tuple) and v[0] == "date":
        d = datetime.date.fromordinal(v[1] + R.EPOCH_ORD)
        return f"'{d.year:04d}-{d.month:02d}-{d.day:02d}'::date"
    return str(v)


def min_sql(g, f, argraws):
    amap = {ARGN[i]: lit_of_raw(argraws[i], g.types[i]) for i in range(g.n)}
    return "SELECT " + f.sql(amap)


def report(chk, g, f, ctx, argraws, got_raw, exp, flatraw, tr, kind, sql, rid=0):
    pyargs = [decode(a) for a in argraws]
    sig = {"kind": kind, "fn": f.name, "sig": g.sig}
    if kind == "context-mismatch":
        sig["ctx"] = ctx
    cdiag = getattr(f, "ctx_diag", None)
    if kind == "context-mismatch" and cdiag is not None:
        alt = cdiag(ctx, pyargs)
        if alt:
            sig = alt
    diag = getattr(f, "diag", None)
    if kind == "wrong-value" and diag is not None:
        try:
            extra = diag(pyargs, got_raw, tr, rid)
        except Exception:
            extra = None
        if extra:
            sig.update(extra)
            if "as" in extra and extra.get("fn") in ("date_part", "date_trunc"):
                sig.pop("sig", None)
    ms = min_sql(g, f, argraws)
    cols = ", ".join(f"{ARGN[i]} {t}" for i, t in enumerate(g.types))
    lits = ", ".join(lit_of_raw(argraws[i], g.types[i]) for i in range(g.n))
    replay = {"cases": [{"id": "min-lit", "steps": [{"sql": ms}]},
                        {"id": "min-col", "steps": [{"sql": f"create temp table t (id int, {cols})"}, {"sql": f"insert into t values (0, {lits})"},
                                                    {"sql": "select id, " + f.sql({ARGN[i]: ARGN[i] for i in range(g.n)}) + " from t"}]}],
              "context_statement": sql[:2000]}
    text = (f"{g.gid} [{ctx}/{tr}] {f.name}({', '.join(map(repr, pyargs))}) over ({g.sig}): got {json.dumps(got_raw)} = {decode(got_raw)!r}; "
            f"reference {exp!r}" + (f"; flat-context value {json.dumps(flatraw)}" if kind == "context-mismatch" else "") + f"\n  minimal: {ms}\n  statement: {sql[:400]}")
    chk.violation(sig, text, replay)


def judge_case(chk, S, case, descs, res, retry_out):
    """Judge one case of a group. Failing multi-family statements are queued for a per-family retry."""
    g = S.g
    cid = case["id"]
    if res is None or "not_run" in res or "fatal" in res:
        chk.inconc("case not run")
        return
    if "died" in res:
        chk.violation(outcome_signature(res), f"{cid}: process died: {json.dumps(res['died'])[:400]}", {"cases": [case]})
        return
    steps = res["steps"]
    for i, (st, d) in enumerate(zip(steps, descs)):
        sql = case["steps"][i]["sql"]
        if d is None:
            if st["outcome"] not in ("rows", "empty"):
                if st["outcome"] == "panic":
                    chk.violation(outcome_signature(st), f"{cid}: setup panic: {sql[:300]} -> {st.get('panic_msg')}", {"cases": [case]})
                else:
                    chk.inconc("group setup failed: " + g.gid.split("/")[0])
                    chk.extra.setdefault("setup_errors", []).append({"case": cid, "sql": sql[:200], "error": (st.get("error") or "")[:200]})
                return
            continue
        if st["outcome"] in ("error", "panic", "deadlock", "diverged", "timeout"):
            fis = sorted({i for i, _ in d["outs"]} | ({d["idset"][1]} if d["idset"][0] == "pred" else set()))
            if len(fis) > 1 and retry_out is not None:
                retry_out.append((g, d, sql, case))
                continue
            f = g.fams[fis[0]] if fis else None
            if st["outcome"] == "panic":
                sig = outcome_signature(st)
                import os as _os
                if _os.environ.get("C05_DEBUG"):
                    print("PANIC", cid, sql[:300], st.get("panic_msg"), flush=True)
                chk.violation(sig, f"{cid}: {sql[:600]} -> panic {st.get('panic_msg')} @ {st.get('panic_loc')}", {"cases": [case]})
            elif st["outcome"] == "error":
                msg = (st.get("error") or "").split("\n")[0]
                if f is not None and getattr(f, "may_error", None) and f.may_error(msg):
                    chk.count("accepted_error/" + f.name)
                    chk.evaluated()
                    chk.nontrivial((f.name, g.sig, d["ctx"], "error"))
                    S.failed.add(fis[0])
                    continue
                from vf.core import strip_numbers
                import re as _re
                sig = {"kind": "unexpected-error", "fn": f.name if f else "?", "sig": sigclass(g.sig), "message": strip_numbers(_re.sub(r"'[^']*'", "'S'", msg))[:100]}
                if fis and fis[0] in S.flat:
                    sig["ctx"] = d["ctx"]
                chk.violation(sig, f"{cid}: {sql[:600]} -> error {msg[:300]}", {"cases": [case]})
            else:
                chk.violation({"kind": "outcome", "class": st["outcome"], "fn": f.name if f else "?", "sig": g.sig}, f"{cid}: {sql[:400]} -> {st['outcome']}", {"cases": [case]})
            for fi in fis:
                S.failed.add(fi)
            continue
        if st["outcome"] != "rows":
            chk.inconc("unexpected outcome " + str(st["outcome"]))
            continue
        judge_rows(chk, S, d, st, sql, cid)


def judge_rows(chk, S, d, st, sql, cid):
    g = S.g
    n = g.n
    ctx = d["ctx"]
    nid = d["ids"]
    rows = st["rows"]
    seen = {}
    idmode = d["idset"]
    for row in rows:
        if idmode[0] == "one":
            rid = idmode[1]
        else:
            rid = row[0]
        seen[rid] = seen.get(rid, 0) + 1
        args = row[nid:nid + n]
        outs = row[nid + n:]
        # expected arguments
        if ctx == "flat":
            if rid not in S.args:
                S.args[rid] = args
                if g.rows is not None and 0 <= rid < len(g.rows):
                    for j in range(n):
                        want = g.rows[rid][j].py
                        got = decode(args[j])
                        same = (want is None and got is None) or (want is not None and got is not None and (got == want or (want != want and got != got)))
                        if not same:
                            chk.count("argument_stored_differs_from_literal(C13)")
        else:
            base = S.args.get(rid)
            if base is None and idmode[0] == "one" and g.rows is not None:
                base = None   # literal of a row that was not echoed by the flat context: trust the echo
            if base is not None:
                want = list(base)
                if "constpos" in d:
                    kb = S.args.get(d["K"])
                    if kb is None:
                        want = None
                    else:
                        want[d["constpos"]] = kb[d["constpos"]]
                if want is not None and [rawkey(x) for x in want] != [rawkey(x) for x in args]:
                    chk.violation({"kind": "echo-mismatch", "sig": g.sig, "ctx": ctx},
                                  f"{cid}: row id {rid}: arguments echoed as {json.dumps(args)} but the table holds {json.dumps(want)}\n  {sql[:400]}", None)
                    continue
        key = tuple(rawkey(a) for a in args)
        py = S.pyc.get(key)
        if py is None:
            py = S.pyc[key] = [decode(a) for a in args]
        for (fi, tr), raw in zip(d["outs"], outs):
            f = g.fams[fi]
            ck = (fi, key)
            exp = S.refc.get(ck)
            if exp is None:
                exp = S.refc[ck] = f.ref(py)
            chk.evaluated()
            got = decode(raw)
            e_out = expect_out(exp, tr, rid)
            ok_ref = R.matches(e_out, raw, got)
            fl = S.flat.setdefault(fi, {})
            if ctx == "flat":
                if key in fl and rawkey(fl[key]) != rawkey(raw) and tr == "val":
                    # same tuple twice in the table with different results
                    report(chk, g, f, ctx, args, raw, exp, fl[key], tr, "context-mismatch", sql)
                fl.setdefault(key, raw)
                ok_flat = True
                flatraw = raw
            else:
                if key in fl:
                    flatraw = fl[key]
                    ok_flat = flat_out_key(flatraw, tr, rid) == rawkey(raw)
                else:
                    flatraw, ok_flat = None, True
            if not ok_flat:
                report(chk, g, f, ctx, args, raw, exp, flatraw, tr, "context-mismatch", sql, rid)
            elif not ok_ref:
                report(chk, g, f, ctx, args, raw, exp, flatraw, tr, "wrong-value", sql, rid)
            else:
                cls = S.clsc.get(key)
                if cls is None:
                    cls = S.clsc[key] = tuple(arg_class(a) for a in py)
                nk = (f.name, g.sig, ctx, tr, cls, exp is ANY)
                if nk not in SEEN_NT:
                    SEEN_NT.add(nk)
                    chk.nontrivial((f.name, g.sig, ctx, tr, cls, "any" if exp is ANY else "ref"))
        chk.count("values/" + ctx, len(outs))
    # ---- row set ----
    if idmode[0] == "one":
        if len(rows) != 1:
            chk.violation({"kind": "row-count", "sig": g.sig, "ctx": ctx}, f"{cid}: literal select returned {len(rows)} rows: {sql[:300]}", None)
        return
    dup = [r for r, c in seen.items() if c > 1]
    if dup:
        chk.violation({"kind": "row-set", "what": "duplicate", "sig": g.sig, "ctx": ctx}, f"{cid}: ids returned more than once {dup[:5]}: {sql[:400]}", None)
    if not S.args:
        return
    allids = set(S.args)
    if idmode[0] == "all":
        want_in, dont_care = allids, set()
    elif idmode[0] == "mod3":
        want_in, dont_care = {r for r in allids if r % 3 == 1}, set()
    else:
        fi, mode = idmode[1], idmode[2]
        f = g.fams[fi]
        want_in, dont_care = set(), set()
        if ctx == "join":
            amap_src = None
        for r in allids:
            a = S.args[r]
            key = tuple(rawkey(x) for x in a)
            fl = S.flat.get(fi, {})
            if key in fl:
                v = fl[key]
                keep = (v is True) if mode == "true" else (v is not None)
            else:
                if fi in S.failed:
                    dont_care.add(r)
                    continue
                py = S.pyc.get(key) or [decode(x) for x in a]
                exp = S.refc.get((fi, key)) or f.ref(py)
                if mode == "true":
                    vs = R._val_of(exp) if not isinstance(exp, (Approx, Real)) else {"any"}
                    if "any" in vs or len({v is True for v in vs}) > 1:
                        dont_care.add(r)
                        continue
                    keep = True in vs
                else:
                    ns = nullness(exp)
                    if ns is None or len(ns) > 1:
                        dont_care.add(r)
                        continue
                    keep = not next(iter(ns))
            if keep:
                want_in.add(r)
        chk.evaluated(len(allids))
        chk.count("where_rows_judged/" + ctx, len(allids))
    got_in = set(seen)
    missing = sorted(want_in - got_in - dont_care)
    extra = sorted(got_in - want_in - dont_care)
    if missing or extra:
        fam = g.fams[idmode[1]].name if idmode[0] == "pred" else None
        ex = (missing + extra)[0]
        a = S.args.get(ex)
        detail = ""
        if a is not None and fam is not None:
            detail = f"; e.g. id {ex} args {[decode(x) for x in a]!r}: {min_sql(g, g.fams[idmode[1]], a)}"
        sig = {"kind": "row-set", "fn": fam, "sig": g.sig, "ctx": ctx, "what": "missing" if missing else "extra"}
        if fam in ("=", "is_not_distinct_from") and ctx == "join" and missing and not extra:
            def zero_pair(r):
                a = S.args.get(r)
                if a is None:
                    return False
                x, y = decode(a[0]), decode(a[1])
                return x is not None and y is not None and x == 0 and y == 0 and (R.isneg0(x) if isinstance(x, float) else False) != (R.isneg0(y) if isinstance(y, float) else False)
            if all(zero_pair(r) for r in missing):
                sig = {"kind": "row-set", "fn": fam, "ctx": "join", "what": "float-zero-sign"}
        chk.violation(sig,
                      f"{cid}: predicate/selection kept the wrong rows: missing ids {missing[:8]} (of {len(missing)}), unexpected ids {extra[:8]} (of {len(extra)}){detail}\n  {sql[:500]}", None)
    else:
        chk.nontrivial(("rowset", g.sig, ctx, idmode[0], g.fams[idmode[1]].name if idmode[0] == "pred" else ""))


# =============================================================================================
# family tables
# =============================================================================================

def is32(t):
    return t == "real"


def with_nulls(vals, t, k=1):
    return list(vals) + [vnull(t)] * k


def pair_rows(A, B, rng, limit, third=None):
    """rows (a, b[, c]) from pools A, B (lists of V): all pairs when small, else the 'diagonal' (equal / adjacent
    values) plus a random sample."""
    pairs = []
    if len(A) * len(B) <= limit:
        pairs = [(a, b) for a in A for b in B]
    else:
        bypy = {}
        for b in B:
            if b.py is not None and not (isinstance(b.py, float) and b.py != b.py):
                bypy.setdefault(b.py, b)
        diag = []
        for a in A:
            if a.py is None or (isinstance(a.py, float) and a.py != a.py):
                continue
            if a.py in bypy:
                diag.append((a, bypy[a.py]))
        import bisect
        numB = sorted([b for b in B if isinstance(b.py, (int, Fraction)) and not isinstance(b.py, bool)], key=lambda b: b.py)
        keysB = [b.py for b in numB]
        for a in A:
            if isinstance(a.py, (int, Fraction)) and not isinstance(a.py, bool) and numB:
                i = bisect.bisect_left(keysB, a.py)
                for j in (i - 1, i, i + 1):
                    if 0 <= j < len(numB) and numB[j].py != a.py:
                        diag.append((a, numB[j]))
        nulls = [(a, b) for a in A for b in B if a.py is None or b.py is None]
        rng.shuffle(diag)
        rng.shuffle(nulls)
        pairs = diag[:limit // 2] + nulls[:max(6, limit // 12)]
        while len(pairs) < limit:
            pairs.append((rng.choice(A), rng.choice(B)))
    rng.shuffle(pairs)
    if third is None:
        return pairs
    return [(a, b, rng.choice(third)) for a, b in pairs]


def lossy_diag(f):
    """Is a wrong comparison-derived value explained by comparing integers as DOUBLE / REAL?"""
    def d(py, raw, tr, rid):
        got = decode(raw)
        if not all(x is None or (isinstance(x, int) and not isinstance(x, bool)) for x in py):
            return None
        for name, conv in (("double", float), ("real", lambda x: R.f32r(float(x)))):
            try:
                py2 = [None if x is None else conv(x) for x in py]
                e = expect_out(f.ref(py2), tr, rid)
            except Exception:
                continue
            if R.matches(e, raw, got):
                return {"fn": "compare", "as": name}
        return None
    return d


def cmp_fams(ta, tb, same, thorough):
    kw = {"f32a": is32(ta), "f32b": is32(tb)}
    kwb = {"f32a": is32(tb), "f32b": is32(tb)}
    fams = []
    for name, op in (("=", "="), ("<>", "<>"), ("!=", "<>"), ("<", "<"), ("<=", "<="), (">", ">"), (">=", ">=")):
        f = Fam(name, "{a} " + name + " {b}", (lambda py, op=op: R.cmp_ref(op, py[0], py[1], **kw)), boolean=True)
        fams.append(f)
    f = Fam("is_distinct_from", "{a} is distinct from {b}", lambda py: R.distinct_ref(False, py[0], py[1], **kw), boolean=True)
    fams.append(f)
    f = Fam("is_not_distinct_from", "{a} is not distinct from {b}", lambda py: R.distinct_ref(True, py[0], py[1], **kw), boolean=True)
    fams.append(f)

    def betw(neg):
        def r(py):
            e = R.combine3(R.and3, R.cmp_ref(">=", py[0], py[1], **kw), R.cmp_ref("<=", py[0], py[2], **kw))
            return R.combine3(R.not3, e) if neg else e
        return r
    fams.append(Fam("between", "{a} between {b} and {c}", betw(False), boolean=True))
    fams.append(Fam("not_between", "{a} not between {b} and {c}", betw(True), boolean=True))

    def inl(neg, with_null):
        def r(py):
            items = [R.cmp_ref("=", py[0], py[1], **kw)]
            items.append(NULL if with_null else R.cmp_ref("=", py[0], py[2], **kw))
            e = R.combine3(R.or3, *items)
            return R.combine3(R.not3, e) if neg else e
        return r
    fams.append(Fam("in_list", "{a} in ({b}, {c})", inl(False, False), boolean=True))
    fams.append(Fam("not_in_list", "{a} not in ({b}, {c})", inl(True, False), boolean=True))
    # (an untyped NULL next to a DECIMAL fails to bind: probed separately in misc_probes)
    nl = f"NULL::{tb}" if (ta.startswith("decimal") or tb.startswith("decimal")) else "NULL"
    fams.append(Fam("in_list_null", "{a} in ({b}, " + nl + ")", inl(False, True), boolean=True))
    fams.append(Fam("not_in_list_null", "{a} not in ({b}, " + nl + ")", inl(True, True), boolean=True))
    fams.append(Fam("is_null", "{a} is null", lambda py: Exact(py[0] is None), boolean=True))
    fams.append(Fam("is_not_null", "{b} is not null", lambda py: Exact(py[1] is not None), boolean=True))
    if same:
        def passv(v):
            return Exact(v, zsign=True) if isinstance(v, float) else Exact(v)

        def coalesce(k):
            def r(py):
                for v in py[:k]:
                    if v is not None:
                        return passv(v)
                return NULL
            return r
        fams.append(Fam("coalesce2", "coalesce({a}, {b})", coalesce(2)))
        fams.append(Fam("coalesce3", "coalesce({a}, {b}, {c})", coalesce(3)))
        fams.append(Fam("coalesce1", "coalesce({c})", coalesce(1) if False else (lambda py: passv(py[2]))))

        def case_simple(has_else):
            def r(py):
                e1 = R.cmp_ref("=", py[0], py[1], **kw)
                e2 = R.cmp_ref("=", py[0], py[2], **kw)
                if e1 is ANY or e2 is ANY:
                    return ANY
                if e1.v is True:
                    return Exact(1)
                if e2.v is True:
                    return Exact(2)
                return Exact(0) if has_else else NULL
            return r
        fams.append(Fam("case_simple", "case {a} when {b} then 1 when {c} then 2 end", case_simple(False)))
        fams.append(Fam("case_simple_else", "case {a} when {b} then 1 when {c} then 2 else 0 end", case_simple(True)))

        def case_searched(py):
            e1 = R.cmp_ref("<", py[0], py[1], **kw)
            e2 = R.cmp_ref(">", py[0], py[1], **kw)
            if e1 is ANY or e2 is ANY:
                return ANY
            if e1.v is True:
                return passv(py[0])
            if e2.v is True:
                return passv(py[1])
            return NULL
        fams.append(Fam("case_searched", "case when {a} < {b} then {a} when {a} > {b} then {b} end", case_searched))

        def case_nullcond(py):
            # WHEN NULL is never taken
            e = R.cmp_ref("=", py[0], py[1], **kw)
            if e is ANY:
                return ANY
            return passv(py[2]) if e.v is True else passv(py[0])
        fams.append(Fam("case_null_cond", "case when NULL then {b} when {a} = {b} then {c} else {a} end", case_nullcond))
    if ta in INT_TYPES and tb in INT_TYPES:
        for f in fams:
            f.diag = lossy_diag(f)
    return fams


def pool_for(t, rng, thorough, extra=()):
    """list of V for SQL type t (without NULL)"""
    if t in INT_TYPES:
        return [vint(v, t) for v in int_pool(t, rng, 6 if thorough else 3, extra)]
    if t in ("double", "real"):
        return [vfloat(v, t) for v in float_pool(t, rng, 12 if thorough else 5)]
    if t.startswith("decimal"):
        p, s = map(int, t[8:-1].split(","))
        return [vdec(u, p, s) for u in dec_pool(p, s, rng, 6 if thorough else 3)]
    if t == "text":
        return [vtext(s) for s in TEXT_POOL]
    if t == "date":
        return [vdate(d) for d in date_pool(rng, 10 if thorough else 4)]
    if t == "boolean":
        return [vbool(True), vbool(False)]
    raise KeyError(t)


def boundary_extras():
    ex = set()
    for t in INT_T:
        lo, hi = int_range(t)
        ex |= {lo, lo + 1, lo - 1, hi, hi - 1, hi + 1}
    ex |= {2 ** 53, 2 ** 53 + 1, 2 ** 53 - 1, -(2 ** 53) - 1, 2 ** 24 + 1, 2 ** 24, 2 ** 63 + 1025, 2 ** 63 - 1025, 2 ** 62 + 1, 2 ** 64 - 2049}
    return ex


def build_cmp_groups(rng, thorough):
    groups = []
    lim = 700 if thorough else 160
    same_types = INT_T + ["real", "double", "decimal(9,2)", "decimal(18,4)", "decimal(30,6)", "decimal(38,0)", "text", "date", "boolean"]
    ex = boundary_extras()
    for t in same_types:
        A = with_nulls(pool_for(t, rng, thorough, ex), t, 2)
        rows = pair_rows(A, A, rng, lim, third=A)
        groups.append(Group(f"cmp/{t}", f"{t},{t}", [t, t, t], rows, cmp_fams(t, t, True, thorough)))
    mixed = [(a, b) for a in INT_T for b in INT_T if a != b]
    if not thorough:
        must = [("bigint", "ubigint"), ("ubigint", "bigint")]
        rest = [m for m in mixed if m not in must]
        mixed = must + rng.sample(rest, 10)
    mixed += [("int", "double"), ("bigint", "double"), ("ubigint", "double"), ("int", "real"), ("bigint", "real"), ("double", "bigint"), ("real", "int"),
              ("real", "double"), ("double", "real"),
              ("int", "decimal(9,2)"), ("bigint", "decimal(18,4)"), ("decimal(18,4)", "bigint"), ("ubigint", "decimal(30,6)"), ("tinyint", "decimal(38,0)"),
              ("decimal(9,2)", "decimal(18,4)"), ("decimal(18,4)", "decimal(9,2)"), ("decimal(9,2)", "decimal(30,6)"), ("decimal(30,6)", "decimal(18,4)"),
              ("decimal(30,0)", "decimal(30,6)"), ("decimal(5,0)", "decimal(5,5)"), ("decimal(9,2)", "double"), ("double", "decimal(18,4)"), ("decimal(30,6)", "real")]
    for ta, tb in mixed:
        A = with_nulls(pool_for(ta, rng, thorough, ex), ta)
        B = with_nulls(pool_for(tb, rng, thorough, ex), tb)
        if ta == "ubigint" and tb.startswith("decimal"):
            # ubigint values >= 10^19 fail the implicit cast to DECIMAL(19,0): probed separately in misc_probes
            A = [v for v in A if v.py is None or v.py < 10 ** 19]
        rows = pair_rows(A, B, rng, lim, third=B)
        ctxs = CONTEXTS if thorough else ("flat", "pred", "const", "lit", "join")
        groups.append(Group(f"cmpx/{ta}~{tb}", f"{ta},{tb}", [ta, tb, tb], rows, cmp_fams(ta, tb, False, thorough), ctxs=ctxs))
    return groups


# =============================================================================================
# driver
# =============================================================================================

def run_groups(chk, groups, rng, thorough, wall_s, extra_cases=()):
    allcases = list(extra_cases)
    meta_by_group = {}
    for g in groups:
        cs = group_cases(g, thorough, rng)
        meta_by_group[g.gid] = cs
        allcases += [c for c, _ in cs]
    ids = [c["id"] for c in allcases]
    assert len(ids) == len(set(ids)), "duplicate case ids"
    import time as _t
    _t0 = _t.time()
    results, meta = vrun.run_sharded(allcases, shards=16, wall_s=wall_s)
    chk.extra["engine_wall_s"] = round(chk.extra.get("engine_wall_s", 0) + _t.time() - _t0, 1)
    chk.extra["process_restarts"] = chk.extra.get("process_restarts", 0) + meta.get("restarts", 0)
    chk.count("cases", len(allcases))
    chk.count("statements", sum(len(c["steps"]) for c in allcases))
    chk.extra["_last_results"] = results
    global _W_GROUPS, _W_META, _W_RESULTS
    _t1 = _t.time()
    _W_GROUPS = {g.gid: g for g in groups}
    _W_META = meta_by_group
    _W_RESULTS = results
    retry = []
    gids = [g.gid for g in groups]
    recs = None
    if len(gids) > 4:
        try:
            import multiprocessing as mp
            with mp.get_context("fork").Pool(min(14, len(gids))) as pool:
                recs = pool.map(_judge_group_worker, gids, chunksize=1)
        except Exception as e:      # fall back to in-process judging
            chk.count("parallel_judge_fallback")
            recs = None
    if recs is None:
        recs = [_judge_group_worker(gid) for gid in gids]
    for gid, rec in zip(gids, recs):
        g = _W_GROUPS[gid]
        chk.evaluated(rec.ev)
        for k, n in rec.counts.items():
            chk.count(k, n)
        for k in rec.nt:
            chk.nontrivial(k)
        for r, n in rec.inc.items():
            chk.inconc(r, n)
        for sig, text, replay in rec.viol:
            chk.violation(sig, text, replay)
        for k, v in rec.extra.items():
            chk.extra.setdefault(k, []).extend(v)
        for (d, sql, cid) in rec.retry:
            case = next(c for c, _ in meta_by_group[gid] if c["id"] == cid)
            retry.append((g, d, sql, case))
        cs = meta_by_group[gid]
        if len(chk.samples) < 8 and cs:
            case = cs[0][0]
            chk.sample({"group": g.gid, "signature": g.sig, "families": [f.name for f in g.fams][:40], "rows": g.nrows, "sql": case["steps"][-1]["sql"][:300]})
    _W_RESULTS = None
    chk.extra["judge_wall_s"] = round(chk.extra.get("judge_wall_s", 0) + _t.time() - _t1, 1)
    return retry


_W_GROUPS = _W_META = _W_RESULTS = None


class Rec:
    """records the Check calls of one group's judging (made in a worker process)"""

    def __init__(self):
        self.ev = 0
        self.counts = {}
        self.nt = []
        self.inc = {}
        self.viol = []
        self.extra = {}
        self.retry = []
        self.samples = []

    def evaluated(self, n=1):
        self.ev += n

    def count(self, k, n=1):
        self.counts[k] = self.counts.get(k, 0) + n

    def nontrivial(self, k):
        self.nt.append(k)

    def inconc(self, r, n=1):
        self.inc[r] = self.inc.get(r, 0) + n

    def violation(self, sig, text, replay=None):
        key = canon(sig)
        if any(canon(s0) == key for s0, _, _ in self.viol):
            self.count("duplicate_violations")
            return
        self.viol.append((sig, text, replay))

    def sample(self, obj, cap=8):
        pass


def _judge_group_worker(gid):
    g = _W_GROUPS[gid]
    rec = Rec()
    S = GState(g)
    cs = sorted(_W_META[gid], key=lambda cd: 0 if "/flat/" in cd[0]["id"] else 1)
    retry = []
    for case, descs in cs:
        judge_case(rec, S, case, descs, _W_RESULTS.get(case["id"]), retry)
    rec.retry = [(d, sql, case["id"]) for (_, d, sql, case) in retry]
    return rec


def run_retries(chk, retry, rng, thorough, wall_s, extra_cases=()):
    """Statements with several families that failed: re-run each family on its own to attribute the failure."""
    sub = []
    seen = set()
    for g, d, sql, case in retry:
        fis = sorted({i for i, _ in d["outs"]} | ({d["idset"][1]} if d["idset"][0] == "pred" else set()))
        for fi in fis:
            k = (g.gid, fi, d["ctx"])
            if k in seen:
                continue
            seen.add(k)
            ctxs = ("flat", d["ctx"]) if d["ctx"] != "flat" else ("flat",)
            sg = Group(f"{g.gid}#{fi}.{d['ctx']}", g.sig, g.types, g.rows, [g.fams[fi]], ctas=g.ctas, ctxs=ctxs, lit_n=g.lit_n, nrows=g.nrows, const_ok=g.const_ok)
            sub.append(sg)
    if not sub and not extra_cases:
        return
    chk.count("retried_single_family_groups", len(sub))
    run_groups(chk, sub, rng, thorough, wall_s, extra_cases)


def run(chk):
    thorough = chk.tier == "thorough"
    rng = chk.rng
    chk.rule = ("table of (operator/function, signature, Python reference, argument pool); argument tuples are stored in temp tables "
                "(boundary-biased pools incl. NULL, +-0, NaN, +-inf, subnormals, type limits; exhaustive 8-bit pairs and 3^3 truth tables) and every "
                "family is evaluated in the contexts flat / selection (id%3=1) / WHERE on the expression itself / constant vector from a one-row "
                "cross join / literals with optimizer on and off / CASE branch and CASE condition / JOIN ON / duplicated sub-expression; each value "
                "is compared with the reference on the echoed arguments and with the flat-context value of the same tuple. distinct non-trivial = "
                "distinct (family, signature, context, transform, argument classes) judged without deviation")
    chk.assumptions = ["Python float arithmetic is IEEE-754 binary64 and math.* is within 1 ulp", "Python int/Fraction/datetime are exact (proleptic Gregorian)",
                       "comparisons of an exact numeric with a float may be made exactly or after converting the exact operand to the float type (both accepted)",
                       "functions defined on floats only receive exact numerics converted to the nearest DOUBLE (dialect fact)"]
    groups = []
    groups += build_cmp_groups(rng, thorough)
    groups += build_logic_groups(rng, thorough)
    groups += build_arith_groups(rng, thorough)
    groups += build_numeric_groups(rng, thorough)
    groups += build_datetime_groups(rng, thorough)
    groups += build_precedence_groups(rng, thorough)
    groups += build_sweep_groups(rng, thorough)
    import os
    only = os.environ.get("C05_ONLY")     # development aid: comma-separated group-id prefixes (plus "misc", "doc")
    if only:
        groups = [g for g in groups if any(g.gid.startswith(o) for o in only.split(","))]
    SEEN_NT.clear()
    misc_cases = misc_probe_cases() if (not only or "misc" in only) else []
    doc_q = [DOC_LIST_CASE] if (not only or "doc" in only) else []
    retry = run_groups(chk, groups, rng, thorough, 1700 if thorough else 400, misc_cases + doc_q)
    res1 = chk.extra.pop("_last_results", {})
    if misc_cases:
        judge_misc(chk, misc_cases, res1)
    doc_cases = doc_example_cases(chk, res1) if doc_q else []
    run_retries(chk, retry, rng, thorough, 600, [c for c, *_ in doc_cases])
    res2 = chk.extra.pop("_last_results", {})
    if doc_cases:
        judge_doc_examples(chk, doc_cases, res2)
    if not only:
        for ctx in CONTEXTS:
            chk.floor(chk.counters.get("values/" + ctx, 0) > 1000, f"fewer than 1000 values judged in context {ctx}")
        chk.floor(chk.evaluations > 500000, "fewer than 500000 values judged")
        chk.floor(chk.counters.get("doc_examples_checked", 0) >= 40, "fewer than 40 documented examples checked")
    chk.extra["contexts"] = list(CONTEXTS)
    if not only:
        guarded_evaluation(chk, rng, thorough)


def guarded_evaluation(chk, rng, thorough):
    """A sub-expression that fails on some rows, written under a CASE guard that excludes exactly those rows, and written
    several times in one statement (select list, two CASE expressions, WHEN and THEN of one CASE, WHERE): the guard must keep
    protecting it wherever common sub-expressions are shared. Failing operations: text casts (clean errors, no recorded finding)."""
    cases = []
    meta = {}
    for gi in range(60 if thorough else 12):
        n = rng.choice([3, 9, 40, 300])
        rows = []
        for i in range(n):
            k = rng.random()
            s = str(rng.randint(-500, 500)) if k < 0.6 else rng.choice(["n/a", "", "x1", "1.5.2", "--3"]) if k < 0.9 else None
            rows.append((i, s))
        ok = lambda s_: s_ is not None and re.fullmatch(r"-?\d+", s_) is not None
        guard = "regexp_like(s, '^-?[0-9]+$')"
        bad_first = rng.random() < 0.5
        if bad_first:
            rows.sort(key=lambda r: ok(r[1]))
        steps = [{"sql": "CREATE TEMP TABLE g (id INT, s TEXT)", "out": "count"}]
        for lo in range(0, n, 200):
            steps.append({"sql": "INSERT INTO g VALUES " + ", ".join(f"({i}, {'NULL' if s_ is None else chr(39) + s_ + chr(39)})" for i, s_ in rows[lo:lo + 200]), "out": "count"})
        steps.append({"sql": f"SET batch_size TO {rng.choice([1, 4, 2048])}", "out": "count"})
        steps.append({"sql": f"SET enable_optimizer TO {rng.choice(['true', 'true', 'false'])}", "out": "count"})
        nload = len(steps)
        E = "CAST(s AS INT)"
        iv = lambda s_: int(s_) if ok(s_) else None
        qs = [
            (f"SELECT id, CASE WHEN {guard} THEN {E} ELSE -1 END, CASE WHEN {guard} THEN {E} + 1 ELSE -2 END FROM g",
             [(i, iv(s_) if ok(s_) else -1, iv(s_) + 1 if ok(s_) else -2) for i, s_ in rows]),
            # (nested CASE, not AND: only CASE promises not to evaluate what its condition excludes)
            (f"SELECT id, CASE WHEN {guard} THEN CASE WHEN {E} > 0 THEN {E} ELSE 0 END ELSE 0 END FROM g",
             [(i, iv(s_) if ok(s_) and iv(s_) > 0 else 0) for i, s_ in rows]),
            (f"SELECT id, CASE WHEN {guard} THEN {E} * 2 END AS a, CASE WHEN NOT coalesce({guard}, false) THEN -1 ELSE {E} END AS b FROM g",
             [(i, iv(s_) * 2 if ok(s_) else None, iv(s_) if ok(s_) else -1) for i, s_ in rows]),
            (f"SELECT id FROM g WHERE CASE WHEN {guard} THEN {E} ELSE 0 END > 10 AND CASE WHEN {guard} THEN {E} ELSE 0 END < 400",
             [(i,) for i, s_ in rows if ok(s_) and 10 < iv(s_) < 400]),
            (f"SELECT sum(CASE WHEN {guard} THEN {E} ELSE 0 END), count(CASE WHEN {guard} THEN {E} END), max(CASE WHEN {guard} THEN {E} END) FROM g",
             [(sum(iv(s_) for i, s_ in rows if ok(s_)) if rows else None, sum(1 for i, s_ in rows if ok(s_)), max([iv(s_) for i, s_ in rows if ok(s_)], default=None))]),
            (f"SELECT id, coalesce(CASE WHEN {guard} THEN {E} END, -7), CASE WHEN {guard} THEN {E} END IS NULL FROM g",
             [(i, iv(s_) if ok(s_) else -7, not ok(s_)) for i, s_ in rows]),
        ]
        for sql, _ in qs:
            steps.append({"sql": sql})
        c = {"id": f"c05-guard-{gi}", "exec": {"kind": "det", "policy": "random", "seed": rng.randint(0, 1 << 30), "partitions": rng.choice([1, 2, 4])}, "steps": steps, "max_rows": 2000}
        cases.append(c)
        meta[c["id"]] = (nload, qs, any(not ok(s_) for _, s_ in rows))
    results, _ = vrun.run_sharded(cases, shards=16, wall_s=600)
    from vf import compare as _cmp
    for c in cases:
        nload, qs, has_bad = meta[c["id"]]
        r = results.get(c["id"])
        if r is None or "steps" not in r:
            chk.inconc("guarded-evaluation case not run")
            continue
        if any(st["outcome"] not in ("rows", "empty") for st in r["steps"][:nload]):
            chk.inconc("guarded-evaluation table could not be loaded")
            continue
        for qi, ((sql, want), st) in enumerate(zip(qs, r["steps"][nload:])):
            if st["outcome"] == "skipped":
                break
            chk.evaluated(len(want))
            replay = {"cases": [c], "sql": sql}
            if st["outcome"] == "panic":
                chk.violation(outcome_signature(st), f"guarded evaluation: panic {st.get('panic_msg')} @ {st.get('panic_loc')}\n  {sql}", replay)
                break
            if st["outcome"] != "rows":
                first = (st.get("error") or "").split("\n")[0]
                chk.violation({"kind": "guarded-expression-evaluated", "shape": qi}, f"an expression guarded by CASE was evaluated for rows its guard excludes (or the statement failed otherwise): {first}\n  {sql}", replay)
                continue
            got = [_cmp.dec_row(x) for x in st.get("rows", [])]
            okb, why = _cmp.bag_equal([tuple(w) for w in want], got)
            if not okb:
                chk.violation({"kind": "wrong-value", "fn": "case-guard", "shape": qi}, f"guarded evaluation: {why}\n  {sql}", replay)
            elif has_bad:
                chk.nontrivial(("case-guard", qi, c["id"]))
                chk.count("values/guarded", len(want))


# ---- boolean logic ---------------------------------------------------------------------------

def build_logic_groups(rng, thorough):
    B = [vbool(True), vbool(False), vnull("boolean")]
    rows = [(a, b, c) for a in B for b in B for c in B]
    rows = rows * 3
    rng.shuffle(rows)
    fams = []

    def add(name, tmpl, fn):
        fams.append(Fam(name, tmpl, lambda py, fn=fn: Exact(fn(*py)), boolean=True))
    A3, O3, N3 = R.and3, R.or3, R.not3
    add("and", "{a} and {b}", lambda a, b, c: A3(a, b))
    add("or", "{a} or {b}", lambda a, b, c: O3(a, b))
    add("not", "not {a}", lambda a, b, c: N3(a))
    add("and3", "{a} and {b} and {c}", lambda a, b, c: A3(a, b, c))
    add("or3", "{a} or {b} or {c}", lambda a, b, c: O3(a, b, c))
    add("and_or", "{a} and {b} or {c}", lambda a, b, c: O3(A3(a, b), c))
    add("or_and", "{a} or {b} and {c}", lambda a, b, c: O3(a, A3(b, c)))
    add("paren_or_and", "({a} or {b}) and {c}", lambda a, b, c: A3(O3(a, b), c))
    add("not_and", "not {a} and {b}", lambda a, b, c: A3(N3(a), b))
    add("not_paren_or", "not ({a} or {b})", lambda a, b, c: N3(O3(a, b)))
    add("and_not", "{a} and not {b}", lambda a, b, c: A3(a, N3(b)))
    add("not_not", "not not {a}", lambda a, b, c: a)
    add("demorgan", "not ({a} and {b}) or {c}", lambda a, b, c: O3(N3(A3(a, b)), c))
    add("and_fn", "and({a}, {b}, {c})", lambda a, b, c: A3(a, b, c))
    add("or_fn", "or({a}, {b}, {c})", lambda a, b, c: O3(a, b, c))
    add("and_fn2", '"and"({a}, {b})', lambda a, b, c: A3(a, b))
    add("or_fn2", '"or"({a}, {b})', lambda a, b, c: O3(a, b))
    add("not_fn", '"not"({a})', lambda a, b, c: N3(a))
    consts = (("true", True), ("false", False), ("NULL", None), ("NULL::boolean", None))
    for ct, cv in consts:
        tag = ct.replace("::boolean", "b").lower()
        add(f"and_const_r/{tag}", "{a} and " + ct, lambda a, b, c, cv=cv: A3(a, cv))
        add(f"and_const_l/{tag}", ct + " and {a}", lambda a, b, c, cv=cv: A3(cv, a))
        add(f"or_const_r/{tag}", "{a} or " + ct, lambda a, b, c, cv=cv: O3(a, cv))
        add(f"or_const_l/{tag}", ct + " or {a}", lambda a, b, c, cv=cv: O3(cv, a))
        add(f"and3_const_m/{tag}", "{a} and " + ct + " and {c}", lambda a, b, c, cv=cv: A3(a, cv, c))
        add(f"or3_const_m/{tag}", "{a} or " + ct + " or {c}", lambda a, b, c, cv=cv: O3(a, cv, c))
        add(f"and_or_const/{tag}", "({a} or " + ct + ") and {b}", lambda a, b, c, cv=cv: A3(O3(a, cv), b))
    add("not_null", "not NULL::boolean or {a}", lambda a, b, c: O3(None, a))
    # IS predicates: the documentation's table says NULL for a NULL input, the operator-function docs and SQL say
    # FALSE/TRUE: both accepted, contexts must agree
    def isp(name, tmpl, on_null, fn):
        def r(py):
            x = py[0]
            if x is None:
                return OneOf(Exact(on_null), NULL)
            return Exact(fn(x))
        fams.append(Fam(name, tmpl, r, boolean=True))
    isp("is_true", "{a} is true", False, lambda x: x is True)
    isp("is_not_true", "{a} is not true", True, lambda x: x is not True)
    isp("is_false", "{a} is false", False, lambda x: x is False)
    isp("is_not_false", "{a} is not false", True, lambda x: x is not False)
    isp("is_true_fn", "is_true({a})", False, lambda x: x is True)
    isp("is_not_true_fn", "is_not_true({a})", True, lambda x: x is not True)
    isp("is_false_fn", "is_false({a})", False, lambda x: x is False)
    isp("is_not_false_fn", "is_not_false({a})", True, lambda x: x is not False)
    add("is_null_fn", "is_null({a})", lambda a, b, c: a is None)
    add("is_not_null_fn", "is_not_null({a})", lambda a, b, c: a is not None)

    def is_true_of_and(py):
        v = A3(py[0], py[1])
        return OneOf(Exact(False), NULL) if v is None else Exact(v is True)
    fams.append(Fam("and_is_true", "({a} and {b}) is true", is_true_of_and, boolean=True))

    def is_not_true_of_or(py):
        v = O3(py[0], py[1])
        return OneOf(Exact(True), NULL) if v is None else Exact(v is not True)
    fams.append(Fam("or_is_not_true", "({a} or {b}) is not true", is_not_true_of_or, boolean=True))
    add("and_is_null", "({a} and {b}) is null", lambda a, b, c: A3(a, b) is None)
    add("or_is_null", "({a} or {b}) is null", lambda a, b, c: O3(a, b) is None)
    # recorded finding (C02 optimizer-distributive-or-absorption): (X AND A) OR X is rewritten to X AND A when two
    # operands are the *same expression*; in the literal context equal constants are the same expression
    def absorb(consts):
        def d(ctx, py):
            vals = [repr(x) for x in py] + list(consts)
            if ctx == "lit" and len(set(vals)) < len(vals):
                return {"kind": "fixed-case", "case": "optimizer-distributive-or-absorption"}
            return None
        return d
    for f in fams:
        if " and " in f.tmpl and " or " in f.tmpl:
            cs = [repr({"true": True, "false": False}.get(w.split("::")[0].lower())) for w in ("true", "false", "NULL") if w in f.tmpl.replace("{a}", "").replace("{b}", "").replace("{c}", "")]
            f.ctx_diag = absorb(cs)
    g = Group("logic/3vl", "boolean,boolean,boolean", ["boolean"] * 3, rows, fams, lit_n=27)
    return [g]


# ---- arithmetic -------------------------------------------------------------------------------

def in_t(t, v):
    lo, hi = int_range(t)
    return lo <= v <= hi


def arith_fam(name, tmpl, op, ta, tb):
    kw = {"f32a": is32(ta), "f32b": is32(tb)}
    return Fam(name, tmpl, lambda py: R.arith_ref(op, py[0], py[1], **kw))


def build_arith_groups(rng, thorough):
    groups = []
    lim = 500 if thorough else 150
    for t in INT_T:
        lo, hi = int_range(t)
        P = [vint(v, t) for v in int_pool(t, rng, 8 if thorough else 4, extra=(5, 7, -7, 11, 12, 100, -100, 46340, 46341, 65535, 3037000499))]
        PN = P + [vnull(t)]
        allp = [(a, b) for a in PN for b in PN]

        def pick(ok, ok1=None, okb=None):
            rows = [(a, b) for a, b in allp if (a.py is None or b.py is None or ok(a.py, b.py)) and (ok1 is None or ok1(a.py)) and (okb is None or okb(b.py))]
            rng.shuffle(rows)
            return rows[:lim]
        rows = pick(lambda a, b: in_t(t, a + b) and in_t(t, a * b))
        groups.append(Group(f"arith/{t}/addmul", f"{t},{t}", [t, t], rows,
                            [arith_fam("+", "{a} + {b}", "+", t, t), arith_fam("*", "{a} * {b}", "*", t, t),
                             arith_fam("add", "add({a}, {b})", "+", t, t), arith_fam("mul", "mul({a}, {b})", "*", t, t),
                             ], const_ok=lambda p, v: v.py == 0))
        signed = lo < 0
        rows = pick(lambda a, b: in_t(t, a - b), (lambda a: a != lo) if signed else None)
        fams = [arith_fam("-", "{a} - {b}", "-", t, t), arith_fam("sub", "sub({a}, {b})", "-", t, t)]
        if signed or t in ("utinyint", "usmallint", "uint"):
            fams += [Fam("neg", "-{a}", lambda py: R.neg_ref(py[0])), Fam("negate", "negate({a})", lambda py: R.neg_ref(py[0])),
                     Fam("neg_neg", "- -{a}", lambda py: Exact(py[0]))]
        fams.append(Fam("abs", "abs({a})", lambda py: NULL if py[0] is None else Exact(abs(py[0]))))
        groups.append(Group(f"arith/{t}/subneg", f"{t},{t}", [t, t], rows, fams, const_ok=lambda p, v: p == 1 and v.py == 0))
        rows = pick(lambda a, b: b != 0 and not (signed and a == lo and b == -1), okb=lambda b: b != 0)
        groups.append(Group(f"arith/{t}/divrem", f"{t},{t}", [t, t], rows,
                            [arith_fam("/", "{a} / {b}", "/", t, t), arith_fam("%", "{a} % {b}", "%", t, t),
                             arith_fam("div", "div({a}, {b})", "/", t, t), arith_fam("rem", "rem({a}, {b})", "%", t, t)],
                            const_ok=lambda p, v: (p == 1 and v.py == 1) or (p == 0 and v.py == 0)))
    for t in ("double", "real"):
        P = with_nulls(pool_for(t, rng, thorough), t)
        rows = pair_rows(P, P, rng, lim * 2)
        fams = [arith_fam(n, "{a} " + n + " {b}", n, t, t) for n in "+-*/%"]
        fams += [arith_fam("add", "add({a}, {b})", "+", t, t), arith_fam("rem", "rem({a}, {b})", "%", t, t),
                 Fam("neg", "-{a}", lambda py: R.neg_ref(py[0])), Fam("negate", "negate({b})", lambda py: R.neg_ref(py[1])),
                 Fam("abs", "abs({a})", lambda py: NULL if py[0] is None else Exact(abs(py[0]), zsign=True))]
        groups.append(Group(f"arith/{t}", f"{t},{t}", [t, t], rows, fams))
    for (p1, s1, p2, s2) in [(9, 2, 9, 2), (9, 2, 18, 4), (18, 4, 9, 2), (30, 6, 9, 2), (5, 0, 5, 5), (38, 10, 9, 2), (18, 0, 18, 0)]:
        ta, tb = f"decimal({p1},{s1})", f"decimal({p2},{s2})"
        A = [vdec(u, p1, s1) for u in dec_pool(p1, s1, rng, 6, small=True)] + [vnull(ta)]
        Bp = [vdec(u, p2, s2) for u in dec_pool(p2, s2, rng, 6, small=True)] + [vnull(tb)]
        rows = pair_rows(A, Bp, rng, lim)
        fams = [arith_fam(n, "{a} " + n + " {b}", n, ta, tb) for n in "+-*/%"]
        fams += [Fam("neg", "-{a}", lambda py: R.neg_ref(py[0])), Fam("abs", "abs({b})", lambda py: NULL if py[1] is None else Exact(abs(py[1])))]
        groups.append(Group(f"arith/dec{p1}.{s1}~{p2}.{s2}", f"{ta},{tb}", [ta, tb], rows, fams))
    small = lambda t: [vint(v, t) for v in range(-11, 12) if in_t(t, v)] + [vnull(t)]
    for ta, tb, ops in [("tinyint", "int", "+-*"), ("smallint", "bigint", "+-*"), ("utinyint", "tinyint", "+*"), ("usmallint", "int", "+*"),
                        ("uint", "int", "+*"), ("int", "double", "+-*/%"), ("bigint", "real", "+-*/"), ("real", "double", "+-*/%"),
                        ("decimal(9,2)", "double", "+-*/"), ("bigint", "decimal(18,4)", "+-*"), ("int", "decimal(9,2)", "+-*/")]:
        A = small(ta) if ta in INT_TYPES else with_nulls(pool_for(ta, rng, thorough)[:40] if not ta.startswith("decimal") else [vdec(u, *map(int, ta[8:-1].split(","))) for u in dec_pool(*map(int, ta[8:-1].split(",")), rng, 4, small=True)], ta)
        Bq = small(tb) if tb in INT_TYPES else with_nulls(pool_for(tb, rng, thorough)[:40] if not tb.startswith("decimal") else [vdec(u, *map(int, tb[8:-1].split(","))) for u in dec_pool(*map(int, tb[8:-1].split(",")), rng, 4, small=True)], tb)
        rows = pair_rows(A, Bq, rng, lim)
        if ta in INT_TYPES and tb in INT_TYPES:
            rows = [(a, b) for a, b in rows]
        if "/" in ops or "%" in ops:
            if ta in INT_TYPES and tb in INT_TYPES:
                rows = [(a, b) for a, b in rows if b.py != 0]
        fams = [arith_fam(n, "{a} " + n + " {b}", n, ta, tb) for n in ops]
        groups.append(Group(f"arithx/{ta}~{tb}", f"{ta},{tb}", [ta, tb], rows, fams, ctxs=CONTEXTS if thorough else ("flat", "sel", "const", "lit", "case")))
    return groups


# ---- numeric functions -------------------------------------------------------------------------

FLOAT_UNARY = ["abs", "ceil", "ceiling", "floor", "trunc", "round", "sign", "sqrt", "cbrt", "exp", "ln", "log", "log10", "log2", "sin", "cos", "tan", "cot",
               "asin", "acos", "atan", "sinh", "cosh", "tanh", "asinh", "acosh", "atanh", "degrees", "radians", "isnan", "is_nan", "isinf", "isfinite"]


def unary_fam(name, col, idx, t):
    base = {"is_nan": "isnan"}.get(name, name)
    boolean = base in ("isnan", "isinf", "isfinite")
    return Fam(name, name + "({" + col + "})", lambda py: R.unary_float_ref(base, py[idx], is32(t)), boolean=boolean)


def accept_bind_error(msg):
    return "No function matches" in msg or "Cannot find function" in msg or "candidate" in msg.lower()


def build_numeric_groups(rng, thorough):
    groups = []
    lim = 600 if thorough else 200
    for t in ("double", "real"):
        P = with_nulls(pool_for(t, rng, thorough), t)
        rows = pair_rows(P, P, rng, lim)
        fams = [unary_fam(n, "a", 0, t) for n in FLOAT_UNARY]
        fams += [Fam("pow", "pow({a}, {b})", lambda py: R.binary_float_ref("pow", py[0], py[1])),
                 Fam("power", "power({a}, {b})", lambda py: R.binary_float_ref("pow", py[0], py[1])),
                 Fam("atan2", "atan2({a}, {b})", lambda py: R.binary_float_ref("atan2", py[0], py[1])),
                 Fam("pi", "pi()", lambda py: Exact(math.pi)),
                 Fam("pi_mul", "pi() * {b}", lambda py: R.arith_ref("*", math.pi, py[1]) if py[1] is not None else NULL)]
        groups.append(Group(f"num/{t}", f"{t},{t}", [t, t], rows, fams))
    exact_args = [("int", None), ("bigint", None), ("utinyint", None), ("decimal(9,2)", (9, 2)), ("decimal(30,6)", (30, 6)), ("decimal(18,0)", (18, 0))]
    for t, ps in exact_args:
        P = with_nulls(pool_for(t, rng, thorough), t)
        rows = [(v,) for v in P]
        names = ["abs", "ceil", "floor", "trunc", "sign", "sqrt", "cbrt", "exp", "ln", "log", "log2", "sin", "cos", "atan", "tanh", "degrees", "radians", "acos", "cot"]
        fams = [unary_fam(n, "a", 0, t) for n in names]
        for f in fams:
            f.may_error = accept_bind_error
        if ps is not None:
            p, s = ps
            for n in (None, 0, 1, 2, 5, 40):
                nm = "round" if n is None else f"round/{n}"
                tm = "round({a})" if n is None else f"round({{a}}, {n})"
                fams.append(Fam(nm, tm, lambda py, n=n, s=s: R.round_dec_ref(py[0], s, n)))
            fams.append(Fam("round/-1", "round({a}, -1)", lambda py: ANY))
            fams[-1].may_error = lambda msg: True
        else:
            f = Fam("round", "round({a})", lambda py: NULL if py[0] is None else Exact(py[0]))
            f.may_error = accept_bind_error
            fams.append(f)
        groups.append(Group(f"numx/{t}", t, [t], rows, fams, ctxs=CONTEXTS if thorough else ("flat", "sel", "lit", "lit_noopt", "case", "cse")))
    # gcd / lcm
    for t in ("tinyint", "smallint", "int", "bigint", "utinyint", "uint"):
        lo, hi = int_range(t)
        bits = BITS[t]
        signed = lo < 0
        P = [vint(v, t) for v in int_pool(t, rng, 6, extra=(4, 6, 8, 12, 18, 36, 48, 64, 97, 101, 360, 1001, 65536, 2 ** 31, 6 ** 12))
             if not (signed and v == lo)]
        PN = P + [vnull(t)]

        def lcm_ok(a, b):
            if a == 0 or b == 0:
                return True
            l = abs(a * b) // math.gcd(a, b)
            # the engine computes (|a| / gcd) * |b| in the argument type (unsigned arguments: in a wider signed type)
            return l <= (hi if signed else min(hi, 2 ** 31 - 1))
        rows = [(a, b) for a in PN for b in PN if a.py is None or b.py is None or lcm_ok(a.py, b.py)]
        rng.shuffle(rows)
        rows = rows[:lim]
        fams = [Fam("gcd", "gcd({a}, {b})", lambda py: R.gcd_ref(py[0], py[1])), Fam("lcm", "lcm({a}, {b})", lambda py: R.lcm_ref(py[0], py[1]))]
        groups.append(Group(f"int/gcdlcm/{t}", f"{t},{t}", [t, t], rows, fams, const_ok=lambda p, v: v.py in (None, 0, 1)))
    # shifts and xor
    shifts = [-1, 0, 1, 2, 3, 7, 8, 9, 15, 16, 17, 31, 32, 33, 63, 64, 65, 100, 2147483647, -2147483648]
    for t in INT_T:
        lo, hi = int_range(t)
        bits, signed = BITS[t], lo < 0
        P = [vint(v, t) for v in int_pool(t, rng, 6, extra=(5, 85, 170, -86, 0x5555, 0x0F0F0F0F))] + [vnull(t)]
        S = [vint(v, "int") for v in shifts] + [vnull("int")]
        rows = pair_rows(P, S, rng, lim * 2)
        fams = [Fam("shl", "shl({a}, {b})", lambda py, bits=bits, signed=signed: R.shl_ref(py[0], py[1], bits, signed)),
                Fam("shr", "shr({a}, {b})", lambda py, bits=bits, signed=signed: R.shr_ref(py[0], py[1], bits, signed))]
        groups.append(Group(f"int/shift/{t}", f"{t},int", [t, "int"], rows, fams))
        rows = pair_rows(P, P, rng, lim)
        groups.append(Group(f"int/xor/{t}", f"{t},{t}", [t, t], rows,
                            [Fam("xor", "xor({a}, {b})", lambda py, bits=bits, signed=signed: R.xor_ref(py[0], py[1], bits, signed))]))
    # factorial
    vals = list(range(-3, 41)) + [50, 100, 170, 171, 1000, 2 ** 31, -2 ** 63, 2 ** 63 - 1]
    rows = [(vint(v, "bigint"),) for v in vals] + [(vnull("bigint"),)]
    groups.append(Group("int/factorial", "bigint", ["bigint"], rows, [Fam("factorial", "factorial({a})", lambda py: R.factorial_ref(py[0]))]))
    rows = [(vint(v, "int"),) for v in range(-2, 36)] + [(vnull("int"),)]
    groups.append(Group("int/factorial_int", "int", ["int"], rows, [Fam("factorial", "factorial({a})", lambda py: R.factorial_ref(py[0]))]))
    return groups


# ---- date / time -------------------------------------------------------------------------------

def not_impl(msg):
    return "ot yet implemented" in msg or "not implemented" in msg.lower() or "not a valid date part" in msg or "Unexpected date field" in msg


def secfield_diag(part):
    def d(py, raw, tr, rid):
        return {"fn": "date_part", "as": "seconds-field-without-whole-seconds"} if part in ("second", "milliseconds", "microseconds") else None
    return d


def trunc_diag(field, conv):
    def d(py, raw, tr, rid):
        if py[0] is None or field not in R.TRUNC_US or tr not in ("val", "even"):
            return None
        us = conv(py[0])[2]
        u = R.TRUNC_US[field]
        q = abs(us) // u * u
        got = decode(raw)
        if isinstance(got, tuple) and got[2] == (q if us >= 0 else -q):
            return {"fn": "date_trunc", "as": "toward-zero"}
        return None
    return d


def build_datetime_groups(rng, thorough):
    groups = []
    # DATE arguments
    D = [vdate(d) for d in date_pool(rng, 40 if thorough else 12)] + [vnull("date")] * 2
    rows = [(d,) for d in D]
    fams = []
    for part in R.ALL_PARTS:
        f = Fam(f"date_part/{part}", "date_part('" + part + "', {a})", lambda py, part=part: R.date_part_ref(part, py[0]))
        f.may_error = not_impl
        fams.append(f)
    for part in ("year", "month", "day", "dow", "quarter", "isodow", "second", "minute", "hour", "doy", "week", "epoch"):
        f = Fam(f"extract/{part}", "extract(" + part + " from {a})", lambda py, part=part: R.date_part_ref(part, py[0]))
        f.may_error = not_impl
        fams.append(f)
    f = Fam("date_part/YEAR", "date_part('YEAR', {a})", lambda py: R.date_part_ref("year", py[0]))
    f.may_error = not_impl
    fams.append(f)
    groups.append(Group("dt/date", "date", ["date"], rows, fams, lit_n=20))
    # TIMESTAMP arguments built from BIGINT milliseconds / seconds
    ms = ts_ms_pool(rng, 60 if thorough else 15)
    rows = [(vint(v, "bigint"), vint(rng.choice(ms), "bigint")) for v in ms] + [(vnull("bigint"), vint(0, "bigint")), (vint(5, "bigint"), vnull("bigint"))]
    ts = lambda x: None if x is None else ("ts", "μs", x * 1000)
    # (CASE without ELSE over a TIMESTAMP branch fails to bind: probed separately in misc_probes)
    fams = [Fam("epoch_ms", "epoch_ms({a})", lambda py: Exact(ts(py[0])))]
    fams[0].skip_ctx = ("case",)
    for part in R.ALL_PARTS:
        f = Fam(f"date_part/{part}", "date_part('" + part + "', epoch_ms({a}))", lambda py, part=part: R.date_part_ref(part, ts(py[0])))
        f.may_error = not_impl
        f.diag = secfield_diag(part)
        fams.append(f)
    for part in ("second", "year", "hour"):
        f = Fam(f"extract/{part}", "extract(" + part + " from epoch_ms({a}))", lambda py, part=part: R.date_part_ref(part, ts(py[0])))
        f.may_error = not_impl
        f.diag = secfield_diag(part)
        fams.append(f)
    for field in R.TRUNC_FIELDS:
        f = Fam(f"date_trunc/{field}", "date_trunc('" + field + "', epoch_ms({a}))", lambda py, field=field: R.date_trunc_ref(field, ts(py[0])))
        f.may_error = not_impl
        f.diag = trunc_diag(field, ts)
        f.skip_ctx = ("case",)
        fams.append(f)
    f = Fam("date_trunc/DAY", "date_trunc('DAY', epoch_ms({a}))", lambda py: R.date_trunc_ref("day", ts(py[0])))
    f.may_error = not_impl
    f.diag = trunc_diag("day", ts)
    f.skip_ctx = ("case",)
    fams.append(f)
    for name, op in (("=", "="), ("<", "<"), (">=", ">=")):
        fams.append(Fam("ts" + name, "epoch_ms({a}) " + name + " epoch_ms({b})", lambda py, op=op: R.cmp_ref(op, py[0], py[1]), boolean=True))
    fams.append(Fam("ts_is_distinct", "epoch_ms({a}) is distinct from epoch_ms({b})", lambda py: R.distinct_ref(False, py[0], py[1]), boolean=True))
    groups.append(Group("dt/ts_ms", "timestamp", ["bigint", "bigint"], rows, fams, lit_n=20))
    secs = sorted({v // 1000 for v in ms} | {0, -1, 1, 1675209600, -62135596800, 253402300799})
    rows = [(vint(v, "bigint"),) for v in secs] + [(vnull("bigint"),)]
    tss = lambda x: None if x is None else ("ts", "μs", x * 10 ** 6)
    fams = [Fam("epoch", "epoch({a})", lambda py: Exact(tss(py[0]))), Fam("epoch_s", "epoch_s({a})", lambda py: Exact(tss(py[0])))]
    for f in fams:
        f.skip_ctx = ("case",)
    for part in ("year", "month", "day", "minute", "second", "dow"):
        f = Fam(f"date_part/{part}", "date_part('" + part + "', epoch({a}))", lambda py, part=part: R.date_part_ref(part, tss(py[0])))
        f.may_error = not_impl
        f.diag = secfield_diag(part)
        fams.append(f)
    f = Fam("date_trunc/day", "date_trunc('day', epoch({a}))", lambda py: R.date_trunc_ref("day", tss(py[0])))
    f.may_error = not_impl
    f.diag = trunc_diag("day", tss)
    f.skip_ctx = ("case",)
    fams.append(f)
    groups.append(Group("dt/ts_s", "timestamp", ["bigint"], rows, fams, lit_n=20))
    return groups


# ---- operator precedence -------------------------------------------------------------------------

P_OR, P_AND, P_NOT, P_IS, P_CMP, P_CONT, P_ADD, P_MUL, P_UM, P_ATOM = 10, 20, 30, 40, 50, 60, 80, 90, 105, 200


class Node:
    __slots__ = ("kind", "op", "kids", "prec", "typ")

    def __init__(self, kind, op, kids, prec, typ):
        self.kind, self.op, self.kids, self.prec, self.typ = kind, op, kids, prec, typ


def gen_int(rng, d):
    r = rng.random()
    if d <= 0 or r < 0.3:
        if rng.random() < 0.7:
            return Node("col", rng.choice("abc"), [], P_ATOM, "i")
        return Node("lit", str(rng.randint(0, 3)), [], P_ATOM, "i")
    if r < 0.45:
        return Node("bin", "+", [gen_int(rng, d - 1), gen_int(rng, d - 1)], P_ADD, "i")
    if r < 0.6:
        return Node("bin", "-", [gen_int(rng, d - 1), gen_int(rng, d - 1)], P_ADD, "i")
    if r < 0.78:
        return Node("bin", "*", [gen_int(rng, d - 1), gen_int(rng, d - 1)], P_MUL, "i")
    if r < 0.86:
        return Node("bin", rng.choice("/%"), [gen_int(rng, d - 1), Node("lit", rng.choice("23"), [], P_ATOM, "i")], P_MUL, "i")
    return Node("neg", "-", [gen_int(rng, d - 1)], P_UM, "i")


def has_col(n):
    return n.kind == "col" or any(has_col(k) for k in n.kids)


def gen_int_col(rng, d):
    """an integer expression that references a column (constant sub-conditions would fold to equal literals, which
    the recorded distributive-OR absorption defect then treats as a common term)"""
    for _ in range(50):
        n = gen_int(rng, d)
        if has_col(n):
            return n
    return Node("col", rng.choice("abc"), [], P_ATOM, "i")


def gen_bool(rng, d):
    r = rng.random()
    if d <= 0 or r < 0.12:
        return Node("col", rng.choice("de"), [], P_ATOM, "b")
    if r < 0.4:
        return Node("bin", rng.choice(["=", "<>", "<", "<=", ">", ">="]), [gen_int_col(rng, d - 1), gen_int(rng, d - 1)], P_CMP, "b")
    if r < 0.52:
        return Node("bin", "and", [gen_bool(rng, d - 1), gen_bool(rng, d - 1)], P_AND, "b")
    if r < 0.64:
        return Node("bin", "or", [gen_bool(rng, d - 1), gen_bool(rng, d - 1)], P_OR, "b")
    if r < 0.72:
        return Node("not", "not", [gen_bool(rng, d - 1)], P_NOT, "b")
    if r < 0.8:
        k = gen_bool(rng, d - 1) if rng.random() < 0.5 else gen_int_col(rng, d - 1)
        return Node("post", rng.choice(["is null", "is not null"]), [k], P_IS, "b")
    if r < 0.86:
        return Node("between", rng.choice(["between", "not between"]), [gen_int_col(rng, d - 1), gen_int(rng, d - 1), gen_int(rng, d - 1)], P_CONT, "b")
    if r < 0.92:
        return Node("in", rng.choice(["in", "not in"]), [gen_int_col(rng, d - 1), gen_int(rng, d - 1), gen_int(rng, d - 1)], P_CONT, "b")
    if r < 0.96:
        return Node("bin", rng.choice(["=", "<>"]), [gen_bool(rng, d - 1), gen_bool(rng, d - 1)], P_CMP, "b")
    return Node("bin", rng.choice(["is distinct from", "is not distinct from"]), [gen_int_col(rng, d - 1), gen_int(rng, d - 1)], P_IS, "b")


def render(n, full):
    def sub(k, need):
        s = render(k, full)
        return "(" + s + ")" if (full and k.prec < P_ATOM) or need else s
    if n.kind == "col":
        return "{" + n.op + "}"
    if n.kind == "lit":
        return n.op
    if n.kind == "bin":
        l, r = n.kids
        return sub(l, l.prec < n.prec) + " " + n.op + " " + sub(r, r.prec <= n.prec)
    if n.kind == "neg":
        k = n.kids[0]
        s = sub(k, k.prec < n.prec)
        return "- " + s if s.startswith("-") else "-" + s
    if n.kind == "not":
        k = n.kids[0]
        return "not " + sub(k, k.prec < n.prec)
    if n.kind == "post":
        k = n.kids[0]
        return sub(k, k.prec < n.prec) + " " + n.op
    if n.kind == "between":
        x, lo, hi = n.kids
        return sub(x, x.prec < n.prec) + " " + n.op + " " + sub(lo, lo.prec <= n.prec) + " and " + sub(hi, hi.prec <= n.prec)
    if n.kind == "in":
        x, y, z = n.kids
        return sub(x, x.prec < n.prec) + " " + n.op + " (" + render(y, full) + ", " + render(z, full) + ")"
    raise KeyError(n.kind)


class Overflow(Exception):
    pass


def ev(n, env):
    k = n.kind
    if k == "col":
        return env[n.op]
    if k == "lit":
        return int(n.op)
    if k == "neg":
        v = ev(n.kids[0], env)
        return None if v is None else -v
    if k == "not":
        return R.not3(ev(n.kids[0], env))
    if k == "post":
        v = ev(n.kids[0], env)
        return (v is None) if n.op == "is null" else (v is not None)
    if k == "between":
        x, lo, hi = [ev(c, env) for c in n.kids]
        r = R.and3(None if x is None or lo is None else x >= lo, None if x is None or hi is None else x <= hi)
        return R.not3(r) if n.op.startswith("not") else r
    if k == "in":
        x, y, z = [ev(c, env) for c in n.kids]
        r = R.or3(None if x is None or y is None else x == y, None if x is None or z is None else x == z)
        return R.not3(r) if n.op.startswith("not") else r
    l, r = ev(n.kids[0], env), ev(n.kids[1], env)
    op = n.op
    if op == "and":
        return R.and3(l, r)
    if op == "or":
        return R.or3(l, r)
    if op == "is distinct from":
        return l != r if (l is not None and r is not None) else ((l is None) != (r is None))
    if op == "is not distinct from":
        return l == r if (l is not None and r is not None) else ((l is None) == (r is None))
    if l is None or r is None:
        return None
    if op in ("+", "-", "*"):
        v = l + r if op == "+" else l - r if op == "-" else l * r
        if abs(v) >= 2 ** 31:
            raise Overflow()
        return v
    if op == "/":
        return R.trunc_div(l, r)
    if op == "%":
        return l - r * R.trunc_div(l, r)
    return {"=": l == r, "<>": l != r, "<": l < r, "<=": l <= r, ">": l > r, ">=": l >= r}[op]


def flat_ops(n, kind):
    if n.kind == "bin" and n.op == kind:
        return flat_ops(n.kids[0], kind) + flat_ops(n.kids[1], kind)
    return [n]


def has_common_or_term(n):
    """does some OR node have a term common to all its branches? (recorded C02 finding optimizer-distributive-or-absorption)"""
    if n.kind == "bin" and n.op == "or":
        sets = [set(render(c, True) for c in flat_ops(b, "and")) for b in flat_ops(n, "or")]
        if set.intersection(*sets):
            return True
    return any(has_common_or_term(k) for k in n.kids)


def build_precedence_groups(rng, thorough):
    ntrees = 600 if thorough else 90
    ivals = [vint(v, "int") for v in range(-3, 4)] + [vnull("int")]
    bvals = [vbool(True), vbool(False), vnull("boolean")]
    groups = []
    per = 8
    trees = []
    while len(trees) < ntrees:
        t = gen_bool(rng, rng.randint(2, 4)) if rng.random() < 0.7 else gen_int(rng, rng.randint(2, 4))
        mn, fl = render(t, False), render(t, True)
        if mn == fl or "(" not in fl or has_common_or_term(t):
            continue
        trees.append((t, mn, fl))
    for gi, ch in enumerate(chunks(trees, per)):
        rows = [(rng.choice(ivals), rng.choice(ivals), rng.choice(ivals), rng.choice(bvals), rng.choice(bvals)) for _ in range(150 if thorough else 60)]
        fams = []
        for t, mn, fl in ch:
            def ref(py, t=t):
                env = dict(zip("abcde", py))
                try:
                    return Exact(ev(t, env))
                except Overflow:
                    return ANY
            boolean = t.typ == "b"
            for tm in (mn, fl):
                f = Fam("precedence", tm, ref, boolean=boolean)
                if " or " in tm:     # (NOT IN / BETWEEN expand to conjunctions)
                    # equal literals are equal expressions: the recorded absorption rewrite may apply in the literal context
                    f.ctx_diag = lambda ctx, py: {"kind": "fixed-case", "case": "optimizer-distributive-or-absorption"} if ctx == "lit" else None
                fams.append(f)
        groups.append(Group(f"prec/{gi}", "tree", ["int", "int", "int", "boolean", "boolean"], rows, fams, ctxs=("flat", "pred", "lit", "lit_noopt"), lit_n=6))
    return groups


# ---- exhaustive small domains --------------------------------------------------------------------

def cmp2_fams(ta, tb):
    fams = []
    for name, op in (("=", "="), ("<>", "<>"), ("!=", "<>"), ("<", "<"), ("<=", "<="), (">", ">"), (">=", ">=")):
        fams.append(Fam(name, "{a} " + name + " {b}", (lambda py, op=op: R.cmp_ref(op, py[0], py[1])), boolean=True))
    fams.append(Fam("is_distinct_from", "{a} is distinct from {b}", lambda py: R.distinct_ref(False, py[0], py[1]), boolean=True))
    fams.append(Fam("is_not_distinct_from", "{a} is not distinct from {b}", lambda py: R.distinct_ref(True, py[0], py[1]), boolean=True))
    fams.append(Fam("between", "{a} between {b} and 5", lambda py: R.combine3(R.and3, R.cmp_ref(">=", py[0], py[1]), R.cmp_ref("<=", py[0], 5)), boolean=True))
    return fams


def build_sweep_groups(rng, thorough):
    groups = []
    rng8 = {"tinyint": (-128, 127), "utinyint": (0, 255)}
    pairs = [("tinyint", "tinyint"), ("utinyint", "utinyint"), ("tinyint", "utinyint"), ("utinyint", "tinyint")] if thorough else [rng.choice([("tinyint", "tinyint"), ("utinyint", "utinyint"), ("tinyint", "utinyint")])]
    for ta, tb in pairs:
        (la, ha), (lb, hb) = rng8[ta], rng8[tb]
        ctas = (f"create temp table t as select ((x.v - ({la})) * 256 + (y.v - ({lb})))::int as id, x.v::{ta} as a, y.v::{tb} as b "
                f"from generate_series({la},{ha}) x(v), generate_series({lb},{hb}) y(v)")
        groups.append(Group(f"sweep8/{ta}~{tb}", f"{ta},{tb}", [ta, tb], None, cmp2_fams(ta, tb), ctas=ctas,
                            ctxs=("flat", "sel", "pred", "join", "case") if thorough else ("flat",), nrows=65536))
    if thorough:
        for t, lo, hi in (("smallint", -32767, 32767), ("usmallint", 0, 65535)):
            bits, signed = 16, lo < 0
            ctas = f"create temp table t as select (x.v - ({lo}))::int as id, x.v::{t} as a from generate_series({lo},{hi}) x(v)"
            fams = [Fam("neg", "-{a}", lambda py: R.neg_ref(py[0])),
                    Fam("abs", "abs({a})", lambda py: Exact(abs(py[0]))),
                    Fam("sign", "sign({a})", lambda py: R.unary_float_ref("sign", py[0])),
                    Fam("sqrt", "sqrt({a})", lambda py: R.unary_float_ref("sqrt", py[0])),
                    Fam("floor", "floor({a})", lambda py: R.unary_float_ref("floor", py[0])),
                    Fam("shl", "shl({a}, 1)", lambda py, bits=bits, signed=signed: R.shl_ref(py[0], 1, bits, signed)),
                    Fam("shr", "shr({a}, 3)", lambda py, bits=bits, signed=signed: R.shr_ref(py[0], 3, bits, signed)),
                    Fam("xor", "xor({a}, 21845::" + t + ")", lambda py, bits=bits, signed=signed: R.xor_ref(py[0], 21845, bits, signed)),
                    Fam("<", "{a} < 100", lambda py: Exact(py[0] < 100), boolean=True),
                    Fam("between", "{a} between -1 and 256", lambda py: Exact(-1 <= py[0] <= 256), boolean=True),
                    Fam("in_list", "{a} in (0, 255, 32767, NULL)", lambda py: Exact(True) if py[0] in (0, 255, 32767) else NULL, boolean=True),
                    Fam("%", "{a} % 7", lambda py: Exact(py[0] - 7 * R.trunc_div(py[0], 7))),
                    Fam("/", "{a} / 3", lambda py: Exact(R.trunc_div(py[0], 3))),
                    Fam("case_searched", "case when {a} < 0 then -1 when {a} = 0 then 0 else 1 end", lambda py: Exact((py[0] > 0) - (py[0] < 0)))]
            if not signed:
                fams = [f for f in fams if f.name not in ("neg",)]
            groups.append(Group(f"sweep16/{t}", t, [t], None, fams, ctas=ctas, ctxs=("flat", "sel", "pred", "case"), nrows=hi - lo + 1))
    return groups


# ---- single-statement probes -----------------------------------------------------------------------

def misc_probes():
    """(id, sql, predicate on the decoded single value or None when only 'value or clean error' is required, signature)"""
    ts = lambda v: ("ts", "μs", v)
    return [
        ("case-null-first-branch", "select case when false then NULL else 1 end", lambda v: v == 1, False,
         {"kind": "unexpected-error", "fn": "case", "what": "untyped-null-first-branch"}),
        ("case-null-first-branch-text", "select case when 1 = 2 then NULL else 'a' end", lambda v: v == "a", False,
         {"kind": "unexpected-error", "fn": "case", "what": "untyped-null-first-branch"}),
        ("decimal-eq-untyped-null", "select 1.5 = NULL", lambda v: v is None, False,
         {"kind": "unexpected-error", "fn": "=", "what": "decimal-vs-untyped-null"}),
        ("decimal-in-untyped-null", "select 1.5 in (2.5, NULL)", lambda v: v is None, False,
         {"kind": "unexpected-error", "fn": "=", "what": "decimal-vs-untyped-null"}),
        ("ubigint-vs-decimal", "select '18446744073709551615'::ubigint = '1.5'::decimal(30,6)", lambda v: v is False, False,
         {"kind": "unexpected-error", "fn": "=", "what": "ubigint-to-decimal-precision-19"}),
        ("case-timestamp-branch", "select case when true then epoch(1) end", lambda v: v == ts(10 ** 6), False,
         {"kind": "unexpected-error", "fn": "case", "what": "timestamp-branch-without-else"}),
        ("coalesce-timestamp", "select coalesce(epoch(1), epoch(2))", lambda v: v == ts(10 ** 6), False,
         {"kind": "unexpected-error", "fn": "coalesce", "what": "timestamp-arguments"}),
        ("gcd-min", "select gcd('-128'::tinyint, 4::tinyint)", lambda v: v == 4, True, {"kind": "wrong-value", "fn": "gcd", "what": "min"}),
        ("gcd-min-bigint", "select gcd('-9223372036854775808'::bigint, 6::bigint)", lambda v: v == 2, True, {"kind": "wrong-value", "fn": "gcd", "what": "min"}),
        ("lcm-overflow", "select lcm(100::tinyint, 99::tinyint)", lambda v: v == 9900, True, {"kind": "wrong-value", "fn": "lcm", "what": "overflow"}),
        ("lcm-overflow-big", "select lcm(3037000500::bigint, 3037000501::bigint)", lambda v: v == 3037000500 * 3037000501, True,
         {"kind": "wrong-value", "fn": "lcm", "what": "overflow"}),
        ("epoch-overflow", "select epoch(9223372036854775807)", lambda v: False, True, {"kind": "wrong-value", "fn": "epoch", "what": "overflow"}),
        ("epoch-ms-overflow", "select epoch_ms('-9223372036854775808'::bigint)", lambda v: False, True, {"kind": "wrong-value", "fn": "epoch_ms", "what": "overflow"}),
        ("between-docs", "select 4 between 2 and 8, 2 between 2 and 8, 8 between 2 and 8, 10 between 2 and 8, 4 not between 2 and 8, 10 not between 2 and 8", None, False,
         {"kind": "doc-example", "fn": "between"}),
        ("distinct-docs", "select 1 is distinct from NULL, NULL is distinct from NULL, 1 is not distinct from NULL, NULL is not distinct from NULL, 1 = NULL, NULL = NULL", None, False,
         {"kind": "doc-example", "fn": "is_distinct_from"}),
    ]


DOC_ROWS = {"between-docs": [True, True, True, False, False, True], "distinct-docs": [True, False, False, True, None, None]}


def misc_probe_cases():
    return [{"id": "misc/" + p[0], "steps": [{"sql": p[1]}]} for p in misc_probes()]


def judge_misc(chk, cases, results):
    probes = misc_probes()
    for p, case in zip(probes, cases):
        pid, sql, pred, err_ok, sig = p
        res = results.get(case["id"])
        chk.evaluated()
        if res is None or "steps" not in res:
            if res is not None and "died" in res:
                chk.violation(outcome_signature(res), f"{pid}: {sql} -> process died {json.dumps(res['died'])[:300]}", {"cases": [case]})
            else:
                chk.inconc("probe not run")
            continue
        st = res["steps"][0]
        if st["outcome"] == "panic":
            chk.violation(outcome_signature(st), f"{pid}: {sql} -> panic {st.get('panic_msg')} @ {st.get('panic_loc')}", {"cases": [case]})
            continue
        if st["outcome"] == "error":
            if err_ok:
                chk.nontrivial(("misc", pid, "error"))
                continue
            chk.violation(sig, f"{pid}: {sql} -> error {(st.get('error') or '').splitlines()[0][:300]}", {"cases": [case]})
            continue
        if st["outcome"] != "rows" or len(st["rows"]) != 1:
            chk.violation(sig, f"{pid}: {sql} -> {st['outcome']}", {"cases": [case]})
            continue
        row = [decode(x) for x in st["rows"][0]]
        ok = (row == DOC_ROWS[pid]) if pred is None else bool(pred(row[0]))
        if not ok:
            chk.violation(sig, f"{pid}: {sql} -> {row!r}", {"cases": [case]})
        else:
            chk.nontrivial(("misc", pid, "value"))


# ---- documented examples ---------------------------------------------------------------------------

DOC_CATEGORIES = ("numeric", "numeric_operator", "comparison_operator", "logical_operator", "datetime")


def parse_ts_text(s):
    try:
        d = datetime.datetime.strptime(s.strip(), "%Y-%m-%d %H:%M:%S")
    except ValueError:
        return None
    return int((d - datetime.datetime(1970, 1, 1)).total_seconds()) * 10 ** 6


def doc_value_matches(got, raw, text):
    t = text.strip()
    if got is None:
        return t.upper() == "NULL"
    if isinstance(got, bool):
        return t.lower() == ("true" if got else "false")
    if isinstance(got, float):
        try:
            w = float(t)
        except ValueError:
            return False
        return R.ulp_dist(w, got, False) <= 4 or abs(w - got) <= 1e-15
    if isinstance(got, (int, Fraction)):
        try:
            return Fraction(t) == got
        except (ValueError, ZeroDivisionError):
            return False
    if isinstance(got, str):
        return got == t
    if isinstance(got, tuple) and got[0] == "ts":
        return parse_ts_text(t) == got[2]
    return None


DOC_LIST_CASE = {"id": "docs", "steps": [{"sql": "select distinct function_name, category, example, example_output from list_functions() "
                                                   "where function_type = 'scalar' and example is not null"}]}


def doc_example_cases(chk, res):
    st = (res.get("docs") or {}).get("steps", [{}])[0]
    if st.get("outcome") != "rows":
        chk.inconc("list_functions() not available")
        return []
    ex = sorted({(r[0], r[1], r[2], r[3]) for r in st["rows"] if r[1] in DOC_CATEGORIES})
    cases = []
    for i, (name, cat, example, out) in enumerate(ex):
        if name in ("random", "debug_error_on_execute") or example.strip() in ("a = b", "a != b", "a < b", "a <= b", "a > b", "a >= b"):
            chk.count("doc_examples_skipped_not_evaluable")
            continue
        cases.append(({"id": f"doc/{i}/{name}", "steps": [{"sql": "select " + example}]}, name, example, out))
    return cases


def judge_doc_examples(chk, cases, results):
    for case, name, example, out in cases:
        r = results.get(case["id"])
        chk.evaluated()
        if r is None or "steps" not in r:
            chk.inconc("doc example not run")
            continue
        st = r["steps"][0]
        if st["outcome"] == "panic":
            chk.violation(outcome_signature(st), f"doc example of {name}: select {example} -> panic {st.get('panic_msg')}", {"cases": [case]})
            continue
        if st["outcome"] == "error":
            msg = (st.get("error") or "").splitlines()[0]
            if "TIMESTAMP '" in example or "Unable to find cast function" in msg:
                chk.count("doc_examples_unsupported_literal_syntax")   # e.g. TIMESTAMP '..' literals cannot be written at this commit
                continue
            chk.violation({"kind": "doc-example", "fn": name, "what": "error"}, f"documented example of {name} fails: select {example} -> {msg[:300]}", {"cases": [case]})
            continue
        if st["outcome"] != "rows" or len(st["rows"]) != 1:
            chk.violation({"kind": "doc-example", "fn": name, "what": "outcome"}, f"documented example of {name}: select {example} -> {st['outcome']}", {"cases": [case]})
            continue
        raw = st["rows"][0][0]
        ok = doc_value_matches(decode(raw), raw, out)
        if ok is None:
            chk.count("doc_examples_uncomparable_type")
        elif not ok:
            chk.violation({"kind": "doc-example", "fn": name}, f"documented example of {name}: select {example} -> {json.dumps(raw)} = {decode(raw)!r}; documented output {out!r}", {"cases": [case]})
        else:
            chk.nontrivial(("doc", name, example))
            chk.count("doc_examples_checked")
