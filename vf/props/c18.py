"""C18 — the announced schema (DESCRIBE, output schema) is the schema of the arrays and values produced.

Pure consistency monitor: for every statement four observations are taken from the real engine —
  D  the rows of `DESCRIBE <stmt>`
  S  the output schema announced by the pending query (names, types)
  A  the DataType of every Array of every produced batch
  V  the variant (and precision/scale/unit) of every produced value
and must agree (A and V are compared inside the driver, which reports the first disagreement as `mismatch`).
The same expression over the same input types must get the same type in every syntactic place and in a fresh session.
"""
import json, itertools
from vf import run as vrun
from vf import qcheck, knowncases
from vf.core import outcome_signature

# (column name, type as written in DDL, three literals of that type)
TYPES = [
    ("bo", "BOOLEAN", ["true", "false", "true"]),
    ("i8", "TINYINT", ["'3'::TINYINT", "'-4'::TINYINT", "'0'::TINYINT"]),
    ("i16", "SMALLINT", ["'5'::SMALLINT", "'-4'::SMALLINT", "'0'::SMALLINT"]),
    ("i32", "INT", ["'7'::INT", "'-4'::INT", "'0'::INT"]),
    ("i64", "BIGINT", ["'9'::BIGINT", "'-4'::BIGINT", "'0'::BIGINT"]),
    ("u8", "UTINYINT", ["'3'::UTINYINT", "'2'::UTINYINT", "'0'::UTINYINT"]),
    ("u16", "USMALLINT", ["'3'::USMALLINT", "'6'::USMALLINT", "'0'::USMALLINT"]),
    ("u32", "UINT", ["'3'::UINT", "'4'::UINT", "'0'::UINT"]),
    ("u64", "UBIGINT", ["'3'::UBIGINT", "'10'::UBIGINT", "'0'::UBIGINT"]),
    ("f16", "HALF", ["'1.5'::HALF", "'-2'::HALF", "'0'::HALF"]),
    ("f32", "REAL", ["'1.5'::REAL", "'-2.25'::REAL", "'0'::REAL"]),
    ("f64", "DOUBLE", ["'1.5'::DOUBLE", "'-2.25'::DOUBLE", "'0'::DOUBLE"]),
    ("d42", "DECIMAL(4,2)", ["'1.25'::DECIMAL(4,2)", "'-20.50'::DECIMAL(4,2)", "'0'::DECIMAL(4,2)"]),
    ("d184", "DECIMAL(18,4)", ["'1.25'::DECIMAL(18,4)", "'-99999999999999.5'::DECIMAL(18,4)", "'0'::DECIMAL(18,4)"]),
    ("d3010", "DECIMAL(30,10)", ["'1.25'::DECIMAL(30,10)", "'-12345678901234567890.0123456789'::DECIMAL(30,10)", "'0'::DECIMAL(30,10)"]),
    ("d380", "DECIMAL(38,0)", ["'7'::DECIMAL(38,0)", "'-99999999999999999999999999999999999999'::DECIMAL(38,0)", "'0'::DECIMAL(38,0)"]),
    ("tx", "TEXT", ["'abc'", "'longer than twelve bytes'", "''"]),
    ("da", "DATE", ["DATE '2020-02-29'", "DATE '1969-12-31'", "DATE '0001-01-01'"]),
    ("ts", "TIMESTAMP", ["epoch_ms(86400000)", "epoch_ms(-1)", "epoch_ms(0)"]),
    ("iv", "INTERVAL", ["INTERVAL '1 day'", "INTERVAL '2 months'", "INTERVAL '0 seconds'"]),
    ("bl", "BLOB", ["'ab'::BLOB", "'longer than twelve bytes'::BLOB", "''::BLOB"]),
    ("li", "INT[]", ["[1, 2]", "[3]", "[0]"]),
    ("lt", "TEXT[]", ["['a', 'b']", "['c']", "['']"]),
]
TNAMES = [t[0] for t in TYPES]
OPS2 = ["+", "-", "*", "/", "%", "=", "<>", "<", "<=", ">", ">=", "||", "AND", "OR", "IS DISTINCT FROM", "IS NOT DISTINCT FROM", "LIKE"]
SPECIAL = [  # (name, template over argument slots, arity)
    ("neg", "-{0}", 1), ("not", "NOT {0}", 1), ("isnull", "{0} IS NULL", 1), ("istrue", "{0} IS TRUE", 1),
    ("between", "{0} BETWEEN {1} AND {2}", 3), ("inlist", "{0} IN ({1}, {2})", 3),
    ("case", "CASE WHEN id > 1 THEN {0} ELSE {1} END", 2), ("case_noelse", "CASE WHEN id > 1 THEN {0} END", 1),
    ("simplecase", "CASE {0} WHEN {1} THEN 1 ELSE 2 END", 2),
    ("coalesce", "COALESCE({0}, {1})", 2), ("coalesce3", "COALESCE({0}, {1}, {2})", 3),
    ("list", "[{0}, {1}]", 2), ("cast_text", "CAST({0} AS TEXT)", 1), ("cast_double", "CAST({0} AS DOUBLE)", 1),
    ("cast_dec", "CAST({0} AS DECIMAL(12,3))", 1), ("cast_big", "CAST({0} AS BIGINT)", 1),
]


SLOT = {"li": "[i32, id]", "lt": "[tx, tx]"}     # LIST values cannot be stored in tables: list arguments are built from columns


def slot(t):
    return SLOT.get(t, t)


def base_table_steps():
    cols = [t for t in TYPES if t[0] not in SLOT]
    sel = []
    for r in range(3):
        sel.append("SELECT " + ", ".join([f"{r + 1} AS id"] + [f"{t[2][r]} AS {t[0]}" for t in cols]))
    sel.append("SELECT " + ", ".join(["4"] + [("epoch_ms(CAST(NULL AS BIGINT))" if t[0] == "ts" else f"CASE WHEN 1 = 0 THEN {t[2][0]} END") for t in cols]))
    return [{"sql": "CREATE TEMP TABLE ty AS " + " UNION ALL ".join(sel), "out": "count"}, {"sql": "SELECT * FROM ty"}]


def expr_of(fn, kind, args):
    """SQL text of expression `fn` applied to args (already SQL)."""
    if kind == "fn":
        return f"{fn}({', '.join(args)})"
    if kind == "op":
        return f"({args[0]} {fn} {args[1]})"
    return "(" + fn.format(*args) + ")"


def desc_types(step):
    """rows of DESCRIBE -> [(name, type)] or None"""
    if step.get("outcome") != "rows":
        return None
    return [(r[0], r[1]) for r in step["rows"]]


def run(chk):
    thorough = chk.tier == "thorough"
    rng = chk.rng
    chk.rule = ("(a) type-resolution sweep: every scalar/aggregate function name of list_functions(), every binary operator and the CASE/COALESCE/IN/BETWEEN/"
                "list/cast forms x argument tuples over 23 column types (all arity-1 tuples; arity-2/3 tuples sampled in quick, exhaustive arity-2 in thorough): "
                "DESCRIBE decides which bind; each binding expression is then executed over a 4-row table (3 values + NULL row) and four observations must agree: "
                "DESCRIBE rows, announced output schema, DataType of every produced Array, variant/precision/scale/unit of every produced value. "
                "(b) the same expression re-bound in other places (UNION ALL branch, CTE, derived table, CREATE TABLE AS + DESCRIBE of the table, typed literals "
                "instead of columns = constant folding, fresh session) must receive the same type and name. (c) type unification: UNION ALL / CASE / COALESCE / "
                "VALUES over every ordered pair of types. (d) random queries of the C01 generator: DESCRIBE vs executed schema vs arrays vs values. "
                "(e) DESCRIBE of tables, views, table functions, SHOW, DML counts. distinct non-trivial = distinct (expression form, argument types) that bound and was executed")
    chk.assumptions = ["the driver compares Array::datatype() and ScalarValue variants with the announced field types (harness/src/values.rs); DESCRIBE prints DataType's Display form, the same the driver prints for the announced schema"]
    knowncases.run_known_cases(chk)
    # ---- function names
    res, _ = vrun.run_cases([{"id": "fns", "steps": [{"sql": "SELECT DISTINCT function_name, function_type FROM list_functions() WHERE function_type <> 'table' ORDER BY 1"}]}])
    st = res["fns"]["steps"][0]
    if st.get("outcome") != "rows":
        chk.inconc("list_functions() unavailable")
        return
    fns = [(r[0], r[1]) for r in st["rows"] if r[0] and r[0][0].isalpha()]
    chk.extra["function_names"] = len(fns)
    forms = [(f, "fn", None, ft) for f, ft in fns] + [(o, "op", 2, "scalar") for o in OPS2] + [(tpl, "special", ar, "scalar") for (_, tpl, ar) in SPECIAL]
    # ---- phase 1: which (form, type tuple) binds?  DESCRIBE only
    probes = []
    def add_probe(form, tup):
        f, kind, ar, ft = form
        e = expr_of(f, kind, [slot(t) for t in tup])
        probes.append((form, tup, e))
    for form in forms:
        f, kind, ar, ft = form
        arities = [ar] if ar else [0, 1, 2, 3]
        for a in arities:
            if a == 0:
                add_probe(form, ())
            elif a == 1:
                for t in TNAMES:
                    add_probe(form, (t,))
            elif a == 2:
                pairs = list(itertools.product(TNAMES, TNAMES))
                if not thorough:
                    pairs = rng.sample(pairs, 40 if kind == "fn" else 120)
                for p in pairs:
                    add_probe(form, p)
            else:
                n3 = (60 if thorough else 6) if kind == "fn" else (400 if thorough else 60)
                for _ in range(n3):
                    t0 = rng.choice(TNAMES)
                    # mostly same-family triples: those are the ones that bind
                    add_probe(form, (t0, rng.choice([t0, rng.choice(TNAMES)]), rng.choice([t0, rng.choice(TNAMES), "i32"])))
    chk.extra["bind_probes"] = len(probes)
    base = base_table_steps()
    cases = []
    per = 400
    for i in range(0, len(probes), per):
        steps = list(base) + [{"sql": f"DESCRIBE SELECT {e} AS r FROM ty"} for (_, _, e) in probes[i:i + per]]
        cases.append({"id": f"c18-p{i // per}", "exec": {"kind": "det", "policy": "fifo", "partitions": 2}, "steps": steps, "max_rows": 100})
    results, _ = vrun.run_sharded(cases, shards=16, wall_s=3000 if thorough else 900)
    bound = []      # (form, tup, expr, type)
    nb = len(base)
    for ci, c in enumerate(cases):
        r = results.get(c["id"])
        if r is None or "steps" not in r:
            if r is not None and "died" in r:
                chk.violation(outcome_signature(r), f"process died while binding: {json.dumps(r['died'])[:300]}", {"cases": [c]})
            else:
                chk.inconc("bind probe case not run")
            continue
        if any(s["outcome"] not in ("rows", "empty") for s in r["steps"][:nb]):
            chk.violation({"kind": "load-failed"}, f"creating the typed table failed: {json.dumps(r['steps'][:nb])[:400]}", {"cases": [c]})
            return
        for (form, tup, e), s in zip(probes[ci * per:(ci + 1) * per], r["steps"][nb:]):
            chk.evaluated()
            if s["outcome"] == "panic":
                chk.violation(outcome_signature(s), f"panic while binding DESCRIBE SELECT {e} AS r FROM ty: {s.get('panic_msg')} @ {s.get('panic_loc')}", {"cases": [{"id": "r", "steps": base + [{"sql": f"DESCRIBE SELECT {e} AS r FROM ty"}]}]})
                continue
            d = desc_types(s)
            if d is None:
                chk.count("does not bind")
                continue
            if len(d) != 1 or d[0][0] != "r":
                chk.violation({"kind": "describe-shape", "form": form[0]}, f"DESCRIBE SELECT {e} AS r FROM ty -> {d}", {"cases": [{"id": "r", "steps": base + [{"sql": f"DESCRIBE SELECT {e} AS r FROM ty"}]}]})
                continue
            bound.append((form, tup, e, d[0][1]))
    chk.extra["bound_expressions"] = len(bound)
    chk.floor(len(bound) >= 300, f"only {len(bound)} expressions bound")
    # ---- phase 2: execute + contexts
    lit = {t[0]: t[2][0] for t in TYPES}
    ctx_sample = set(rng.sample(range(len(bound)), min(len(bound), 6000 if thorough else 700)))
    cases = []
    meta = {}
    per = 60
    for i in range(0, len(bound), per):
        steps = list(base)
        spec = []
        for j, (form, tup, e, ty) in enumerate(b[:4] for b in bound[i:i + per]):
            k = i + j
            steps.append({"sql": f"SELECT {e} AS r FROM ty"})
            spec.append((k, "run"))
            if k in ctx_sample:
                agg = form[3] == "aggregate"
                steps.append({"sql": f"DESCRIBE SELECT {e} FROM ty"})
                spec.append((k, "desc_unaliased"))
                steps.append({"sql": f"SELECT {e} FROM ty"})
                spec.append((k, "run_unaliased"))
                steps.append({"sql": f"SELECT {e} AS r FROM ty UNION ALL SELECT {e} FROM ty"})
                spec.append((k, "union"))
                steps.append({"sql": f"WITH c AS (SELECT {e} AS r FROM ty) SELECT r FROM c"})
                spec.append((k, "cte"))
                steps.append({"sql": f"SELECT s.r FROM (SELECT {e} AS r FROM ty) s, (SELECT 1) o"})
                spec.append((k, "derived"))
                steps.append({"sql": f"CREATE TEMP TABLE o{k} AS SELECT {e} AS r FROM ty", "out": "count"})
                spec.append((k, "ctas"))
                steps.append({"sql": f"DESCRIBE o{k}"})
                spec.append((k, "ctas_desc"))
                steps.append({"sql": f"SELECT r FROM o{k}"})
                spec.append((k, "ctas_read"))
                if not agg and tup and all(t in lit for t in tup) and "id" not in e.replace("(id", " id").split():
                    le = expr_of(form[0], form[1], [lit[t] for t in tup])
                    if "id >" not in le:
                        steps.append({"sql": f"SELECT {le} AS r"})
                        spec.append((k, "literals"))
                        steps.append({"sql": "SET enable_optimizer TO false", "out": "count"})
                        spec.append((k, "set"))
                        steps.append({"sql": f"SELECT {le} AS r"})
                        spec.append((k, "literals_nofold"))
                        steps.append({"sql": "SET enable_optimizer TO true", "out": "count"})
                        spec.append((k, "set"))
                if not agg:
                    steps.append({"sql": f"SELECT {e} AS r FROM ty WHERE id < 4 GROUP BY {e}"})
                    spec.append((k, "groupby"))
        c = {"id": f"c18-x{i // per}", "exec": {"kind": "det", "policy": "random", "seed": rng.randint(0, 1 << 30), "partitions": rng.choice([1, 2, 4])}, "steps": steps, "max_rows": 100}
        cases.append(c)
        meta[c["id"]] = spec
    pending = cases
    rounds = 0
    seen_panic_sites = {}
    while pending and rounds < 8:
        rounds += 1
        results, _ = vrun.run_sharded(pending, shards=16, wall_s=3000 if thorough else 900)
        nxt = []
        for c in pending:
            r = results.get(c["id"])
            spec = meta[c["id"]]
            if r is None or "steps" not in r:
                if r is not None and "died" in r:
                    chk.violation(outcome_signature(r), f"process died: {json.dumps(r['died'])[:300]}", {"cases": [c]})
                else:
                    chk.inconc("case not run")
                continue
            stop = None
            for si, (s, (k, what)) in enumerate(zip(r["steps"][nb:], spec)):
                if s["outcome"] == "skipped":
                    break
                form, tup, e, ty = bound[k][:4]
                sql = c["steps"][nb + si]["sql"]
                replay = {"cases": [{"id": "r", "exec": c["exec"], "steps": base + [{"sql": f"DESCRIBE SELECT {e} AS r FROM ty"}, {"sql": sql}]}]}
                if what == "set":
                    continue
                chk.evaluated()
                if s["outcome"] == "panic":
                    # a panic is C15's subject (and C05's); here it only ends the case. Counted, never silently dropped.
                    chk.count("panic during execution (judged by C15)")
                    seen_panic_sites[(s.get("panic_loc") or "").rsplit(":", 2)[0]] = sql
                    stop = si
                    break
                if s["outcome"] in ("deadlock", "diverged", "timeout"):
                    chk.count(f"{s['outcome']} during execution (judged by C04/C15)")
                    stop = si
                    break
                if s.get("mismatch"):
                    chk.violation({"kind": "array-or-value-type-differs", "form": form[0], "ctx": what, "announced": strip_ps(s["schema"][0][1]) if s.get("schema") else None},
                                  f"{sql}\n  {s['mismatch']}", replay)
                    continue
                if s["outcome"] == "error":
                    chk.count(f"runtime/bind error in context {what}")
                    if what in ("run",) and "not implemented" not in (s.get("error") or "").lower():
                        chk.count("bound by DESCRIBE but failed when run")
                    continue
                if what in ("ctas", ):
                    continue
                if what in ("desc_unaliased", "ctas_desc"):
                    d = desc_types(s)
                    got_t = d[0][1] if d else None
                    if what == "ctas_desc" and d and (len(d) != 1 or d[0][0] != "r"):
                        chk.violation({"kind": "ctas-schema-differs", "form": form[0]}, f"{sql} -> {d}", replay)
                        continue
                    if what == "desc_unaliased":
                        bound[k] = (form, tup, e, ty) + ((d[0][0],) if d else (None,))
                else:
                    if not s.get("schema") or len(s["schema"]) != 1:
                        chk.violation({"kind": "schema-shape", "form": form[0], "ctx": what}, f"{sql} -> schema {s.get('schema')}", replay)
                        continue
                    got_t = s["schema"][0][1]
                    if what == "run_unaliased":
                        want_name = bound[k][4] if len(bound[k]) > 4 else None
                        if want_name is not None and s["schema"][0][0] != want_name:
                            chk.violation({"kind": "column-name-differs", "form": form[0]}, f"{sql}: DESCRIBE says {want_name!r}, result says {s['schema'][0][0]!r}", replay)
                    elif s["schema"][0][0] != "r":
                        chk.violation({"kind": "column-name-differs", "form": form[0], "ctx": what}, f"{sql}: column named {s['schema'][0][0]!r}, expected 'r'", replay)
                if got_t != ty:
                    chk.violation({"kind": "type-depends-on-context", "form": form[0], "ctx": what, "types": sorted([strip_ps(ty), strip_ps(got_t or "")])},
                                  f"{sql}\n  type {got_t}, but DESCRIBE SELECT {e} AS r FROM ty (fresh session) said {ty}", replay)
                    continue
                if what == "run":
                    chk.nontrivial((form[0], tup))
                    chk.count("executed:" + form[1])
            if stop is not None and stop + 1 < len(spec):
                rest = spec[stop + 1:]
                c2 = dict(c)
                c2["id"] = c["id"] + "+"
                c2["steps"] = c["steps"][:nb] + c["steps"][nb + stop + 1:]
                meta[c2["id"]] = rest
                nxt.append(c2)
        pending = nxt
    chk.extra["panic_sites_seen"] = len(seen_panic_sites)
    # ---- (c) unification over ordered pairs
    ucases = []
    umeta = {}
    pairs = list(itertools.product(TNAMES, TNAMES))
    if not thorough:
        half = rng.sample(pairs, 110)
        pairs = sorted(set(half) | set((b, a) for (a, b) in half))      # both orders of every sampled pair
    steps = list(base)
    spec = []
    for (a0, b0) in pairs:
        a, b = slot(a0), slot(b0)
        for kind, sql in (("union", f"SELECT {a} AS r FROM ty UNION ALL SELECT {b} FROM ty"),
                          ("union3", f"SELECT {a} AS r FROM ty UNION ALL SELECT {b} FROM ty UNION ALL SELECT {a} FROM ty"),
                          ("values", f"SELECT * FROM (VALUES ({lit[a0]}), ({lit[b0]})) v(r)"),
                          ("case", f"SELECT CASE WHEN id > 2 THEN {a} ELSE {b} END AS r FROM ty"),
                          ("coalesce", f"SELECT COALESCE({a}, {b}) AS r FROM ty"),
                          # several mismatched columns unified in opposite directions within one set operation
                          ("union2", f"SELECT {a} AS r, {b} AS q FROM ty UNION ALL SELECT {b}, {a} FROM ty"),
                          ("union3col", f"SELECT {a} AS r, id AS i, {b} AS q FROM ty UNION ALL SELECT {b}, id, {a} FROM ty WHERE id < 3")):
            steps.append({"sql": "DESCRIBE " + sql})
            spec.append((a0, b0, kind, "desc", sql))
            steps.append({"sql": sql})
            spec.append((a0, b0, kind, "run", sql))
        if len(steps) > 300:
            c = {"id": f"c18-u{len(ucases)}", "exec": {"kind": "det", "policy": "random", "seed": rng.randint(0, 1 << 30), "partitions": rng.choice([1, 2, 4])}, "steps": steps, "max_rows": 100}
            ucases.append(c)
            umeta[c["id"]] = spec
            steps = list(base)
            spec = []
    if spec:
        c = {"id": f"c18-u{len(ucases)}", "exec": {"kind": "det", "policy": "random", "seed": 1, "partitions": 2}, "steps": steps, "max_rows": 100}
        ucases.append(c)
        umeta[c["id"]] = spec
    results, _ = vrun.run_sharded(ucases, shards=16, wall_s=900)
    union_ran = {}
    # first pass: which single-column unions ran
    for c in ucases:
        r = results.get(c["id"])
        if r is None or "steps" not in r:
            continue
        for s, (a, b, kind, what, sql) in zip(r["steps"][nb:], umeta[c["id"]]):
            if kind == "union" and what == "run" and s["outcome"] in ("rows", "empty") and not s.get("mismatch"):
                union_ran[(a, b)] = True
    for c in ucases:
        r = results.get(c["id"])
        if r is None or "steps" not in r:
            chk.inconc("unification case not run")
            continue
        last_desc = None
        for s, (a, b, kind, what, sql) in zip(r["steps"][nb:], umeta[c["id"]]):
            pass
        for s, (a, b, kind, what, sql) in zip(r["steps"][nb:], umeta[c["id"]]):
            if s["outcome"] == "skipped":
                break
            chk.evaluated()
            replay = {"cases": [{"id": "r", "exec": c["exec"], "steps": base + [{"sql": "DESCRIBE " + sql}, {"sql": sql}]}]}
            if s["outcome"] == "panic":
                chk.count("panic during execution (judged by C15)")
                break
            if what == "desc":
                last_desc = desc_types(s)
                continue
            if s.get("mismatch"):
                chk.violation({"kind": "array-or-value-type-differs", "form": kind, "ctx": "unify"}, f"{sql}\n  {s['mismatch']}", replay)
                continue
            if s["outcome"] == "error":
                if last_desc is not None:
                    chk.count("unification bound by DESCRIBE but failed when run")
                    if kind in ("union2", "union3col") and union_ran.get((a, b)) and union_ran.get((b, a)):
                        # every column of this set operation unifies and casts fine on its own (both directions ran above)
                        first = (s.get("error") or "").split("\n")[0]
                        chk.violation({"kind": "multi-column-setop-fails", "form": kind}, f"{sql}\n  DESCRIBE announces {last_desc}, each column pair unifies and runs on its own, but the statement fails: {first}", replay)
                continue
            if kind == "union":
                union_ran[(a, b)] = True
            if last_desc is None:
                chk.violation({"kind": "describe-fails-but-runs", "form": kind}, f"{sql}: runs, but DESCRIBE of it fails", replay)
                continue
            got = [(n, t) for n, t in s["schema"]]
            if got != last_desc:
                chk.violation({"kind": "describe-differs-from-schema", "form": kind}, f"{sql}: DESCRIBE {last_desc} vs announced {got}", replay)
                continue
            chk.nontrivial(("unify", kind, a, b))
    # ---- (d) random queries
    def steps_fn(sql):
        return [{"sql": "DESCRIBE " + sql}, {"sql": sql}]
    def judge(chk_, db, q, sql, group, case, tags):
        chk_.evaluated()
        d, s = group
        replay = {"cases": [case], "sql": sql}
        if s["outcome"] == "panic" or d["outcome"] == "panic":
            chk_.count("panic during execution (judged by C01/C15)")
            return "panic"
        if s.get("mismatch"):
            chk_.violation({"kind": "array-or-value-type-differs", "form": "query", "ctx": "generated"}, f"{sql}\n  {s['mismatch']}", replay)
            return "violation"
        dt = desc_types(d)
        if s["outcome"] not in ("rows", "empty"):
            return "error"
        if dt is None:
            first = (d.get("error") or "").split("\n")[0]
            chk_.violation({"kind": "describe-fails-but-runs", "form": "query", "msg": qcheck.compare_msg(first)}, f"{sql}: runs, but DESCRIBE fails: {first}", replay)
            return "violation"
        got = [(n, t) for n, t in s["schema"]]
        if got != dt:
            chk_.violation({"kind": "describe-differs-from-schema", "form": "query"}, f"{sql}: DESCRIBE {dt} vs announced {got}", replay)
            return "violation"
        chk_.nontrivial(("query", tuple(t for _, t in got), len(tags)))
        return "ok"
    work = qcheck.gen_workload(rng, 60 if thorough else 12, 60 if thorough else 40, id_prefix="c18-q", chk=chk, steps_fn=steps_fn)
    verdicts = {}
    for verdict, q, sql, tags, st, case in qcheck.run_workload(chk, work, wall_s=1800, judge_fn=judge):
        verdicts[verdict] = verdicts.get(verdict, 0) + 1
    chk.extra["generated_query_verdicts"] = verdicts
    # ---- (e) other statement kinds
    misc = [("CREATE TEMP TABLE m (a INT, b TEXT, c DECIMAL(10,3), d DOUBLE)", None),
            ("INSERT INTO m VALUES (1, 'x', 1.5, 2.5)", None),
            ("CREATE TEMP VIEW mv AS SELECT a + 1 AS a1, b || b AS bb, c * c AS cc FROM m", None),
            ("SELECT * FROM m", "m"), ("SELECT * FROM mv", "mv"), ("SELECT * FROM generate_series(1, 3)", "generate_series(1, 3)"),
            ("SELECT * FROM list_tables()", "list_tables()"), ("SELECT * FROM list_schemas()", "list_schemas()"), ("SELECT * FROM list_functions()", "list_functions()"),
            ("SELECT * FROM unnest([1, 2, 3])", "unnest([1, 2, 3])"), ("VALUES (1, 'a', 1.5), (2, 'b', 22.25)", None),
            ("SHOW partitions", None), ("SHOW batch_size", None), ("SHOW enable_optimizer", None), ("SHOW application_name", None),
            ("INSERT INTO m SELECT * FROM m", None), ("CREATE TEMP TABLE m2 AS SELECT * FROM m", None), ("SET partitions TO 2", None),
            ("EXPLAIN SELECT 1", None), ("DESCRIBE m", None), ("DESCRIBE SELECT 1 AS x", None), ("SELECT * FROM execution_profile()", "execution_profile()"),
            ("SELECT * FROM list_databases()", "list_databases()")]
    steps = []
    spec = []
    for sql, obj in misc:
        if obj:
            steps.append({"sql": "DESCRIBE " + obj})
            spec.append(("desc_obj", sql))
        if sql.startswith(("SELECT", "VALUES")):
            steps.append({"sql": "DESCRIBE " + sql})
            spec.append(("desc", sql))
        steps.append({"sql": sql})
        spec.append(("run", sql))
    c = {"id": "c18-misc", "exec": {"kind": "det", "policy": "random", "seed": 3, "partitions": 2}, "steps": steps, "max_rows": 2000}
    r, _ = vrun.run_cases([c])
    r = r.get("c18-misc")
    if r is None or "steps" not in r:
        chk.inconc("misc case not run")
    else:
        descs = []
        for s, (what, sql) in zip(r["steps"], spec):
            chk.evaluated()
            if what in ("desc_obj", "desc"):
                descs.append((what, desc_types(s)))
                continue
            replay = {"cases": [c], "sql": sql}
            if s.get("mismatch"):
                chk.violation({"kind": "array-or-value-type-differs", "form": sql.split()[0], "ctx": "misc"}, f"{sql}\n  {s['mismatch']}", replay)
            elif s["outcome"] in ("rows", "empty"):
                got = [(n, t) for n, t in s.get("schema", [])]
                for what_d, d in descs:
                    if d is None:
                        chk.violation({"kind": "describe-fails-but-runs", "form": sql.split()[0] + " " + what_d}, f"{sql}: DESCRIBE failed", replay)
                    elif d != got:
                        chk.violation({"kind": "describe-differs-from-schema", "form": sql.split()[0] + " " + what_d}, f"{sql}: DESCRIBE {d} vs announced {got}", replay)
                    else:
                        chk.nontrivial(("misc", sql))
            elif s["outcome"] != "error":
                chk.violation(outcome_signature(s), f"{sql}: {s['outcome']}", replay)
            descs = []
    for (form, tup, e, ty, *_) in bound[:6]:
        chk.sample({"expression": e, "type": ty})


def strip_ps(t):
    """Decimal64(12,3) -> Decimal64 (signatures must not depend on the particular precision)."""
    return (t or "").split("(")[0]
