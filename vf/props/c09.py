"""C09 — correlated subqueries, CTEs and views mean what nested evaluation means."""
import copy, json
from vf import qcheck, compare, knowncases, sqlgen, avoid
from vf import run as vrun
from vf.sqlast import qsql, E, Sel, Q, F
from vf.core import outcome_signature

WEIGHTS = dict(subquery=0.85, corr=0.8, join=0.35, where=0.8, group=0.2, agg=0.1, cte=0.35, derived=0.25, lateral=0.12, union=0.08, order=0.4, limit=0.15, distinct=0.1)


def workload(chk):
    thorough = chk.tier == "thorough"
    n_dbs, per = (500, 40) if thorough else (80, 30)
    return qcheck.gen_workload(chk.rng, n_dbs, per, weights=WEIGHTS, id_prefix="c09-", chk=chk)


def metamorphic_cases(chk, n):
    """(CTE | MATERIALIZED CTE | VIEW | inlined derived table) forms of one inner query must agree."""
    rng = chk.rng
    out = []
    for i in range(n):
        db = sqlgen.gen_database(rng, max_rows=40)
        g = sqlgen.Gen(rng, db, weights=dict(cte=0, subquery=0.0, lateral=0.0, union=0.1, limit=0.0, order=0.0, aliasref=0.0))
        try:
            inner = g.query(rng.choice([1, 2]), top=False, force_alias=True)
            inner.order, inner.limit, inner.offset = [], None, None
            isql = qsql(inner)
        except (IndexError, ValueError, KeyError):
            continue
        if avoid.query_avoid_reasons(inner, 4):
            continue
        cols = [nm for nm, _ in inner.out]
        c0 = cols[0]
        t0 = inner.out[0][1]
        # outer templates reference the relation X once or twice (the second time through an expression subquery)
        tmpl = rng.choice([
            "SELECT * FROM {X} AS q",
            "SELECT q.{c}, (SELECT count(*) FROM {X} AS q2) AS n FROM {X} AS q",
            "SELECT count(*) FROM {X} AS q WHERE q.{c} IS NOT NULL",
            # (second references stay uncorrelated: NULL correlation values run into a recorded deviation that shows in
            # some forms only)
            "SELECT q.{c} FROM {X} AS q WHERE (SELECT count(*) FROM {X} AS q2) > 0",
            "SELECT q.{c}, count(*) FROM {X} AS q GROUP BY q.{c}",
        ])
        load = sqlgen.load_steps(db)
        forms = {
            "cte": "WITH cx AS (" + isql + ") " + tmpl.format(X="cx", c=c0),
            "cte_mat": "WITH cx AS MATERIALIZED (" + isql + ") " + tmpl.format(X="cx", c=c0),
            "view": tmpl.format(X="vx", c=c0),
            "inline": tmpl.format(X="(" + isql + ")", c=c0),
        }
        steps = [{"sql": s, "out": "count"} for s in load]
        steps.append({"sql": f"SET partitions TO {rng.choice([1, 2, 4, 8])}", "out": "count"})
        steps.append({"sql": "CREATE TEMP VIEW vx AS " + isql, "out": "count"})
        nload = len(steps)
        for name in ("cte", "cte_mat", "view", "inline"):
            steps.append({"sql": forms[name]})
        ex = {"kind": "det", "policy": rng.choice(["random", "lifo", "starve"]), "seed": rng.randint(0, 1 << 30), "yield_p": rng.choice([0, 0.1, 0.5])}
        out.append(({"id": f"c09m-{i}", "exec": ex, "steps": steps, "max_rows": 30000}, nload, tmpl, isql))
    return out


def grouped_correlated_cases(chk, n):
    """Correlated subqueries whose body has its own GROUP BY / HAVING (the decorrelation has to add the correlated
    column to every grouping set of an aggregate that already groups). Expected rows by direct nested evaluation."""
    rng = chk.rng
    out = []
    for i in range(n):
        n1, n2 = rng.choice([1, 3, 8]), rng.choice([0, 4, 15, 40])
        t1 = [(k, rng.choice([10, 20, 30, None])) for k in range(1, n1 + 1)]                    # (a, c); a is never NULL
        t2 = [(rng.choice([None] + list(range(1, n1 + 2))), rng.choice([10, 20, 30, None]), rng.randint(0, 5)) for _ in range(n2)]   # (a, b, v)
        kk = rng.choice([0, 1, 2])
        def groups(a):
            g = {}
            for (a2, b, v) in t2:
                if a2 is not None and a2 == a:
                    g.setdefault(b, []).append(v)
            return g
        q = []
        # EXISTS over a grouped, filtered body
        q.append((f"SELECT t1.a, EXISTS (SELECT 1 FROM t2 WHERE t2.a = t1.a GROUP BY t2.b HAVING count(*) > {kk}) FROM t1",
                  [(a, any(len(vs) > kk for vs in groups(a).values())) for (a, c) in t1]))
        # IN over a grouped body (non-NULL probe value and NULL-free candidate set keep it two-valued)
        q.append((f"SELECT t1.a FROM t1 WHERE t1.c IN (SELECT t2.b FROM t2 WHERE t2.a = t1.a AND t2.b IS NOT NULL GROUP BY t2.b)",
                  [(a,) for (a, c) in t1 if c is not None and c in [b for b in groups(a) if b is not None]]))
        # scalar subquery over a derived grouped table
        def mx(a):
            cs = [len(vs) for vs in groups(a).values()]
            return max(cs) if cs else None
        q.append(("SELECT t1.a, (SELECT max(s.n) FROM (SELECT count(*) AS n FROM t2 WHERE t2.a = t1.a GROUP BY t2.b) s) FROM t1", [(a, mx(a)) for (a, c) in t1]))
        def sm(a):
            cs = [sum(vs) for b, vs in groups(a).items() if len(vs) >= 2]
            return sum(cs) if cs else None
        q.append(("SELECT t1.a, (SELECT sum(s.w) FROM (SELECT t2.b, sum(t2.v) AS w FROM t2 WHERE t2.a = t1.a GROUP BY t2.b HAVING count(*) >= 2) s) FROM t1", [(a, sm(a)) for (a, c) in t1]))
        # two grouping columns inside, correlation in the filter
        def ng(a):
            return len({(b, v % 2) for (a2, b, v) in t2 if a2 is not None and a2 == a})
        # (sum(1), not count(*): a correlated scalar COUNT over an empty set is a recorded deviation)
        q.append(("SELECT t1.a, (SELECT sum(s.one) FROM (SELECT 1 AS one, t2.b, t2.v % 2 AS p FROM t2 WHERE t2.a = t1.a GROUP BY t2.b, t2.v % 2) s) FROM t1", [(a, ng(a) or None) for (a, c) in t1]))
        lit = lambda v: "NULL" if v is None else str(v)
        steps = [{"sql": "CREATE TEMP TABLE t1 (a INT, c INT)", "out": "count"}, {"sql": "CREATE TEMP TABLE t2 (a INT, b INT, v INT)", "out": "count"},
                 {"sql": "INSERT INTO t1 VALUES " + ", ".join(f"({lit(a)}, {lit(c)})" for a, c in t1), "out": "count"}]
        if t2:
            steps.append({"sql": "INSERT INTO t2 VALUES " + ", ".join(f"({lit(a)}, {lit(b)}, {lit(v)})" for a, b, v in t2), "out": "count"})
        nload = len(steps)
        for sql, _ in q:
            steps.append({"sql": sql})
        c = {"id": f"c09-g{i}", "exec": {"kind": "det", "policy": "random", "seed": rng.randint(0, 1 << 30), "partitions": rng.choice([1, 2, 4])}, "steps": steps, "max_rows": 1000}
        out.append((c, nload, q))
    return out


def run(chk):
    thorough = chk.tier == "thorough"
    chk.rule = ("(1) generator weighted to scalar/EXISTS/IN/ANY/ALL/LATERAL subqueries correlated through filters, projections, aggregates "
                "(COUNT/SUM/MIN over possibly empty sets), placed in the select list, WHERE, under NOT, with NULL and duplicate outer values and "
                "inner sets empty for some outer rows; oracle = per-outer-row nested evaluation in vf/refsql.py. (2) metamorphic quadruples: the "
                "same inner query as WITH, WITH MATERIALIZED, CREATE TEMP VIEW and inlined derived table, referenced once or twice, must agree. "
                "(2b) correlated EXISTS / IN / scalar subqueries whose body has its own GROUP BY / HAVING (also through a derived table), expected rows by direct nested evaluation in Python. (3) the documented MATERIALIZED + random() example must return true. distinct non-trivial = distinct (feature tags, database) "
                "compared in (1) + distinct metamorphic quadruples that agreed with a non-empty result")
    chk.assumptions = ["vf/refsql.py nested evaluation", "recorded deviations (two-valued IN/ANY/ALL, COUNT bug, LATERAL NULL correlation) are recognised by model switches tied to their triggers"]
    knowncases.run_known_cases(chk)
    verdicts = {}
    tags_hist = {}
    for verdict, q, sql, tags, st, case in qcheck.run_workload(chk, workload(chk), wall_s=3000 if thorough else 900):
        verdicts[verdict] = verdicts.get(verdict, 0) + 1
        if verdict in ("ok", "known"):
            chk.nontrivial((sorted(tags), case["id"].split("@")[0]))
            for t in tags:
                tags_hist[t] = tags_hist.get(t, 0) + 1
            if len(chk.samples) < 5 and ("correlated" in tags or "scalar_subquery" in tags):
                chk.sample({"sql": sql, "exec": case["exec"], "rows": st.get("count"), "tags": sorted(tags)})
    chk.extra["verdicts"] = verdicts
    chk.extra["feature_tags"] = dict(sorted(tags_hist.items()))
    # (2) metamorphic
    mc = metamorphic_cases(chk, 400 if thorough else 60)
    results, m = vrun.run_sharded([c for c, _, _, _ in mc], shards=16, wall_s=1200)
    agree = 0
    for (c, nload, tmpl, isql) in mc:
        res = results.get(c["id"])
        if res is None or "steps" not in res:
            if res is not None and "died" in res:
                chk.violation(outcome_signature(res), f"metamorphic case died: {json.dumps(res['died'])[:300]}", {"cases": [c]})
            else:
                chk.inconc("metamorphic case not run")
            continue
        steps = res["steps"]
        if any(st["outcome"] not in ("rows", "empty") for st in steps[:nload]):
            bad = next(st for st in steps[:nload] if st["outcome"] not in ("rows", "empty"))
            first = (bad.get("error") or "").split("\n")[0]
            if bad["outcome"] == "panic":
                if chk.violation(outcome_signature(bad), f"panic creating view: {bad.get('panic_msg')}\n{isql}", {"cases": [c]}):
                    pass
            elif any(mk in first for mk in qcheck.UNSUPPORTED_MARKERS):
                chk.count("metamorphic_unsupported")
            else:
                chk.violation({"kind": "unexpected-error", "message": qcheck.compare_msg(first)}, f"view creation failed: {first}\n{isql}", {"cases": [c]})
            continue
        outs = steps[nload:nload + 4]
        chk.evaluated()
        names = ["cte", "cte_mat", "view", "inline"]
        kinds = [st["outcome"] for st in outs]
        if any(k == "panic" for k in kinds):
            st = outs[kinds.index("panic")]
            chk.violation(outcome_signature(st), f"panic in form {names[kinds.index('panic')]}: {st.get('panic_msg')}\n{isql}", {"cases": [c]})
            continue
        if any(k in ("deadlock", "diverged") for k in kinds):
            i = next(i for i, k in enumerate(kinds) if k in ("deadlock", "diverged"))
            chk.violation({"kind": "outcome", "class": kinds[i], "deadlock_kind": outs[i].get("deadlock_kind"), "parked_ops": outs[i].get("parked_ops")}, f"{kinds[i]} in form {names[i]}\n{c['steps'][nload + i]['sql']}", {"cases": [c]})
            continue
        if len(set(kinds)) > 1:
            errs = {names[i]: (outs[i].get("error") or "").split("\n")[0][:120] for i in range(4) if kinds[i] == "error"}
            first = list(errs.values())[0] if errs else ""
            if chk.violation({"kind": "unexpected-error", "message": qcheck.compare_msg(first)}, f"forms disagree on outcome {dict(zip(names, kinds))}: {errs}\ninner: {isql}\nouter: {tmpl}", {"cases": [c]}):
                pass
            continue
        if kinds[0] != "rows":
            chk.count("metamorphic_all_error")
            continue
        ref = [compare.dec_row(r) for r in outs[3].get("rows", [])]
        ok_all = True
        for i in range(3):
            rows = [compare.dec_row(r) for r in outs[i].get("rows", [])]
            ok, why = compare.bag_equal(ref, rows)
            if not ok:
                ok_all = False
                chk.violation({"kind": "cte-view-inline-disagree", "form": names[i]}, f"form {names[i]} differs from the inlined query: {why}\ninner: {isql}\nouter: {tmpl}", {"cases": [c]})
                break
        if ok_all:
            agree += 1
            if ref:
                chk.nontrivial(("metamorphic", isql, tmpl))
    chk.extra["metamorphic_quadruples_agreeing"] = agree
    # (2b) correlated subqueries with their own GROUP BY
    gc = grouped_correlated_cases(chk, 300 if thorough else 50)
    results, m = vrun.run_sharded([c for c, _, _ in gc], shards=16, wall_s=900)
    gok = 0
    for (c, nload, q) in gc:
        res = results.get(c["id"])
        if res is None or "steps" not in res:
            if res is not None and "died" in res:
                chk.violation(outcome_signature(res), f"grouped-correlated case died: {json.dumps(res['died'])[:300]}", {"cases": [c]})
            else:
                chk.inconc("grouped-correlated case not run")
            continue
        for (sql, want), st in zip(q, res["steps"][nload:]):
            if st["outcome"] == "skipped":
                break
            chk.evaluated()
            if st["outcome"] == "panic":
                chk.violation(outcome_signature(st), f"panic: {st.get('panic_msg')} @ {st.get('panic_loc')}\n{sql}", {"cases": [c]})
                break
            if st["outcome"] != "rows":
                first = (st.get("error") or "").split("\n")[0]
                chk.violation({"kind": "unexpected-error", "message": qcheck.compare_msg(first)}, f"grouped correlated subquery failed: {first}\n{sql}", {"cases": [c], "sql": sql})
                continue
            rows = [compare.dec_row(r) for r in st.get("rows", [])]
            ok, why = compare.bag_equal([tuple(w) for w in want], rows)
            if not ok:
                chk.violation({"kind": "wrong-rows", "form": "correlated-subquery-with-group-by", "shape": sql.split("(SELECT")[1][:24].strip() if "(SELECT" in sql else "in"},
                              f"{why}\n{sql}\nexpected {want[:6]} got {rows[:6]}", {"cases": [c], "sql": sql})
            else:
                gok += 1
                if any(any(x not in (None, False, 0) for x in w[1:]) for w in want) or (want and len(want[0]) == 1):
                    chk.nontrivial(("grouped-correlated", c["id"], sql[:60]))
    chk.extra["grouped_correlated_ok"] = gok
    # (3) documented example
    res, _ = vrun.run_cases([{"id": "doc", "exec": {"kind": "det", "policy": "random", "seed": chk.seed, "partitions": 4},
                              "steps": [{"sql": "WITH c AS MATERIALIZED (SELECT random() * 100 AS a) SELECT c1.a = c2.a FROM c AS c1, c AS c2"}]}])
    st = res["doc"]["steps"][0] if "steps" in res.get("doc", {}) else {"outcome": "not_run"}
    chk.evaluated()
    if st["outcome"] == "rows" and st.get("rows") == [[True]]:
        chk.count("documented_materialized_random_example_true")
    elif st["outcome"] == "not_run":
        chk.inconc("documented example not run")
    else:
        chk.violation({"kind": "documented-example", "what": "materialized-random"}, f"docs/sql/query-syntax/with.md example returned {json.dumps(st)[:300]}", None)
