"""C09 — correlated subqueries, CTEs and views mean what nested evaluation means."""
import copy, json
from vf import qcheck, compare, knowncases, sqlgen, avoid
from vf import run as vrun
from vf.sqlast import qsql, E, Sel, Q, F
from vf.core import outcome_signature

WEIGHTS = dict(subquery=0.85, corr=0.8, join=0.35, where=0.8, group=0.2, agg=0.1, cte=0.35, derived=0.25, lateral=0.12, union=0.08, order=0.4, limit=0.15, distinct=0.1)


def workload(chk):
    thorough = chk.tier == "thorough"
    n_dbs, per = (500, 40) if thorough else (80, 30)
    return qcheck.gen_workload(chk.rng, n_dbs, per, weights=WEIGHTS, id_prefix="c09-", chk=chk)


def metamorphic_cases(chk, n):
    """(CTE | MATERIALIZED CTE | VIEW | inlined derived table) forms of one inner query must agree."""
    rng = chk.rng
    out = []
    for i in range(n):
        db = sqlgen.gen_database(rng, max_rows=40)
        g = sqlgen.Gen(rng, db, weights=dict(cte=0, subquery=0.0, lateral=0.0, union=0.1, limit=0.0, order=0.0, aliasref=0.0))
        try:
            inner = g.query(rng.choice([1, 2]), top=False, force_alias=True)
            inner.order, inner.limit, inner.offset = [], None, None
            isql = qsql(inner)
        except (IndexError, ValueError, KeyError):
            continue
        if avoid.query_avoid_reasons(inner, 4):
            continue
        cols = [nm for nm, _ in inner.out]
        c0 = cols[0]
        t0 = inner.out[0][1]
        # outer templates reference the relation X once or twice (the second time through an expression subquery)
        tmpl = rng.choice([
            "SELECT * FROM {X} AS q",
            "SELECT q.{c}, (SELECT count(*) FROM {X} AS q2) AS n FROM {X} AS q",
            "SELECT count(*) FROM {X} AS q WHERE q.{c} IS NOT NULL",
            # (second references stay uncorrelated: NULL correlation values run into a recorded deviation that shows in
            # some forms only)
            "SELECT q.{c} FROM {X} AS q WHERE (SELECT count(*) FROM {X} AS q2) > 0",
            "SELECT q.{c}, count(*) FROM {X} AS q GROUP BY q.{c}",
        ])
        load = sqlgen.load_steps(db)
        forms = {
            "cte": "WITH cx AS (" + isql + ") " + tmpl.format(X="cx", c=c0),
            "cte_mat": "WITH cx AS MATERIALIZED (" + isql + ") " + tmpl.format(X="cx", c=c0),
            "view": tmpl.format(X="vx", c=c0),
            "inline": tmpl.format(X="(" + isql + ")", c=c0),
        }
        steps = [{"sql": s, "out": "count"} for s in load]
        steps.append({"sql": f"SET partitions TO {rng.choice([1, 2, 4, 8])}", "out": "count"})
        steps.append({"sql": "CREATE TEMP VIEW vx AS " + isql, "out": "count"})
        nload = len(steps)
        for name in ("cte", "cte_mat", "view", "inline"):
            steps.append({"sql": forms[name]})
        ex = {"kind": "det", "policy": rng.choice(["random", "lifo", "starve"]), "seed": rng.randint(0, 1 << 30), "yield_p": rng.choice([0, 0.1, 0.5])}
        out.append(({"id": f"c09m-{i}", "exec": ex, "steps": steps, "max_rows": 30000}, nload, tmpl, isql))
    return out


def run(chk):
    thorough = chk.tier == "thorough"
    chk.rule = ("(1) generator weighted to scalar/EXISTS/IN/ANY/ALL/LATERAL subqueries correlated through filters, projections, aggregates "
                "(COUNT/SUM/MIN over possibly empty sets), placed in the select list, WHERE, under NOT, with NULL and duplicate outer values and "
                "inner sets empty for some outer rows; oracle = per-outer-row nested evaluation in vf/refsql.py. (2) metamorphic quadruples: the "
                "same inner query as WITH, WITH MATERIALIZED, CREATE TEMP VIEW and inlined derived table, referenced once or twice, must agree. "
                "(3) the documented MATERIALIZED + random() example must return true. distinct non-trivial = distinct (feature tags, database) "
                "compared in (1) + distinct metamorphic quadruples that agreed with a non-empty result")
    chk.assumptions = ["vf/refsql.py nested evaluation", "recorded deviations (two-valued IN/ANY/ALL, COUNT bug, LATERAL NULL correlation) are recognised by model switches tied to their triggers"]
    knowncases.run_known_cases(chk)
    verdicts = {}
    tags_hist = {}
    for verdict, q, sql, tags, st, case in qcheck.run_workload(chk, workload(chk), wall_s=3000 if thorough else 900):
        verdicts[verdict] = verdicts.get(verdict, 0) + 1
        if verdict in ("ok", "known"):
            chk.nontrivial((sorted(tags), case["id"].split("@")[0]))
            for t in tags:
                tags_hist[t] = tags_hist.get(t, 0) + 1
            if len(chk.samples) < 5 and ("correlated" in tags or "scalar_subquery" in tags):
                chk.sample({"sql": sql, "exec": case["exec"], "rows": st.get("count"), "tags": sorted(tags)})
    chk.extra["verdicts"] = verdicts
    chk.extra["feature_tags"] = dict(sorted(tags_hist.items()))
    # (2) metamorphic
    mc = metamorphic_cases(chk, 400 if thorough else 60)
    results, m = vrun.run_sharded([c for c, _, _, _ in mc], shards=16, wall_s=1200)
    agree = 0
    for (c, nload, tmpl, isql) in mc:
        res = results.get(c["id"])
        if res is None or "steps" not in res:
            if res is not None and "died" in res:
                chk.violation(outcome_signature(res), f"metamorphic case died: {json.dumps(res['died'])[:300]}", {"cases": [c]})
            else:
                chk.inconc("metamorphic case not run")
            continue
        steps = res["steps"]
        if any(st["outcome"] not in ("rows", "empty") for st in steps[:nload]):
            bad = next(st for st in steps[:nload] if st["outcome"] not in ("rows", "empty"))
            first = (bad.get("error") or "").split("\n")[0]
            if bad["outcome"] == "panic":
                if chk.violation(outcome_signature(bad), f"panic creating view: {bad.get('panic_msg')}\n{isql}", {"cases": [c]}):
                    pass
            elif any(mk in first for mk in qcheck.UNSUPPORTED_MARKERS):
                chk.count("metamorphic_unsupported")
            else:
                chk.violation({"kind": "unexpected-error", "message": qcheck.compare_msg(first)}, f"view creation failed: {first}\n{isql}", {"cases": [c]})
            continue
        outs = steps[nload:nload + 4]
        chk.evaluated()
        names = ["cte", "cte_mat", "view", "inline"]
        kinds = [st["outcome"] for st in outs]
        if any(k == "panic" for k in kinds):
            st = outs[kinds.index("panic")]
            chk.violation(outcome_signature(st), f"panic in form {names[kinds.index('panic')]}: {st.get('panic_msg')}\n{isql}", {"cases": [c]})
            continue
        if any(k in ("deadlock", "diverged") for k in kinds):
            i = next(i for i, k in enumerate(kinds) if k in ("deadlock", "diverged"))
            chk.violation({"kind": "outcome", "class": kinds[i], "deadlock_kind": outs[i].get("deadlock_kind"), "parked_ops": outs[i].get("parked_ops")}, f"{kinds[i]} in form {names[i]}\n{c['steps'][nload + i]['sql']}", {"cases": [c]})
            continue
        if len(set(kinds)) > 1:
            errs = {names[i]: (outs[i].get("error") or "").split("\n")[0][:120] for i in range(4) if kinds[i] == "error"}
            first = list(errs.values())[0] if errs else ""
            if chk.violation({"kind": "unexpected-error", "message": qcheck.compare_msg(first)}, f"forms disagree on outcome {dict(zip(names, kinds))}: {errs}\ninner: {isql}\nouter: {tmpl}", {"cases": [c]}):
                pass
            continue
        if kinds[0] != "rows":
            chk.count("metamorphic_all_error")
            continue
        ref = [compare.dec_row(r) for r in outs[3].get("rows", [])]
        ok_all = True
        for i in range(3):
            rows = [compare.dec_row(r) for r in outs[i].get("rows", [])]
            ok, why = compare.bag_equal(ref, rows)
            if not ok:
                ok_all = False
                chk.violation({"kind": "cte-view-inline-disagree", "form": names[i]}, f"form {names[i]} differs from the inlined query: {why}\ninner: {isql}\nouter: {tmpl}", {"cases": [c]})
                break
        if ok_all:
            agree += 1
            if ref:
                chk.nontrivial(("metamorphic", isql, tmpl))
    chk.extra["metamorphic_quadruples_agreeing"] = agree
    # (3) documented example
    res, _ = vrun.run_cases([{"id": "doc", "exec": {"kind": "det", "policy": "random", "seed": chk.seed, "partitions": 4},
                              "steps": [{"sql": "WITH c AS MATERIALIZED (SELECT random() * 100 AS a) SELECT c1.a = c2.a FROM c AS c1, c AS c2"}]}])
    st = res["doc"]["steps"][0] if "steps" in res.get("doc", {}) else {"outcome": "not_run"}
    chk.evaluated()
    if st["outcome"] == "rows" and st.get("rows") == [[True]]:
        chk.count("documented_materialized_random_example_true")
    elif st["outcome"] == "not_run":
        chk.inconc("documented example not run")
    else:
        chk.violation({"kind": "documented-example", "what": "materialized-random"}, f"docs/sql/query-syntax/with.md example returned {json.dumps(st)[:300]}", None)
