"""C16 — no query makes the engine's unsafe code touch memory it does not own.

Instrumented executions of the real engine: AddressSanitizer build (spatial/temporal errors), ThreadSanitizer build on the
production thread pool (data races in the lock-free phases), Miri (provenance / uninitialised / alignment / UB) on tiny cases,
valgrind memcheck on the plain build (uninitialised reads). The workloads are (a) a corpus written for the sizes the property
names and (b) samples of the workloads of the other checks (their generators are re-run with the driver switched to the
instrumented build; their own verdicts are discarded here — those checks judge them on the plain build).
A sanitizer / Miri / memcheck report, or a failed assert!/debug_assert!/unreachable! inside /repo/crates, refutes.
"""
import importlib, json, os, random, re, threading, time
from vf import run as vrun
from vf import pqwrite as pq
from vf.core import outcome_signature

LONG = {0: "", 11: "elevenbytes", 12: "twelve bytes", 13: "thirteenbytes", 40: "a forty byte string sharing the prefix..", 300: "x" * 300}


class Stub:
    """stands in for core.Check when another check's workload is re-run under an instrumented build"""
    def __init__(self, tier, seed):
        self.tier = tier
        self.rng = random.Random(seed)
        self.seed = seed
        self.rule = ""
        self.assumptions = []
        self.extra = {}
        self.samples = []
        self.counters = {}
        self.evaluations = 0
        self.prop = "C16-stub"
    def count(self, k, n=1): self.counters[k] = self.counters.get(k, 0) + n
    def evaluated(self, n=1): self.evaluations += n
    def nontrivial(self, key): pass
    def sample(self, obj, cap=8): pass
    def inconc(self, reason, n=1): pass
    def match_known(self, sig): return None
    def violation(self, signature, text, replay=None): return False
    def floor(self, ok, msg): pass


def text_of(n, i):
    base = LONG.get(n)
    if base is None:
        base = ("v%07d" % i) * (n // 8 + 1)
        return base[:n]
    return (base[:max(0, n - 3)] + ("%03d" % (i % 1000)))[:n] if n >= 3 else base


def own_cases(rng, thorough, native=False, tiny=False):
    """cases aimed at the sizes the property lists"""
    cases = []
    sizes = [0, 11, 12, 13, 40, 300] + ([4096, 100000] if not tiny else [])
    rows_opts = [0, 1, 5, 130] if tiny else [0, 1, 7, 300, 2500]
    n_cases = 6 if tiny else (160 if thorough else 40)
    for ci in range(n_cases):
        n = rng.choice(rows_opts)
        parts = rng.choice([1, 2] if tiny else [1, 2, 3, 8, 16])
        bs = rng.choice([1, 2, 4, 16, 2048])
        szs = [rng.choice(sizes) for _ in range(3)]
        big = any(s >= 4096 for s in szs)
        if big:
            n = min(n, 40)
        steps = [{"sql": f"SET partitions TO {parts}", "out": "count"}, {"sql": f"SET batch_size TO {bs}", "out": "count"},
                 {"sql": "CREATE TEMP TABLE l (k INT, g INT, s TEXT, t TEXT)", "out": "count"}, {"sql": "CREATE TEMP TABLE r (k INT, g INT, s TEXT)", "out": "count"}]
        for tname, cols in (("l", 4), ("r", 3)):
            for lo in range(0, n, 150):
                vals = []
                for i in range(lo, min(n, lo + 150)):
                    k = "NULL" if i % 11 == 10 else str(i % max(1, n // 3))          # many-to-many keys
                    s = "NULL" if i % 7 == 6 else "'" + text_of(szs[i % 3], i) + "'"
                    if cols == 4:
                        vals.append(f"({k}, {i % 5}, {s}, '{text_of(szs[(i + 1) % 3], i % 4)}')")
                    else:
                        vals.append(f"({k}, {i % 3}, {s})")
                steps.append({"sql": f"INSERT INTO {tname} VALUES " + ", ".join(vals), "out": "count"})
        qs = ["SELECT l.k, l.s, r.s FROM l JOIN r ON l.k = r.k",
              "SELECT l.k, l.s, r.s FROM l LEFT JOIN r ON l.k = r.k AND l.s = r.s",
              "SELECT l.s, r.s FROM l RIGHT JOIN r ON l.s = r.s",
              "SELECT count(*) FROM l WHERE EXISTS (SELECT 1 FROM r WHERE r.k = l.k)",
              "SELECT count(*) FROM l WHERE s NOT IN (SELECT s FROM r WHERE s IS NOT NULL)",
              "SELECT l.k, r.k FROM l JOIN r ON l.k < r.k WHERE l.g = 1",
              "SELECT s, t, count(*), min(s), max(t), sum(k), avg(k), string_agg(t, ',') FROM l GROUP BY s, t",
              "SELECT g, count(DISTINCT s), min(s), max(s), first(s) FROM l GROUP BY g",
              "SELECT DISTINCT s, t FROM l",
              "SELECT k, count(*), min(s) FROM l GROUP BY ROLLUP (k, g)" if not tiny else "SELECT k, count(*) FROM l GROUP BY k",
              "SELECT s, t, k FROM l ORDER BY s DESC NULLS FIRST, t, k",
              "SELECT s, k FROM l ORDER BY t, s LIMIT 7 OFFSET 2",
              "SELECT s || t, upper(s), reverse(t), substring(s, 2, 20), lpad(t, 20, s), replace(s, 'e', t), length(s), s LIKE '%byte%' FROM l",
              "SELECT s FROM l UNION ALL SELECT s FROM r",
              "SELECT * FROM l, r WHERE l.g = 0 AND r.g = 0" if n <= 300 else "SELECT count(*) FROM l, r WHERE l.g = 0 AND r.g = 0",
              "WITH c AS MATERIALIZED (SELECT s, k FROM l) SELECT a.s, b.s FROM c a JOIN c b ON a.k = b.k",
              "CREATE TEMP TABLE cp AS SELECT * FROM l", "SELECT s, t FROM cp ORDER BY k, s, t",
              "INSERT INTO cp SELECT * FROM cp", "SELECT count(*), min(s), max(s) FROM cp",
              "SELECT [s, t], [k, g] FROM l", "SELECT s::BLOB, CAST(k AS TEXT), CAST(s AS TEXT) || 'x' FROM l",
              "SELECT CASE WHEN k % 2 = 0 THEN s ELSE t END, coalesce(s, t) FROM l WHERE k % 3 = 1"]
        for q in (qs if not tiny else rng.sample(qs, 5)):
            steps.append({"sql": q, "out": "rows" if not big else "count"})
        if native:
            ex = {"kind": "native", "threads": rng.choice([2, 4, 8, 16]), "timeout_s": 600, "pause_p": rng.choice([0, 0.02])}
        else:
            ex = {"kind": "det", "policy": rng.choice(["random", "lifo", "fifo", "pct"]), "seed": rng.randint(0, 1 << 30), "yield_p": rng.choice([0, 0.1]), "partitions": parts, "step_budget": 50_000_000}
        cases.append({"id": f"c16-own-{'n' if native else 'd'}{'t' if tiny else ''}-{ci}", "exec": ex, "steps": steps, "max_rows": 20})
    return cases


def file_cases(rng, d, thorough, tiny=False):
    """Parquet / CSV reads with adversarial chunking (the readers are never reached by the repository's Miri job)"""
    cases = []
    n = 2 if tiny else (40 if thorough else 10)
    for fi in range(n):
        cols = [pq.Col("i", "INT64", None, optional=True, encoding=rng.choice(["PLAIN", "DICT", "DELTA_BINARY_PACKED"])),
                pq.Col("s", "BYTE_ARRAY", "STRING", optional=True, encoding=rng.choice(["PLAIN", "DICT", "DELTA_LENGTH_BYTE_ARRAY", "DELTA_BYTE_ARRAY"])),
                pq.Col("f", "DOUBLE", None, optional=False, encoding="PLAIN")]
        nrows = rng.choice([1, 20, 130]) if tiny else rng.choice([1, 300, 5000])
        rgs = []
        left = nrows
        while left > 0:
            k = min(left, rng.choice([1, 7, 100, 3000]))
            rgs.append([(None if rng.random() < 0.2 else rng.randint(-10**12, 10**12), None if rng.random() < 0.2 else text_of(rng.choice([0, 11, 12, 13, 40, 300]), rng.randint(0, 999)), rng.random()) for _ in range(k)])
            left -= k
        path = os.path.join(d, f"f{fi}.parquet")
        try:
            pq.write_file(path, cols, rgs, page_version=rng.choice([1, 2]), codec=rng.choice(["UNCOMPRESSED", "SNAPPY", "GZIP"] if tiny else ["UNCOMPRESSED", "SNAPPY", "GZIP", "ZSTD"]))
        except Exception:
            continue
        cpath = os.path.join(d, f"f{fi}.csv")
        with open(cpath, "w", newline="") as f:
            f.write("i,s,f\r\n" if fi % 2 else "i,s,f\n")
            for rg in rgs:
                for (i, s_, fl) in rg:
                    f.write(f"{'' if i is None else i},\"{'' if s_ is None else s_}\",{fl}" + ("\r\n" if fi % 2 else "\n"))
        steps = [{"sql": f"SET batch_size TO {rng.choice([1, 3, 64, 2048])}", "out": "count"}, {"sql": f"SET partitions TO {rng.choice([1, 2, 4])}", "out": "count"}]
        for chaos in (["r1,p50,s1"] if tiny else ["r1,s3", "r7,p30,s1", "R,s5,p10", "r4096"]):
            steps.append({"sql": f"SELECT i, s, f FROM read_parquet('chaos:{chaos}:{path}')"})
            steps.append({"sql": f"SELECT s, count(*), sum(i) FROM read_parquet('chaos:{chaos}:{path}') WHERE i > 0 GROUP BY s"})
            steps.append({"sql": f"SELECT * FROM read_csv('chaos:{chaos}:{cpath}') ORDER BY 1, 2 LIMIT 50"})
        cases.append({"id": f"c16-file-{'t' if tiny else ''}{fi}", "exec": {"kind": "det", "policy": "random", "seed": rng.randint(0, 1 << 30), "partitions": 2, "step_budget": 50_000_000}, "steps": steps, "max_rows": 10})
    return cases


ASSERT_RE = re.compile(r"^(assertion |internal error: entered unreachable code|unreachable|not (yet )?implemented|explicit panic)", re.I)


class Observer:
    def __init__(self, chk):
        self.chk = chk
        self.lock = threading.Lock()
        self.stats = {}
        self.ops = {}
        self.seen_reports = set()

    def __call__(self, cases, results, reports, variant):
        chk = self.chk
        with self.lock:
            st = self.stats.setdefault(variant, {"cases": 0, "statements": 0, "died": 0, "not_run": 0, "reports": 0, "threads": set()})
            byid = {c["id"]: c for c in cases}
            for rep in reports:
                key = (rep["tool"], rep["kind"], tuple(rep["frames"][:2]))
                st["reports"] += 1
                if key in self.seen_reports:
                    continue
                self.seen_reports.add(key)
                if not rep["frames"]:
                    # no frame of the engine (or of the driver) anywhere in the report: the tool objects to a dependency's own
                    # internals (e.g. crossbeam-epoch under Miri's experimental Stacked Borrows model), which this property does
                    # not cover; shown, not judged
                    chk.inconc(f"{variant}: {rep['tool']} report without any engine frame ({rep['kind'][:80]})")
                    continue
                c = byid.get(rep.get("case"))
                chk.violation({"kind": "sanitizer-report", "tool": rep["tool"], "bug": rep["kind"], "frames": rep["frames"][:2]},
                              f"[{variant}] {rep['tool']}: {rep['kind']} at {rep['frames'][:3]}\n{rep['text'][:1500]}", {"cases": [c] if c else [], "variant": variant})
            for cid, r in results.items():
                if "not_run" in r or "fatal" in r:
                    st["not_run"] += 1
                    continue
                st["cases"] += 1
                c = byid.get(cid)
                if c and c.get("exec", {}).get("kind") == "native":
                    st["threads"].add(c["exec"].get("threads"))
                if "died" in r:
                    st["died"] += 1
                    d = r["died"]
                    if d.get("sanitizer"):
                        continue          # already reported above
                    sig = outcome_signature(r)
                    hook = d.get("panic_hook")
                    if hook and ASSERT_RE.search(hook.get("msg", "")) and "/repo/crates" in (hook.get("loc") or ""):
                        chk.violation(sig, f"[{variant}] assertion in a worker thread killed the process: {hook.get('msg')} @ {hook.get('loc')}", {"cases": [c] if c else [], "variant": variant})
                    elif sig.get("class") in ("watchdog", "cpu-limit", "alloc-abort", "stack-overflow"):
                        chk.inconc(f"{variant}: process {sig.get('class')} (not a memory-safety verdict)")
                    elif variant in ("asan", "tsan", "miri", "memcheck") and sig.get("class") == "died" and not hook:
                        # an instrumented process that dies without a report and without a panic: the tool may have killed it
                        chk.violation({"kind": "instrumented-process-died", "variant": variant, "signal": d.get("signal"), "exit": d.get("exit")},
                                      f"[{variant}] process died without a report: {json.dumps({k: str(v)[-400:] for k, v in d.items()})}", {"cases": [c] if c else [], "variant": variant})
                    continue
                for k, v in (r.get("op_counts") or {}).items():
                    op = k.split("/")[0]
                    self.ops.setdefault(variant, {})
                    self.ops[variant][op] = self.ops[variant].get(op, 0) + v
                for si, s in enumerate(r.get("steps", [])):
                    if s.get("outcome") == "skipped":
                        break
                    st["statements"] += 1
                    chk.evaluated()
                    if s.get("outcome") == "panic":
                        msg = s.get("panic_msg") or ""
                        loc = s.get("panic_loc") or ""
                        if ASSERT_RE.search(msg) and "/repo/crates" in loc and not msg.lower().startswith("not"):
                            sql = c["steps"][si]["sql"] if c and si < len(c["steps"]) else "?"
                            chk.violation(outcome_signature(s), f"[{variant}] internal assertion failed: {msg[:200]} @ {loc}\n  {sql[:300]}", {"cases": [c] if c else [], "variant": variant, "step": si})
                    elif s.get("outcome") in ("rows", "empty"):
                        chk.nontrivial((variant, cid, si))


def canary_fires(variant, wrapper):
    """run the driver's deliberate defect under the tool and require the report parser to see the tool's report"""
    import subprocess
    kind, tool = {"asan": ("oob", "asan"), "tsan": ("race", "tsan"), "memcheck": ("uninit", "memcheck"), "miri": ("oob", "miri")}[variant]
    env = dict(os.environ)
    env.update(vrun.SANITIZER_ENV.get(variant, {}))
    env["RUST_BACKTRACE"] = "0"
    if variant == "miri":
        cmd, cwd = ["cargo", "+nightly", "miri", "run", "-q", "--", "canary", kind], vrun.HARNESS
        env["CARGO_TARGET_DIR"] = os.path.join(vrun.TARGET, "miri")
        env["CARGO_NET_OFFLINE"] = "true"
    else:
        binary = os.path.join(vrun.TARGET, vrun.VARIANTS["plain" if variant == "memcheck" else variant][2])
        cmd, cwd = (wrapper or []) + [binary, "canary", kind], None
    try:
        p = subprocess.run(cmd, cwd=cwd, env=env, stdout=subprocess.PIPE, stderr=subprocess.STDOUT, text=True, timeout=1800)
    except subprocess.TimeoutExpired:
        return False
    return any(r["tool"] == tool for r in vrun.sanitizer_reports(p.stdout or "", "canary"))


def run(chk):
    thorough = chk.tier == "thorough"
    rng = chk.rng
    chk.rule = ("instrumented executions of the real engine. asan build (debug assertions on): own corpus (variable-length values of 0/11/12/13/40/300/4096/100000 bytes, 0/1/7/300/2500 rows, "
                "batch_size 1-2048, partitions 1-16, many-to-many hash/nested-loop joins, grouped/distinct/rollup aggregation, multi-key sorts, CTAS/self-insert, lists, string functions) on the "
                "deterministic executor (4 schedule policies) and the production thread pool, Parquet (4 encodings x 4 codecs) and CSV reads under 1-byte / random / Pending read chunking, and "
                "samples of the workloads of C04 C05 C06 C07 C08 C10 C13 C14 C17 C20 re-run on the asan build; tsan build: own corpus on the thread pool with 2-16 threads and injected pauses, every case "
                "repeated; miri (thorough tier): tiny cases of the same corpus incl. the Parquet/CSV readers; memcheck: own corpus on the plain build. A report of any tool or a failed assertion inside /repo/crates "
                "refutes. Before a build is used, a deliberate defect in the driver (`vdrive canary`: heap overflow / data race / uninitialised read) must be reported by the tool and recognised by the report parser. distinct non-trivial = distinct (build, case, statement) that completed under instrumentation")
    chk.assumptions = ["absence of reports covers only the executions produced; red-zone tools miss intra-object and far out-of-bounds accesses",
                       "LeakSanitizer is off (leaks are not part of the property); Miri runs with permissive provenance (int-to-pointer casts in the `sdd` dependency)",
                       "Miri cannot cross the zstd-sys FFI: ZSTD-compressed files are exercised under asan/memcheck only"]
    obs = Observer(chk)
    d = vrun.tmpdir("c16")
    variants_built = {}
    canaries = {}
    def use(variant, **ov):
        if variant not in ("memcheck",) and variant not in variants_built:
            t0 = time.time()
            try:
                vrun.build(variant)
                variants_built[variant] = time.time() - t0
            except vrun.BuildFailed as e:
                chk.inconc(f"{variant} build failed: {str(e)[-300:]}")
                variants_built[variant] = None
        vrun.OVERRIDE.update({"variant": "plain" if variant == "memcheck" else variant, "max_cases": None, "observer": obs, "wrapper": None, "env": None, "salt": str(chk.seed), "wall_s": None})
        vrun.OVERRIDE.update(ov)
        if variants_built.get(variant, True) is None:
            return False
        if variant not in canaries:
            canaries[variant] = canary_fires(variant, ov.get("wrapper"))
            chk.extra.setdefault("canaries", {})[variant] = canaries[variant]
            if not canaries[variant]:
                chk.inconc(f"{variant}: the deliberate defect of `vdrive canary` was not reported - instrumentation not functioning, executions under it are not counted")
        return canaries[variant]
    try:
        # ---------------- asan
        if use("asan"):
            cases = own_cases(rng, thorough) + own_cases(rng, thorough, native=True)[: (60 if thorough else 12)] + file_cases(rng, d, thorough)
            vrun.run_sharded(cases, shards=16, wall_s=3000 if thorough else 1200)
            for modname, cap in (("c04", 40), ("c06", 30), ("c07", 15), ("c08", 30), ("c10", 30), ("c14", 8), ("c17", 20), ("c20", 15), ("c13", 15), ("c05", 10)):
                use("asan", max_cases=cap * (6 if thorough else 1), wall_s=1800 if thorough else 900)
                try:
                    mod = importlib.import_module(f"vf.props.{modname}")
                    mod.run(Stub("quick", chk.seed))
                    chk.count(f"asan: workload of {modname.upper()} sampled")
                except Exception as e:      # the other module's bookkeeping may trip over sampled-out cases; its verdicts are not used here
                    chk.count(f"asan: workload of {modname.upper()} ended early ({type(e).__name__})")
        # ---------------- tsan (production executor only: the deterministic executor is single-threaded)
        if use("tsan"):
            reps = 6 if thorough else 2
            cases = []
            for rep in range(reps):
                for c in own_cases(random.Random(chk.seed * 1000 + rep), thorough, native=True)[: (80 if thorough else 14)]:
                    c = dict(c)
                    c["id"] += f"-r{rep}"
                    cases.append(c)
            vrun.run_sharded(cases, shards=8, wall_s=3000 if thorough else 1200)
        # ---------------- memcheck on the plain build
        if use("memcheck", wrapper=["valgrind", "--tool=memcheck", "--error-exitcode=0", "--quiet", "--num-callers=12", "--undef-value-errors=yes", "--leak-check=no"]):
            vrun.build("plain")
            cases = own_cases(random.Random(chk.seed + 7), thorough, tiny=not thorough)[: (40 if thorough else 6)] + file_cases(random.Random(chk.seed + 8), d, thorough, tiny=True)
            vrun.run_sharded(cases, shards=16, wall_s=3000 if thorough else 1200)
        # ---------------- miri (thorough tier only: building the interpreter's copy of the dependency tree alone takes ~10 minutes)
        if thorough and use("miri"):
            cases = own_cases(random.Random(chk.seed + 9), thorough, tiny=True)[: (16 if thorough else 4)] + file_cases(random.Random(chk.seed + 10), d, thorough, tiny=True)[: (6 if thorough else 2)]
            vrun.run_sharded(cases, shards=16, wall_s=6000 if thorough else 2400)
            # the production thread pool under Miri: rayon's crossbeam-epoch is rejected by the Stacked Borrows model on its own,
            # so these cases run under Tree Borrows (data-race detection and the other UB checks are unaffected)
            use("miri", env={"MIRIFLAGS": vrun.SANITIZER_ENV["miri"]["MIRIFLAGS"] + " -Zmiri-tree-borrows"})
            vrun.run_sharded(own_cases(random.Random(chk.seed + 11), thorough, tiny=True, native=True)[:4], shards=4, wall_s=4000)
    finally:
        vrun.OVERRIDE.update({"variant": None, "max_cases": None, "observer": None, "wrapper": None, "env": None, "wall_s": None})
    for v, st in obs.stats.items():
        st = dict(st)
        st["threads"] = sorted(x for x in st["threads"] if x)
        chk.extra[f"variant_{v}"] = st
        chk.extra[f"operators_{v}"] = obs.ops.get(v, {})
        chk.floor(st["cases"] >= 2, f"only {st['cases']} cases completed under {v}")
    chk.extra["build_seconds"] = variants_built
    for v in ("asan", "tsan", "plain") + (("miri",) if thorough else ()):
        if v not in obs.stats:
            chk.inconc(f"no executions observed under {v}")
    chk.sample({"variants": {v: {k: (sorted(x) if isinstance(x, set) else x) for k, x in st.items()} for v, st in obs.stats.items()}})
