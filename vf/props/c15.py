"""C15 — every statement text yields a result or an error in bounded time; the session survives with its state intact.

Oracle: outcome class of each statement (rows | error  vs  panic | process death | deadlock | diverged) observed at the
client boundary, plus a state probe (catalog listing, table contents digest, all settings, SELECT 1) after every
statement: after a *failed* statement the probe must equal the probe before it.
"""
import json, os, re, glob
from vf import run as vrun
from vf import qcheck, sqlgen, knowncases
from vf.core import outcome_signature
from vf.props import c18 as typesweep

SETTINGS = ["partitions", "batch_size", "enable_optimizer", "enable_hash_joins", "application_name", "verify_optimized_plan"]
PROBE = ([{"sql": "SELECT 1"},
          {"sql": "SELECT schema_name, table_name FROM list_tables() WHERE database_name = 'temp' ORDER BY 1, 2"},
          {"sql": "SELECT count(*), sum(a), min(b), max(b) FROM base0"}]
         + [{"sql": f"SHOW {k}"} for k in SETTINGS])
SETUP = [{"sql": "CREATE TEMP TABLE base0 (a INT, b TEXT)", "out": "count"},
         {"sql": "INSERT INTO base0 VALUES (1, 'x'), (2, 'longer than twelve bytes'), (3, NULL), (NULL, 'z')", "out": "count"},
         {"sql": "CREATE TEMP TABLE nums (i INT, d DOUBLE, s TEXT)", "out": "count"},
         {"sql": "INSERT INTO nums VALUES (1, 0.5, '1'), (2, 1.5, '2'), (3, 2.5, 'oops'), (4, NULL, NULL)", "out": "count"},
         {"sql": "CREATE TEMP VIEW v0 AS SELECT a FROM base0 WHERE a > 1", "out": "count"},
         {"sql": "SET application_name TO 'c15'", "out": "count"}]

KEYWORDS = ["SELECT", "FROM", "WHERE", "GROUP", "BY", "ORDER", "HAVING", "LIMIT", "OFFSET", "JOIN", "LEFT", "RIGHT", "FULL", "OUTER", "INNER", "CROSS", "ON", "USING", "AS",
            "AND", "OR", "NOT", "NULL", "IS", "IN", "EXISTS", "BETWEEN", "LIKE", "CASE", "WHEN", "THEN", "ELSE", "END", "UNION", "ALL", "DISTINCT", "WITH", "RECURSIVE",
            "MATERIALIZED", "VALUES", "INSERT", "INTO", "CREATE", "TEMP", "TABLE", "VIEW", "DROP", "SET", "SHOW", "RESET", "DESCRIBE", "EXPLAIN", "CAST", "INTERVAL", "DATE",
            "TRUE", "FALSE", "ASC", "DESC", "NULLS", "FIRST", "LAST", "LATERAL", "ANY", "SOME", "ROLLUP", "CUBE", "GROUPING", "SETS", "FILTER", "OVER", "PARTITION", "WINDOW",
            "COPY", "TO", "ATTACH", "DETACH", "DISCARD", "ANALYZE", "VERBOSE", "SCHEMA", "DATABASE", "IF", "REPLACE", "TIMESTAMP", "DECIMAL", "ESCAPE", "COLLATE", "ARRAY", "STRUCT"]
LITERALS = ["0", "1", "-1", "2147483647", "2147483648", "9223372036854775807", "9223372036854775808", "18446744073709551616", "0.0", "1.5", ".5", "5.", "1e400", "0x10",
            "''", "'a'", "'it''s'", "'\\'", "'%'", "NULL", "TRUE", "*", "$1", "?", "[]", "[1]", "{}", "()", "a", "b", "base0", "nums", "v0", "\"a\"", "\"\"", "`a`", "--", "/*", "*/",
            ";", ",", ".", "..", "::", ":", "||", "->", "=>", "<=>", "<>", "!=", "!", "@", "#", "~", "^", "&", "|", "<<", ">>", "%", "\\", "\x00", "﻿", "​", "é", "😀"]
TOKEN_RE = re.compile(r"\s+|'(?:[^'])*'|\"[^\"]*\"|[A-Za-z_][A-Za-z_0-9]*|\d+\.?\d*|::|<=|>=|<>|!=|\|\||.", re.S)


def tokens(sql):
    return [t for t in TOKEN_RE.findall(sql)]


def mutate(rng, sql, corpus):
    toks = tokens(sql)
    if not toks:
        return sql
    for _ in range(rng.choice([1, 1, 1, 2, 3])):
        k = rng.random()
        i = rng.randrange(len(toks))
        if k < 0.2:
            del toks[i]
        elif k < 0.32:
            toks.insert(i, toks[i])
        elif k < 0.44:
            j = rng.randrange(len(toks))
            toks[i], toks[j] = toks[j], toks[i]
        elif k < 0.56:
            other = tokens(rng.choice(corpus))
            a = rng.randrange(len(other) + 1)
            b = min(len(other), a + rng.randint(1, 8))
            toks[i:i] = other[a:b]
        elif k < 0.72:
            toks[i] = rng.choice(KEYWORDS)
        elif k < 0.9:
            toks[i] = rng.choice(LITERALS)
        elif k < 0.95:
            toks = toks[:i]
        else:
            toks[i] = toks[i] * rng.choice([2, 50])
        if not toks:
            break
    return "".join(toks)


def slt_corpus(limit_len=600):
    out = []
    for f in sorted(glob.glob("/repo/slt/standard/**/*.slt", recursive=True)):
        try:
            lines = open(f, errors="replace").read().split("\n")
        except OSError:
            continue
        i = 0
        while i < len(lines):
            ln = lines[i]
            if ln.startswith("statement ") or ln.startswith("query "):
                i += 1
                buf = []
                while i < len(lines) and lines[i].strip() != "" and lines[i].strip() != "----":
                    buf.append(lines[i])
                    i += 1
                sql = "\n".join(buf).strip().rstrip(";")
                if sql and len(sql) <= limit_len:
                    out.append(sql)
            else:
                i += 1
    return out


def risky(sql):
    """statements whose legitimate execution may be long / large / touch the file system: excluded from the corpus (not from mutation results)"""
    u = sql.upper()
    if "COPY" in u or "ATTACH" in u or "HTTP" in u or "S3:" in u or "GS:" in u:
        return True
    if re.search(r"\d{6,}", sql) and ("generate_series" in sql or "repeat" in sql.lower() or "pad" in sql.lower()):
        return True
    return False


def nest(kind, d):
    if kind == "paren":
        return "SELECT " + "(" * d + "1" + ")" * d
    if kind == "unary":
        return "SELECT " + "- " * d + "1"
    if kind == "not":
        return "SELECT " + "NOT " * d + "TRUE"
    if kind == "subquery":
        return "SELECT * FROM " + "(SELECT * FROM " * d + "base0" + ") s" * d
    if kind == "scalar_subquery":
        return "SELECT " + "(SELECT " * d + "1" + ")" * d
    if kind == "case":
        return "SELECT " + "CASE WHEN TRUE THEN " * d + "1" + " END" * d
    if kind == "fn":
        return "SELECT " + "abs(" * d + "'1'::DOUBLE" + ")" * d
    if kind == "list":
        return "SELECT " + "[" * d + "1" + "]" * d
    if kind == "cast":
        return "SELECT 1" + "::INT" * d
    if kind == "add_chain":
        return "SELECT " + " + ".join(["1"] * d)
    if kind == "and_chain":
        return "SELECT " + " AND ".join(["TRUE"] * d)
    if kind == "or_eq_chain":
        return "SELECT count(*) FROM base0 WHERE " + " OR ".join(f"a = {i}" for i in range(d))
    if kind == "in_list":
        return "SELECT count(*) FROM base0 WHERE a IN (" + ", ".join(str(i) for i in range(d)) + ")"
    if kind == "columns":
        return "SELECT " + ", ".join(f"{i} AS c{i}" for i in range(d))
    if kind == "values_rows":
        return "SELECT count(*) FROM (VALUES " + ", ".join(f"({i})" for i in range(d)) + ") v(x)"
    if kind == "literal":
        return "SELECT length('" + "x" * d + "')"
    if kind == "ident":
        return "SELECT 1 AS " + "x" * d
    if kind == "union_chain":
        return " UNION ALL ".join(["SELECT 1"] * d)
    if kind == "join_chain":
        return "SELECT count(*) FROM base0 t0 " + " ".join(f"JOIN base0 t{i} ON t{i}.a = t0.a" for i in range(1, d))
    if kind == "cte_chain":
        return "WITH " + ", ".join(f"c{i} AS (SELECT * FROM {'base0' if i == 0 else 'c' + str(i - 1)})" for i in range(d)) + f" SELECT count(*) FROM c{d - 1}"
    if kind == "concat_chain":
        return "SELECT " + " || ".join(["'a'"] * d)
    if kind == "comment":
        return "SELECT 1 " + "/* " * d + " */" * d
    if kind == "semicolons":
        return ";" * d
    raise KeyError(kind)


NEST_KINDS = ["paren", "unary", "not", "subquery", "scalar_subquery", "case", "fn", "list", "cast", "add_chain", "and_chain", "or_eq_chain", "in_list", "columns", "values_rows",
              "literal", "ident", "union_chain", "join_chain", "cte_chain", "concat_chain", "comment", "semicolons"]
# depth limits above which only resource use (not an engine decision) is being measured
DEPTHS = {"join_chain": [2, 5, 8], "subquery": [10, 100, 400], "scalar_subquery": [10, 50, 100], "cte_chain": [10, 100, 400], "union_chain": [10, 100, 1000],
          "literal": [1000, 100000, 1000000], "ident": [100, 10000, 100000], "columns": [10, 1000, 10000], "values_rows": [10, 1000, 10000], "in_list": [10, 1000, 10000],
          "or_eq_chain": [10, 300, 1000]}


def run(chk):
    thorough = chk.tier == "thorough"
    rng = chk.rng
    chk.rule = ("four streams of statement texts, each statement followed in the same session by a state probe (SELECT 1, temp catalog listing, digest of a base table, "
                "SHOW of 5 settings): (1) random strings over SQL fragments, control characters, NUL, BOM, multi-byte characters; (2) 1-3 token-level mutations "
                "(delete, duplicate, swap, splice from another statement, replace by keyword/literal, truncate, repeat) of valid statements from three corpora: the "
                "statements of /repo/slt/standard/**/*.slt (texts only), the C01 query generator, DDL/DML/SET statements; (3) structure stress, one process per "
                "statement: 23 nesting/chain kinds x depths 10..10^4 (10^6 for literals); (4) well-formed statements failing at run time on the k-th row (casts, "
                "planner-time constant folding and worker-time), on the deterministic executor and on the production thread pool (where a worker panic "
                "kills the process). Outcome classes rows|error are fine; panic, process death, deadlock, divergence refute; after an error the probe must "
                "equal the previous probe. distinct non-trivial = distinct (stream, mutation/kind, outcome class, first error line class)")
    chk.assumptions = ["statement texts reach the engine as Rust &str, so invalid UTF-8 cannot be submitted through this API",
                       "an allocation failure under the harness' 8 GiB address-space cap for a statement that legitimately asks for a huge value is resource exhaustion, counted as inconclusive; "
                       "a failed allocation of more than 2^40 bytes is a size computed from garbage and refutes"]
    knowncases.run_known_cases(chk)
    corpus = [s for s in slt_corpus() if not risky(s)]
    chk.extra["slt_statements"] = len(corpus)
    chk.floor(len(corpus) >= 1000, f"only {len(corpus)} corpus statements found under /repo/slt/standard")
    # generator statements
    db = sqlgen.gen_database(rng, max_rows=20)
    gen_load = sqlgen.load_steps(db)
    gen_q = []
    for _ in range(300):
        g = sqlgen.Gen(rng, db, max_depth=3)
        try:
            gen_q.append(qcheck.qsql(g.query(rng.choice([1, 2, 3]), top=True)))
        except (IndexError, ValueError, KeyError):
            pass
    ddl = ["CREATE TEMP TABLE t1 (a INT, b TEXT)", "DROP TABLE t1", "CREATE SCHEMA s1", "DROP SCHEMA s1", "INSERT INTO base0 VALUES (5, 'q')", "INSERT INTO nums SELECT a, a, b FROM base0",
           "CREATE TEMP TABLE t2 AS SELECT * FROM base0", "CREATE TEMP VIEW v1 AS SELECT 1 AS x", "SET partitions TO 3", "RESET partitions", "RESET ALL", "SET batch_size TO 64",
           "SHOW partitions", "DESCRIBE base0", "EXPLAIN SELECT * FROM base0", "EXPLAIN VERBOSE SELECT * FROM v0", "DISCARD ALL", "SELECT * FROM list_tables()",
           "SELECT * FROM read_csv('/nonexistent.csv')", "SELECT * FROM read_parquet('/nonexistent.parquet')", "SELECT * FROM glob('/verif/nonexistent/*')"]
    failing = ["SELECT CAST(s AS INT) FROM nums", "SELECT i / (i - 3) FROM nums WHERE i <> 3", "SELECT sum(CAST(s AS INT)) FROM nums GROUP BY i % 2",
               "SELECT * FROM nums a JOIN nums b ON CAST(a.s AS INT) = b.i", "SELECT CAST(s AS DATE) FROM nums ORDER BY 1", "SELECT CAST('x' AS INT)", "SELECT CAST('x' AS INT) FROM nums",
               "INSERT INTO base0 SELECT CAST(s AS INT), s FROM nums", "CREATE TEMP TABLE bad AS SELECT CAST(s AS INT) AS x FROM nums", "SELECT * FROM nums WHERE CAST(s AS INT) > 0 LIMIT 1",
               "SELECT (SELECT CAST(s AS INT) FROM nums n2 WHERE n2.i = n1.i) FROM nums n1", "SELECT CAST(s AS INT) FROM nums UNION ALL SELECT i FROM nums",
               "SELECT sqrt(CAST(s AS DOUBLE)) FROM nums", "SELECT regexp_replace(s, '(', 'x') FROM nums", "SELECT s LIKE '\\' FROM nums", "SELECT repeat(s, -1) FROM nums",
               "SELECT substring(s, -5, 2) FROM nums", "SELECT date_part('nosuch', DATE '2020-01-01')", "SELECT date_trunc('nosuch', DATE '2020-01-01') FROM nums",
               "SELECT generate_series FROM generate_series(1, 10, 0)", "SELECT * FROM generate_series(1, 0)", "SELECT * FROM unnest(1)", "SELECT nosuch(1)", "SELECT a FROM nosuch",
               "SELECT nosuch FROM base0", "SELECT a FROM base0 GROUP BY b", "SELECT sum(sum(a)) FROM base0", "SELECT a FROM base0 ORDER BY 99", "SELECT * FROM base0 LIMIT -1",
               "SELECT * FROM base0 LIMIT 'x'", "SELECT 1 +", "SELECT * FROM base0 WHERE", "SELECT CASE END", "SELECT [1, 'a']", "SELECT 1 UNION ALL SELECT 1, 2", "SELECT '2020-13-45'::DATE",
               "SELECT INTERVAL 'nonsense'", "SELECT 1::DECIMAL(100, 200)", "SELECT 1::DECIMAL(5, 10)", "SELECT '1'::DECIMAL(38, 38)", "SELECT 1e999", "VALUES ()", "VALUES (1), (1, 2)", "WITH c AS (SELECT 1) SELECT * FROM d",
               "WITH RECURSIVE c AS (SELECT 1 UNION ALL SELECT * FROM c) SELECT * FROM c LIMIT 3", "SELECT * FROM base0 t1 JOIN base0 t2 USING (nosuch)", "SELECT * FROM base0 NATURAL JOIN nums",
               "SELECT * FROM v0 WHERE a = 'x'", "INSERT INTO v0 VALUES (1)", "INSERT INTO base0 VALUES (1)", "INSERT INTO base0 VALUES ('x', 1)", "DROP TABLE v0", "DROP VIEW base0", "CREATE TEMP TABLE base0 (a INT)",
               "SET nosuch TO 1", "SET partitions TO 'x'", "SET partitions TO -1", "SET batch_size TO 99999999999", "RESET nosuch", "SHOW nosuch", "DESCRIBE nosuch", "EXPLAIN nosuch", "SELECT $1", "SELECT ?"]
    # statements whose optimized plan binds (the failing part is removed by a constant-false filter) while the unoptimized
    # plan, bound as well when verify_optimized_plan is on, fails
    failing += ["SELECT * FROM (SELECT 1 INTERSECT SELECT 1) WHERE false", "SELECT * FROM (SELECT unnest([1, 2])) WHERE 1 = 0"]
    failing += [f"SELECT * FROM ({f}) zz WHERE 1 = 0" for f in list(failing) if f.startswith("SELECT") and "zz" not in f]
    all_valid = corpus + gen_q + ddl
    streams = []     # (stream, kind, sql)
    n_mut = 60000 if thorough else 3600
    for _ in range(n_mut):
        src = rng.random()
        base = rng.choice(corpus) if src < 0.55 else rng.choice(gen_q) if (src < 0.8 and gen_q) else rng.choice(ddl + failing)
        streams.append(("mutation", "slt" if src < 0.55 else "gen" if src < 0.8 else "ddl", mutate(rng, base, all_valid)))
    for _ in range(8000 if thorough else 600):
        n = rng.choice([1, 3, 8, 30, 200])
        frags = KEYWORDS + LITERALS + ["(", ")", " ", " ", "\n", "\t", "\r", "\x01", "\x7f", "\u0085", " ", "𝔘", "́", "0", "9", "e", "E", "+", "-"]
        streams.append(("random", f"len{n}", "".join(rng.choice(frags) + rng.choice(["", " "]) for _ in range(n))))
    for s in failing + ddl:
        streams.append(("failing", "listed", s))
    rng.shuffle(streams)
    # ---- sessions of ~60 hostile statements each
    per = 60
    cases = []
    meta = {}
    for i in range(0, len(streams), per):
        chunk = streams[i:i + per]
        steps = list(SETUP) + [{"sql": s, "out": "count"} for s in gen_load] + list(PROBE)
        spec = [("setup", None)] * (len(SETUP) + len(gen_load)) + [("probe", -1)] * len(PROBE)
        for j, (stream, kind, sql) in enumerate(chunk):
            steps.append({"sql": sql, "out": "count"})
            spec.append(("stmt", i + j))
            steps += PROBE
            spec += [("probe", i + j)] * len(PROBE)
        if (i // per) % 2 == 1:
            # every other session runs with plan verification on (each query is bound a second time without the optimizer)
            k0 = len(SETUP) + len(gen_load)
            steps.insert(k0, {"sql": "SET verify_optimized_plan TO true", "out": "count"})
            spec.insert(k0, ("setup", None))
        native = (i // per) % 6 == 5
        ex = ({"kind": "native", "threads": 4, "timeout_s": 120} if native else
              {"kind": "det", "policy": "random", "seed": rng.randint(0, 1 << 30), "partitions": rng.choice([1, 2, 4]), "step_budget": 2_000_000})
        c = {"id": f"c15-{i // per}", "exec": ex, "steps": steps, "max_rows": 50, "journal_steps": True}
        cases.append(c)
        meta[c["id"]] = spec
    chk.extra["sessions"] = len(cases)
    judged = set()
    pending = cases
    rounds = 0
    while pending and rounds < 10:
        rounds += 1
        results, _ = vrun.run_sharded(pending, shards=16, wall_s=3000 if thorough else 900, cpu_s=600)
        nxt = []
        for c in pending:
            r = results.get(c["id"])
            spec = meta[c["id"]]
            if r is None or "not_run" in r or "fatal" in r:
                chk.inconc("session not run")
                continue
            if "died" in r:
                ds = r["died"].get("step")
                if ds is None or ds >= len(spec) or spec[ds][1] is None:
                    chk.inconc("process death in a session could not be attributed to a statement")
                    continue
                k = spec[ds][1]
                if spec[ds][0] == "stmt" and k not in judged:
                    judged.add(k)
                    judge_death(chk, r, streams[k], {"id": "r", "exec": c["exec"], "steps": list(SETUP) + [{"sql": streams[k][2]}] + list(PROBE)})
                elif spec[ds][0] != "stmt":
                    chk.violation({"kind": "session-dead-after-statement", "how": "process died in probe"}, f"process died while probing after {streams[k][2][:300]!r}" if k is not None and k >= 0 else "process died in setup probe", {"cases": [c]})
                # statements before the dying one ran, but their outcomes are lost with the process: re-run them, and the rest, in fresh sessions
                nset = next(ix for ix, (w, kx) in enumerate(spec) if w == "stmt" or (w == "probe" and kx != -1))
                for lo, hi, tag in ((nset, ds - (ds - nset) % (1 + len(PROBE)), "a"), (ds - (ds - nset) % (1 + len(PROBE)) + 1 + len(PROBE), len(spec), "b")):
                    if any(w == "stmt" and kk not in judged for (w, kk) in spec[lo:hi]):
                        c2 = dict(c)
                        c2["id"] = c["id"] + tag
                        c2["steps"] = c["steps"][:nset] + c["steps"][lo:hi]
                        meta[c2["id"]] = spec[:nset] + spec[lo:hi]
                        nxt.append(c2)
                continue
            steps = r["steps"]
            last_probe = None
            cur_probe = []
            cur_k = None
            stmt_out = {}
            restart_from = None
            for si, (s, (what, k)) in enumerate(zip(steps, spec)):
                if s["outcome"] == "skipped":
                    break
                if what == "setup":
                    if s["outcome"] not in ("rows", "empty"):
                        chk.inconc("session setup failed")
                        break
                    continue
                if what == "stmt":
                    if k in judged:
                        stmt_out[k] = None
                        continue
                    judged.add(k)
                    stream, kind, sql = streams[k]
                    chk.evaluated()
                    replay = {"cases": [{"id": "r", "exec": c["exec"], "steps": list(SETUP) + [{"sql": sql}] + list(PROBE)}], "sql": sql}
                    o = s["outcome"]
                    stmt_out[k] = o
                    if o == "panic":
                        chk.violation(outcome_signature(s), f"[{stream}/{kind}] panic: {s.get('panic_msg')} @ {s.get('panic_loc')}\n  {sql[:400]!r}", replay)
                        restart_from = si
                        break
                    if o in ("deadlock", "diverged"):
                        if o == "diverged" and re.search(r"\d{5,}|generate_series|CROSS|,", sql):
                            chk.inconc("step budget exhausted by a statement that may legitimately be long")
                        else:
                            # (a LIMIT in the text is part of the signature: the recorded executor defect - pipelines cut short by an
                            # exhausted LIMIT never finalize their upstream operators - must not cover hangs of statements without one)
                            chk.violation({"kind": "outcome", "class": o, "deadlock_kind": s.get("deadlock_kind"), "parked_ops": s.get("parked_ops"), "limit_in_text": bool(re.search(r"\blimit\b", sql, re.I))},
                                          f"[{stream}/{kind}] {o} parked at {s.get('parked_ops')}\n  {sql[:400]!r}", replay)
                        restart_from = si
                        break
                    if o == "timeout":
                        chk.inconc("wall-clock watchdog on the native executor")
                        restart_from = si
                        break
                    first = (s.get("error") or "").split("\n")[0]
                    chk.nontrivial((stream, kind, o, qcheck.compare_msg(first)[:60]))
                    chk.count(f"{stream}:{'ok' if o in ('rows', 'empty') else 'error'}")
                    continue
                # probe step
                if k != cur_k:
                    cur_k = k
                    cur_probe = []
                cur_probe.append((s["outcome"], json.dumps(s.get("rows"), sort_keys=True) if s["outcome"] in ("rows", "empty") else (s.get("error") or "").split("\n")[0]))
                if len(cur_probe) == len(PROBE):
                    if k in stmt_out and stmt_out[k] == "error" and ";" in streams[k][2].strip().rstrip(";"):
                        chk.count("multi-statement text failed: earlier statements of the text may have taken effect, state comparison skipped")
                    elif k in stmt_out and stmt_out[k] == "error":
                        chk.evaluated()
                        if last_probe is not None and cur_probe != last_probe:
                            stream, kind, sql = streams[k]
                            diff = [(PROBE[x]["sql"], last_probe[x][1][:120], cur_probe[x][1][:120]) for x in range(len(PROBE)) if cur_probe[x] != last_probe[x]]
                            chk.violation({"kind": "state-changed-after-error", "probe": diff[0][0].split()[0] + " " + diff[0][0].split()[1][:20]},
                                          f"[{stream}/{kind}] the session state differs after a FAILED statement\n  {sql[:300]!r}\n  {diff[:2]}",
                                          {"cases": [c], "sql": sql})
                    if any(o not in ("rows", "empty") for (o, _) in cur_probe[:1]):
                        stream, kind, sql = streams[k] if k is not None and k >= 0 else ("setup", "", "")
                        chk.violation({"kind": "session-dead-after-statement"}, f"SELECT 1 fails after {sql[:300]!r}: {cur_probe[0]}", {"cases": [c], "sql": sql})
                    last_probe = cur_probe
            if restart_from is not None:
                rest_spec = spec[restart_from + 1 + len(PROBE):]
                if any(w == "stmt" for (w, _) in rest_spec):
                    nset = next(ix for ix, (w, kx) in enumerate(spec) if w == "stmt" or (w == "probe" and kx != -1))
                    c2 = dict(c)
                    c2["id"] = c["id"] + "+"
                    c2["steps"] = c["steps"][:nset] + c["steps"][restart_from + 1 + len(PROBE):]
                    meta[c2["id"]] = spec[:nset] + rest_spec
                    nxt.append(c2)
        pending = nxt
    # ---- stream 3: structure stress, one process per statement
    scases = []
    smeta = {}
    for kind in NEST_KINDS:
        depths = DEPTHS.get(kind, [10, 100, 1000, 10000])
        if thorough and kind not in DEPTHS:
            depths = depths + [3000, 30000]
        for d in depths:
            sql = nest(kind, d)
            c = {"id": f"c15-n-{kind}-{d}", "exec": {"kind": "det", "policy": "fifo", "partitions": 2, "step_budget": 5_000_000}, "steps": list(SETUP) + [{"sql": sql, "out": "count"}] + list(PROBE), "max_rows": 5}
            scases.append(c)
            smeta[c["id"]] = (kind, d, sql)
    results, _ = vrun.run_sharded(scases, shards=16, wall_s=1200, cpu_s=120)
    for c in scases:
        kind, d, sql = smeta[c["id"]]
        r = results.get(c["id"])
        chk.evaluated()
        if r is None or "not_run" in r or "fatal" in r:
            chk.inconc("stress statement not run")
            continue
        short = {"cases": [{"id": "r", "exec": c["exec"], "steps": [{"sql": f"-- nest({kind!r}, {d})"}]}], "nest": [kind, d]}
        if "died" in r:
            sig = outcome_signature(r)
            sig["stress"] = kind
            if sig.get("class") in ("cpu-limit", "watchdog"):
                chk.inconc(f"structure stress {kind} ran into the CPU/wall limit")
                continue
            chk.violation(sig, f"[stress/{kind} depth {d}] process died: {json.dumps({k: str(v)[:160] for k, v in r['died'].items() if k != 'stderr_tail'})}", short)
            continue
        s = r["steps"][len(SETUP)]
        if s["outcome"] == "panic":
            sig = outcome_signature(s)
            chk.violation(sig, f"[stress/{kind} depth {d}] panic: {s.get('panic_msg')} @ {s.get('panic_loc')}", short)
            continue
        if s["outcome"] in ("deadlock", "diverged"):
            chk.violation({"kind": "outcome", "class": s["outcome"], "stress": kind}, f"[stress/{kind} depth {d}] {s['outcome']}", short)
            continue
        probe_ok = all(p["outcome"] in ("rows", "empty") for p in r["steps"][len(SETUP) + 1:])
        if not probe_ok:
            chk.violation({"kind": "session-dead-after-statement", "stress": kind}, f"[stress/{kind} depth {d}] probes fail afterwards", short)
            continue
        chk.nontrivial(("stress", kind, d, s["outcome"]))
        chk.count(f"stress:{s['outcome']}")
    # ---- stream 5: every function / operator form x argument type tuples over a table of extreme values
    fres, _ = vrun.run_cases([{"id": "fns", "steps": [{"sql": "SELECT DISTINCT function_name, function_type FROM list_functions() WHERE function_type <> 'table' ORDER BY 1"}]}])
    fst = fres.get("fns", {}).get("steps", [{}])[0]
    if fst.get("outcome") != "rows":
        chk.inconc("list_functions() unavailable")
    else:
        fns = [(r[0], r[1]) for r in fst["rows"] if r[0] and r[0][0].isalpha()]
        forms = [(f, "fn") for f, _ in fns] + [(o, "op") for o in typesweep.OPS2] + [(tpl, "special") for (_, tpl, ar) in typesweep.SPECIAL]
        exprs = []
        tn = [t for t in typesweep.TNAMES]
        for (f, kind) in forms:
            if kind == "fn":
                exprs.append(f"{f}()")
                for a in tn:
                    exprs.append(f"{f}({typesweep.slot(a)})")
                for _ in range(400 if thorough else 30):
                    a, b = rng.choice(tn), rng.choice(tn)
                    exprs.append(f"{f}({typesweep.slot(a)}, {typesweep.slot(b)})")
                for _ in range(100 if thorough else 8):
                    a = rng.choice(tn)
                    exprs.append(f"{f}({typesweep.slot(a)}, {typesweep.slot(rng.choice([a, rng.choice(tn)]))}, {typesweep.slot(rng.choice([a, 'i32', 'i64', 'tx']))})")
            elif kind == "op":
                for _ in range(300 if thorough else 60):
                    exprs.append(f"({typesweep.slot(rng.choice(tn))} {f} {typesweep.slot(rng.choice(tn))})")
            else:
                for _ in range(100 if thorough else 20):
                    a = rng.choice(tn)
                    exprs.append("(" + f.format(typesweep.slot(a), typesweep.slot(rng.choice([a, rng.choice(tn)])), typesweep.slot(rng.choice([a, rng.choice(tn)]))) + ")")
        chk.extra["function_sweep_expressions"] = len(exprs)
        base5 = extreme_table_steps()
        fcases = []
        fmeta = {}
        per5 = 150
        for i in range(0, len(exprs), per5):
            steps = list(base5) + [{"sql": f"SELECT {e} AS r FROM ty", "out": "count"} for e in exprs[i:i + per5]] + [{"sql": "SELECT count(*) FROM ty"}]
            c = {"id": f"c15-f{i // per5}", "exec": {"kind": "det", "policy": "random", "seed": rng.randint(0, 1 << 30), "partitions": rng.choice([1, 2]), "step_budget": 2_000_000}, "steps": steps, "max_rows": 5, "journal_steps": True}
            fcases.append(c)
            fmeta[c["id"]] = list(range(i, min(i + per5, len(exprs))))
        pending = fcases
        rounds = 0
        nb5 = len(base5)
        while pending and rounds < 12:
            rounds += 1
            results, _ = vrun.run_sharded(pending, shards=16, wall_s=1800, cpu_s=300, as_bytes=4 << 30)
            nxt = []
            for c in pending:
                idxs = fmeta[c["id"]]
                r = results.get(c["id"])
                if r is None or "not_run" in r or "fatal" in r:
                    chk.inconc("function sweep case not run")
                    continue
                if "died" in r:
                    ds = r["died"].get("step")
                    if ds is None or ds < nb5 or ds - nb5 >= len(idxs):
                        chk.inconc("process death in the function sweep could not be attributed to a statement")
                        continue
                    k = idxs[ds - nb5]
                    judge_death(chk, r, ("functions", "sweep", f"SELECT {exprs[k]} AS r FROM ty"), {"id": "r", "exec": c["exec"], "steps": list(base5) + [{"sql": f"SELECT {exprs[k]} AS r FROM ty"}]})
                    # statements before the dying one were executed but their outcomes are lost with the process: re-run both sides
                    for part, tag in ((idxs[:ds - nb5], "a"), (idxs[ds - nb5 + 1:], "b")):
                        if part:
                            c2 = dict(c)
                            c2["id"] = c["id"] + tag
                            c2["steps"] = list(base5) + [{"sql": f"SELECT {exprs[k2]} AS r FROM ty", "out": "count"} for k2 in part] + [{"sql": "SELECT count(*) FROM ty"}]
                            fmeta[c2["id"]] = part
                            nxt.append(c2)
                    continue
                stop = None
                for j, (k, s) in enumerate(zip(idxs, r["steps"][nb5:])):
                    if s["outcome"] == "skipped":
                        break
                    chk.evaluated()
                    sql = f"SELECT {exprs[k]} AS r FROM ty"
                    replay = {"cases": [{"id": "r", "exec": c["exec"], "steps": list(base5) + [{"sql": sql}]}], "sql": sql}
                    if s["outcome"] == "panic":
                        chk.violation(outcome_signature(s), f"[functions] panic: {s.get('panic_msg')} @ {s.get('panic_loc')}\n  {sql}", replay)
                        stop = j
                        break
                    if s["outcome"] in ("deadlock", "diverged", "timeout"):
                        chk.violation({"kind": "outcome", "class": s["outcome"], "form": exprs[k].split("(")[0][:30]}, f"[functions] {s['outcome']}: {sql}", replay)
                        stop = j
                        break
                    if s["outcome"] in ("rows", "empty"):
                        chk.nontrivial(("functions", exprs[k]))
                    chk.count("functions:" + ("ok" if s["outcome"] in ("rows", "empty") else "error"))
                if stop is not None and stop + 1 < len(idxs):
                    part = idxs[stop + 1:]
                    c2 = dict(c)
                    c2["id"] = c["id"] + "+"
                    c2["steps"] = list(base5) + [{"sql": f"SELECT {exprs[k]} AS r FROM ty", "out": "count"} for k in part] + [{"sql": "SELECT count(*) FROM ty"}]
                    fmeta[c2["id"]] = part
                    nxt.append(c2)
            pending = nxt
    for (stream, kind, sql) in streams[:6]:
        chk.sample({"stream": stream, "kind": kind, "sql": sql[:200]})


EXTREME = {
    "bo": ["true", "false"], "i8": ["'-128'::TINYINT", "'127'::TINYINT"], "i16": ["'-32768'::SMALLINT", "'32767'::SMALLINT"], "i32": ["'-2147483648'::INT", "'2147483647'::INT"],
    "i64": ["'-9223372036854775808'::BIGINT", "'9223372036854775807'::BIGINT"], "u8": ["'0'::UTINYINT", "'255'::UTINYINT"], "u16": ["'0'::USMALLINT", "'65535'::USMALLINT"],
    "u32": ["'0'::UINT", "'4294967295'::UINT"], "u64": ["'0'::UBIGINT", "'18446744073709551615'::UBIGINT"], "f16": ["'NaN'::HALF", "'-inf'::HALF"], "f32": ["'NaN'::REAL", "'inf'::REAL"],
    "f64": ["'-0.0'::DOUBLE", "'1.7976931348623157e308'::DOUBLE"], "d42": ["'-99.99'::DECIMAL(4,2)", "'99.99'::DECIMAL(4,2)"], "d184": ["'-99999999999999.9999'::DECIMAL(18,4)", "'99999999999999.9999'::DECIMAL(18,4)"],
    "d3010": ["'-99999999999999999999.9999999999'::DECIMAL(30,10)", "'0.0000000001'::DECIMAL(30,10)"], "d380": ["'-99999999999999999999999999999999999999'::DECIMAL(38,0)", "'99999999999999999999999999999999999999'::DECIMAL(38,0)"],
    "tx": ["''", "'é😀 longer than twelve bytes %_\\'"], "da": ["DATE '0001-01-01'", "DATE '9999-12-31'"], "ts": ["epoch_ms(-62135596800000)", "epoch_ms(253402300799999)"],
    "iv": ["INTERVAL '-1 day'", "INTERVAL '100000 years'"], "bl": ["''::BLOB", "'é😀 longer than twelve bytes'::BLOB"],
}


def extreme_table_steps():
    cols = [t for t in typesweep.TYPES if t[0] not in typesweep.SLOT]
    sel = []
    for r in range(2):
        sel.append("SELECT " + ", ".join([f"{r + 1} AS id"] + [f"{EXTREME[t[0]][r]} AS {t[0]}" for t in cols]))
    sel.append("SELECT " + ", ".join(["3"] + [f"{t[2][0]}" for t in cols]))
    sel.append("SELECT " + ", ".join(["4"] + [("epoch_ms(CAST(NULL AS BIGINT))" if t[0] == "ts" else f"CASE WHEN 1 = 0 THEN {t[2][0]} END") for t in cols]))
    return [{"sql": "CREATE TEMP TABLE ty AS " + " UNION ALL ".join(sel), "out": "count"}, {"sql": "SELECT count(*) FROM ty"}]


def judge_death(chk, r, st, c):
    stream, kind, sql = st
    d = r["died"]
    sig = outcome_signature(r)
    head = d.get("stderr_head") or ""
    m = re.search(r"memory allocation of (\d+) bytes failed", head + (d.get("stderr_tail") or ""))
    chk.evaluated()
    if sig.get("class") == "alloc-abort" and m and int(m.group(1)) < (1 << 40):
        chk.inconc("allocation failure under the address-space cap (resource exhaustion, not decided here)")
        chk.count("alloc-abort below 2^40 bytes")
        return
    if sig.get("class") in ("cpu-limit", "watchdog"):
        if re.search(r"\d{5,}|generate_series|CROSS|,", sql):
            chk.inconc("CPU/wall limit on a statement that may legitimately be long")
            return
    chk.violation(sig, f"[{stream}/{kind}] process died: {json.dumps({k: str(v)[:200] for k, v in d.items() if k != 'stderr_tail'})}\n  {sql[:400]!r}", {"cases": [c], "sql": sql})
