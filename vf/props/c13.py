"""C13 — casts are exact-or-error and text round-trips every value.

Workload: the (source, target) cast matrix is discovered at run time (twice, compared); for every pair in the
matrix boundary-biased / exhaustive source values are cast in column context (CAST, ::, implicit INSERT cast) and
constant context; every value the reference expects to fail is probed in a case of its own. Oracle: exact rational
reference in vf/castref.py (candidate rounding rules per conversion kind + rule-independent constraints).
"""
import json
from fractions import Fraction
from vf import run as vrun
from vf.core import outcome_signature
from vf import castref as R
from vf.castref import ERR, NAN

ENV = {"RUST_LIB_BACKTRACE": "0"}   # error values capture no backtrace (20x faster); panics still symbolised by the driver
CHUNK = 250


# ====================================================================== source values
def int_values(T, rng, n_rand, exhaustive):
    if exhaustive:
        return list(range(T.lo, T.hi + 1))
    vs = {0, 1, 2, 3, 7, 10, -1, -2, -3, -7, -10}
    for t in R.INTS:
        for b in (t.lo, t.hi):
            vs |= {b - 1, b, b + 1}
    for k in range(1, 65):
        for d in (-1, 0, 1):
            vs |= {2 ** k + d, -(2 ** k) + d}
    for k in range(1, 20):
        for d in (-1, 0, 1):
            vs |= {10 ** k + d, -(10 ** k) + d, 5 * 10 ** (k - 1) + d}
    vs |= {65504, 65519, 65520, 65521, 2049, 2051, 4097, 16777217, 16777219, 9007199254740993, 9007199254740995}
    for _ in range(n_rand):
        vs.add(rng.randint(T.lo, T.hi))
        vs.add(rng.randint(-(2 ** rng.randint(1, 64)), 2 ** rng.randint(1, 64)))
    return sorted(v for v in vs if T.lo <= v <= T.hi)


def float_values(T, rng, n_rand):
    fmt = T.fmt
    bits = R.FMT[fmt][2]
    sign = 1 << (bits - 1)
    out = {0, sign, NAN, R.f_inf(fmt), R.f_inf(fmt, True), 1, sign | 1, R.f_max(fmt), sign | R.f_max(fmt)}
    p = R.FMT[fmt][0]
    out |= {(1 << (p - 1)) - 1, 1 << (p - 1), sign | (1 << (p - 1))}          # largest subnormal, smallest normal
    fr = set()
    for k in range(0, 8):
        fr |= {Fraction(2 * k + 1, 2), Fraction(k), Fraction(2 * k + 1, 4), Fraction(4 * k + 3, 4)}
    for t in R.INTS:
        for b in (t.lo, t.hi):
            for d in (Fraction(-1), Fraction(-1, 2), Fraction(0), Fraction(1, 2), Fraction(1), Fraction(-1, 4), Fraction(3, 4)):
                fr.add(Fraction(b) + d)
    for k in (10, 11, 24, 31, 32, 53, 63, 64, 100, 126, 127):
        for d in (-1, 0, 1):
            fr.add(Fraction(2 ** k + d))
    for k in (1, 2, 3, 4, 5, 9, 10, 14, 18, 19, 28, 37, 38, 39):
        for d in (Fraction(-1), Fraction(-1, 2), Fraction(0), Fraction(1, 2), Fraction(1)):
            fr.add(Fraction(10 ** k) + d)
    # exact ties at decimal scale s: odd multiples of 2^-(s+1)
    for s in (0, 2, 4, 10, 18, 38):
        for j in (1, 3, 5, 7, 25, 199, 2 ** (s + 1) + 1, 3 * 2 ** (s + 1) + 1):
            fr.add(Fraction(j, 2 ** (s + 1)))
    for txt in ("0.1", "0.005", "0.015", "1.005", "1.115", "0.145", "99.995", "99.994", "0.285", "9.995", "0.000049", "0.00005",
                "1e-10", "5e-11", "1e-18", "5e-19", "1e-38", "5e-39", "0.99999999999", "123456.789", "1152921504606847232",
                "1e15", "1e16", "1e17", "1e22", "1e23", "12345678.9", "8388607.5", "8388608.5", "4503599627370495.5"):
        fr.add(Fraction(txt))
    for x in fr:
        for sg in (1, -1):
            for mode in ("floor", "ceil"):
                out.add(R.f_round(sg * x, fmt, mode))
    for _ in range(n_rand):
        b = rng.getrandbits(bits)
        out.add(R.f_canon(b, fmt))
        # near-integers and small magnitudes
        x = Fraction(rng.randint(-10 ** rng.randint(1, 19), 10 ** rng.randint(1, 19)), rng.choice([1, 2, 4, 8, 10, 100, 1000]))
        out.add(R.f_round(x, fmt))
    return sorted(out, key=lambda b: (-1 if b == NAN else b))


def dec_values(T, rng, n_rand):
    p, s = T.p, T.s
    m = 10 ** p - 1
    vs = {0, 1, -1, m, -m, m - 1, 10 ** (p - 1), -(10 ** (p - 1)), 5 * 10 ** (p - 1), 5 * 10 ** (p - 1) - 1}
    for s2 in (0, 2, 4, 10, 18):
        if s2 < s:
            q = 10 ** (s - s2)
            for k in (0, 1, 2, 3, 9, 99, 9999, 10 ** (p - s) - 1):
                for d in (-1, 0, 1):
                    vs |= {k * q + q // 2 + d, -(k * q + q // 2 + d), k * q + d, -(k * q) + d}
    sc = 10 ** s
    for t in R.INTS:
        for b in (t.lo, t.hi):
            for d in (-sc, -(sc // 2) - 1, -(sc // 2), -1, 0, 1, sc // 2, sc // 2 + 1, sc):
                vs.add(b * sc + d)
    for k in (11, 24, 53, 63, 64, 100, 126):
        for d in (-1, 0, 1):
            vs |= {(2 ** k + d) * sc, 2 ** k + d, -(2 ** k + d)}
    for k in range(0, p + 1):
        for d in (-1, 0, 1):
            vs |= {10 ** k + d, -(10 ** k) + d}
    for _ in range(n_rand):
        vs.add(rng.randint(-m, m))
        vs.add(rng.randint(-(10 ** rng.randint(1, p)), 10 ** rng.randint(1, p)))
    return sorted(v for v in vs if abs(v) <= m)


def date_values(rng, n_rand):
    vs = set()
    for (y, mo, d) in [(1970, 1, 1), (1969, 12, 31), (2020, 2, 29), (2000, 2, 29), (1900, 2, 28), (1900, 3, 1), (2100, 2, 28), (1, 1, 1),
                       (9999, 12, 31), (1600, 2, 29), (2024, 12, 31), (2025, 1, 1), (1582, 10, 4), (1582, 10, 15), (2038, 1, 19), (1000, 6, 15)]:
        vs.add(R.days_from_civil(y, mo, d))
    for _ in range(n_rand):
        vs.add(rng.randint(R.days_from_civil(1, 1, 1), R.days_from_civil(9999, 12, 31)))
    return sorted(vs)


def interval_values(rng, n_rand):
    H = 3600 * 10 ** 9
    vs = {(0, 0, 0), (1, 0, 0), (12, 0, 0), (14, 0, 0), (25, 0, 0), (0, 1, 0), (0, 2, 0), (0, 45, 0), (0, 0, H), (0, 0, 36 * H), (0, 0, 10 ** 9),
          (0, 0, 10 ** 6), (0, 0, 5 * 10 ** 6), (0, 0, 10 ** 3), (0, 0, 1), (0, 0, 1_005_000_000), (0, 0, 1_500_000_000), (0, 0, 61 * 10 ** 9),
          (14, 3, 4 * H + 5 * 60 * 10 ** 9 + 6 * 10 ** 9), (-1, 0, 0), (0, -1, 0), (0, 0, -H), (-14, -3, -H), (1, -1, 0), (0, 1, -H),
          (0, 0, 999_000_000), (0, 0, 123_456_789), (1200, 0, 0), (0, 100000, 0), (0, 0, 1000 * H)}
    for _ in range(n_rand):
        vs.add((rng.choice([0, 0, rng.randint(-500, 500)]), rng.choice([0, 0, rng.randint(-5000, 5000)]),
                rng.choice([0, rng.randint(0, 100) * H, rng.randint(-10 ** 15, 10 ** 15), rng.randint(0, 86400) * 10 ** 9, rng.randint(0, 10 ** 7) * 10 ** 6])))
    return sorted(vs)


def binary_values(rng):
    return [b"", b"a", b"abc", b"hello world", "é".encode(), "日本語".encode(), b" lead", b"trail ", b"0", b"x" * 40, b"tab\there"]


def values_for(T, rng, thorough):
    nr = 400 if thorough else 40
    if T.kind == "int":
        return int_values(T, rng, nr, exhaustive=(T.bits == 8))
    if T.kind == "float":
        return float_values(T, rng, nr)
    if T.kind == "decimal":
        return dec_values(T, rng, nr)
    if T.kind == "date":
        return date_values(rng, nr)
    if T.kind == "interval":
        return interval_values(rng, nr)
    if T.kind == "binary":
        return binary_values(rng)
    return []


def exhaustive_values(T):
    """Every value of a 16-bit type (thorough tier)."""
    if T.kind == "int":
        return list(range(T.lo, T.hi + 1))
    return sorted({R.f_canon(b, "f16") for b in range(65536)}, key=lambda b: (-1 if b == NAN else b))


def vclass(S, v):
    """Coarse class of a source value (for the distinct-coverage keys)."""
    if S.kind == "int":
        return "lo" if v == S.lo else "hi" if v == S.hi else "zero" if v == 0 else ("neg" if v < 0 else "pos") + str(abs(v).bit_length() // 8)
    if S.kind == "float":
        x = R.f_decode(v, S.fmt)
        if isinstance(x, str):
            return x
        if x == 0:
            return "negzero" if R.f_is_neg(v, S.fmt) else "zero"
        return ("neg" if x < 0 else "pos") + ("int" if x.denominator == 1 else "half" if x.denominator == 2 else "frac") + str(min(abs(x).numerator.bit_length() - abs(x).denominator.bit_length(), 70) // 8)
    if S.kind == "decimal":
        return "zero" if v == 0 else ("neg" if v < 0 else "pos") + str(len(str(abs(v))))
    return "v"


# ====================================================================== plumbing
class St:
    """Run state: cases, expectations, rule inference."""

    def __init__(self, chk):
        self.chk = chk
        self.cases = []
        self.jobs = {}          # case id -> job dict
        self.rules = {}         # conversion kind -> surviving candidate rules
        self.disc = {}          # conversion kind -> number of discriminating observations
        self.rule_conflict = {}
        self.reruns = []        # (S, T, value) to probe individually in the next round
        self.text_reruns = []
        self.text_batched = False
        self.text_obs = {}
        self.n = 0

    def add(self, cid, steps, job, max_rows=200000):
        self.cases.append({"id": cid, "exec": {"kind": "det", "policy": "fifo", "partitions": 2}, "steps": steps, "max_rows": max_rows})
        job["cid"] = cid
        self.jobs[cid] = job

    def run(self, wall):
        cases, self.cases = self.cases, []
        if not cases:
            return {}, {}
        import time
        t0 = time.time()
        res, meta = vrun.run_sharded(cases, shards=16, wall_s=wall, env=ENV)
        self.chk.extra.setdefault("round_engine_s", []).append([len(cases), round(time.time() - t0, 1)])
        self.chk.extra["process_restarts"] = self.chk.extra.get("process_restarts", 0) + meta["restarts"]
        self.chk.count("cases_run", len(cases))
        return res, {c["id"]: c for c in cases}


def sel(T, expr):
    return f"CAST({expr} AS {T.sql})"


def load_steps(tbl, S, items):
    steps = [{"sql": f"create temp table {tbl} (id int, v {S.sql})"}]
    for k in range(0, len(items), CHUNK):
        steps.append({"sql": f"insert into {tbl} values " + ",".join(f"({i},{R.lit(S, v)})" for i, v in items[k:k + CHUNK]), "out": "count"})
    return steps


def case_alive(chk, res):
    """False (and inconclusive) when the case did not run at all."""
    if res is None or "not_run" in res or "fatal" in res:
        chk.inconc("case not run: " + str((res or {}).get("not_run") or (res or {}).get("fatal") or "missing")[:50])
        return False
    return True


def obs_rows(T, st):
    """step -> ('rows', {id: canonical|None}) | ('err', msg) | ('panic', step) | ('bad', text)"""
    o = st["outcome"]
    if o == "error":
        return ("err", st.get("error", "").split("\n")[0][:160])
    if o == "panic":
        return ("panic", st)
    if o not in ("rows", "empty"):
        return ("bad", o)
    out = {}
    try:
        for r in st.get("rows", []):
            out[r[0]] = None if r[1] is None else R.from_json(T, r[1])
    except (ValueError, KeyError, TypeError) as e:
        return ("bad", f"result not of type {T.key}: {e}")
    return ("rows", out)


def show(T, v):
    if v == ERR or v is None:
        return str(v)
    if T.kind == "float":
        return "NaN" if v == NAN else f"{R.f_text(v, T.fmt)} (bits {v})"
    if T.kind == "decimal":
        return R.dec_text(v, T.s)
    return repr(v)


def note_rules(st, kind, cand, obs, example, conv=None):
    """Intersect the surviving rule set of a conversion kind with the rules that explain this observation."""
    outs = set(map(str, cand.values()))
    if len(outs) <= 1:
        return
    ok = {r for r, o in cand.items() if o == obs}
    if not ok:
        return
    st.disc[kind] = st.disc.get(kind, 0) + 1
    cur = st.rules.get(kind)
    new = ok if cur is None else (cur & ok)
    if cur is not None and not new and kind not in st.rule_conflict:
        st.rule_conflict[kind] = (sorted(cur), sorted(ok), example, conv)
        new = cur
    st.rules[kind] = new


def died_or_panic(chk, res, case, what, conv):
    """Report process death / first panic of a case. Returns the index of the panicking step or None."""
    if "died" in res:
        sig = dict(outcome_signature(res), conv=conv)
        chk.violation(sig, f"{what}: process died: {json.dumps(res['died'])[:300]}", {"cases": [case], "run_kw": {"env": ENV}})
        return -1
    for i, s in enumerate(res["steps"]):
        if s["outcome"] == "panic":
            sig = dict(outcome_signature(s), conv=conv)
            chk.violation(sig, f"{what}: panic in `{case['steps'][i]['sql'][:300]}` -> {s.get('panic_msg')} @ {s.get('panic_frame') or s.get('panic_loc')}", {"cases": [case], "run_kw": {"env": ENV}})
            chk.count("panics_seen")
            chk.count("panic/" + conv + "/" + case["id"].split("/")[0])
            return i
    return None


# ====================================================================== numeric pairs
def judge_num(st, S, T, v, obs, ctx, case):
    """obs: canonical value of T, ERR, or None (SQL NULL)."""
    chk = st.chk
    conv = R.conv_name(S, T)
    chk.evaluated()
    chk.count("num_" + ctx)
    if S.kind == "int" and obs is not None and obs == R.fast_expected(S, T, v):
        chk.nontrivial(("num", S.key, T.key, vclass(S, v), "err" if obs == ERR else "val", ctx))
        return
    src = f"{S.sql} {show(S, v)} -> {T.sql}"
    if obs is None:
        chk.violation({"kind": "null-result", "conv": conv}, f"{src} [{ctx}]: NULL result from a non-NULL source", {"cases": [case], "run_kw": {"env": ENV}})
        return
    cand = R.cands(S, T, v)
    if any(o == obs and r not in ("fmul", "fdiv") for r, o in cand.items()):
        h = None          # outcome of an exact rounding rule: range, precision and neighbour constraints hold by construction
    else:
        h = R.hard(S, T, v, obs)
    fd = {S.kind, T.kind} == {"float", "decimal"}
    if h is None and obs not in cand.values():
        h = "no-rule-explains"
    if h is not None:
        sig = {"kind": h, "conv": conv}
        if fd and h in ("not-a-neighbour", "representable-value-changed", "unexpected-error", "nan-from-number", "no-rule-explains"):
            # scaling by 10^s carried out in the float format itself (inexact product / quotient, overflow to inf): one root cause per conversion
            sig = {"kind": "inexact-float-decimal", "conv": conv}
        chk.violation(sig, f"{src} [{ctx}]: got {show(T, obs)} ({h}); candidate rules give {({r: show(T, o) for r, o in cand.items()})}", {"cases": [case], "run_kw": {"env": ENV}})
        return
    note_rules(st, R.rule_kind(S, T), cand, obs, f"{src} = {show(T, obs)}", conv)
    chk.nontrivial(("num", S.key, T.key, vclass(S, v), "err" if obs == ERR else "val", ctx))


def plan_numeric(st, S, T, vals, rng, thorough):
    """Column-context batch (three routes + idempotence), constant context, and one probe per expected failure."""
    pred = {v: R.primary(S, T, v) for v in vals}
    ok = [v for v in vals if pred[v] != ERR]
    bad = [v for v in vals if pred[v] == ERR]
    items = list(enumerate(ok))
    steps = load_steps("src", S, items)
    n_load = len(steps)
    steps += [{"sql": "select id, v from src"},
              {"sql": f"select id, CAST(v AS {T.sql}) from src"},
              {"sql": f"select id, v::{T.sql} from src"},
              {"sql": f"create temp table dst (id int, w {T.sql})"},
              {"sql": "insert into dst select id, v from src", "out": "count"},
              {"sql": "select id, w from dst"},
              {"sql": f"select id, CAST(w AS {T.sql}) from dst"}]
    mixed = None
    if bad and ok:
        mixed = rng.choice(bad)
        steps += [{"sql": f"insert into src values (1000000,{R.lit(S, mixed)})", "out": "count"},
                  {"sql": f"select id, CAST(v AS {T.sql}) from src"}]
    st.add(f"np/{S.key}/{T.key}", steps, {"kind": "np", "S": S, "T": T, "items": items, "n_load": n_load, "mixed": mixed})
    # constant context
    sample = ok if len(ok) <= 120 else rng.sample(ok, 120)
    csteps = []
    for k in range(0, len(sample), 40):
        csteps.append({"sql": "select " + ", ".join(sel(T, R.lit(S, v)) for v in sample[k:k + 40])})
    if csteps:
        st.add(f"nc/{S.key}/{T.key}", csteps, {"kind": "nc", "S": S, "T": T, "vals": sample})
    # expected failures: one case each
    cap = len(bad) if thorough else 40
    if len(bad) > cap:
        # keep the ones closest to the representable range, plus a random rest
        def dist(v):
            x = R.exact(S, v)
            return (1, 0) if isinstance(x, str) else (0, abs(x))
        bad_sorted = sorted(bad, key=dist)
        forced = [v for v in (bad_sorted[-6:] if S.kind != "int" else []) + [x for x in bad if S.kind == "int" and x in (S.lo, S.hi)]]
        near = [v for v in bad_sorted[:cap // 2] if v not in forced]
        rest = [v for v in bad_sorted[cap // 2:] if v not in forced]
        bad = forced + near + rng.sample(rest, max(0, min(len(rest), cap - len(forced) - len(near))))
    for i, v in enumerate(bad):
        add_probe(st, f"pb/{S.key}/{T.key}/{i}", S, T, v, const=(i % 4 == 0))


def add_probe(st, cid, S, T, v, const=False, why="expected-failure", echo=True):
    steps = [{"sql": f"create temp table e as select {R.lit(S, v)} as v"}]
    if echo:
        steps.append({"sql": "select 0, v from e"})
    steps.append({"sql": f"select 0, CAST(v AS {T.sql}) from e"})
    if const:
        steps.append({"sql": f"select 0, {sel(T, R.lit(S, v))}"})
    st.add(cid, steps, {"kind": "probe", "S": S, "T": T, "v": v, "why": why, "echo": echo})


def judge_np(st, job, res, case):
    chk = st.chk
    S, T = job["S"], job["T"]
    conv = R.conv_name(S, T)
    what = case["id"]
    n0 = job["n_load"]
    steps = res["steps"]
    items = job["items"]
    byid = dict(items)
    pidx = died_or_panic(chk, res, case, what, conv)
    # loading
    for i in range(n0):
        if steps[i]["outcome"] not in ("rows", "empty"):
            if pidx is None:
                chk.count("load_failed_pairs")
            for _, v in items:
                st.reruns.append((S, T, v))
            return
    echo = obs_rows(S, steps[n0])
    if echo[0] != "rows" or any(echo[1].get(i) != v for i, v in items):
        # the text->S load is itself a cast under test (judged in the text section): judge these values one by one
        chk.count("echo_mismatch_pairs")
        for _, v in items:
            st.reruns.append((S, T, v))
        return
    routes = {"cast": obs_rows(T, steps[n0 + 1]), "colons": obs_rows(T, steps[n0 + 2])}
    ins_ok = steps[n0 + 3]["outcome"] in ("rows", "empty") and steps[n0 + 4]["outcome"] in ("rows", "empty")
    if ins_ok:
        routes["insert"] = obs_rows(T, steps[n0 + 5])
    else:
        chk.count("insert_route_unavailable")
        if steps[n0 + 4]["outcome"] == "error" and routes["cast"][0] == "rows":
            # CAST works for every row but the implicit cast of INSERT fails: acceptable only as a bind-time rejection
            msg = steps[n0 + 4].get("error", "")
            if "Failed to" in msg or "cannot be stored" in msg:
                chk.violation({"kind": "route-disagree", "conv": conv, "route": "insert-error"}, f"{what}: INSERT..SELECT fails ({msg[:120]}) where CAST succeeds on the same rows", {"cases": [case], "run_kw": {"env": ENV}})
    base = routes["cast"]
    if base[0] != "rows":
        # some value the reference expected to succeed failed: find it individually
        for _, v in items:
            st.reruns.append((S, T, v))
        chk.count("batch_failed_pairs")
        return
    got = base[1]
    if set(got) != set(byid):
        chk.violation({"kind": "row-set", "conv": conv}, f"{what}: {len(got)} result rows for {len(byid)} source rows", {"cases": [case], "run_kw": {"env": ENV}})
        return
    for i, v in items:
        judge_num(st, S, T, v, got[i], "column", case)
    for name, r in routes.items():
        if name == "cast":
            continue
        if r[0] != "rows" or r[1] != got:
            diff = [(show(S, byid[i]), show(T, got[i]), show(T, r[1].get(i)) if r[0] == "rows" else r[1]) for i in got if r[0] != "rows" or r[1].get(i) != got[i]][:3]
            chk.violation({"kind": "route-disagree", "conv": conv, "route": name}, f"{what}: route {name} differs from CAST: (source, CAST, {name}) {diff}", {"cases": [case], "run_kw": {"env": ENV}})
        else:
            chk.count("route_agree_" + name, len(got))
            chk.evaluated(len(got))
    # idempotence
    if ins_ok:
        idem = obs_rows(T, steps[n0 + 6])
        if idem[0] == "rows":
            if idem[1] != routes["insert"][1]:
                chk.violation({"kind": "not-idempotent", "conv": conv}, f"{what}: CAST(w AS {T.sql}) over the already cast column differs", {"cases": [case], "run_kw": {"env": ENV}})
            else:
                chk.count("idempotence_checked", len(got))
                chk.evaluated(len(got))
        elif idem[0] == "err" and "cannot handle source" not in idem[1]:
            chk.violation({"kind": "not-idempotent", "conv": conv, "class": "error"}, f"{what}: identity cast fails: {idem[1]}", {"cases": [case], "run_kw": {"env": ENV}})
    # monotonicity (numeric order of the source => non-decreasing results)
    seq = []
    for i, v in items:
        x = R.exact(S, v)
        y = R.exact(T, got[i]) if got[i] is not None else None
        if isinstance(x, str) or isinstance(y, str) or y is None:
            continue
        seq.append((x, y, v, got[i]))
    seq.sort(key=lambda t: (t[0], t[1]))
    for a, b in zip(seq, seq[1:]):
        if a[0] < b[0] and a[1] > b[1]:
            chk.violation({"kind": "not-monotone", "conv": conv}, f"{what}: {show(S, a[2])} < {show(S, b[2])} but casts {show(T, a[3])} > {show(T, b[3])}", {"cases": [case], "run_kw": {"env": ENV}})
            break
    chk.count("monotone_pairs", max(0, len(seq) - 1))
    # vector semantics: a failing row makes the statement fail
    if job["mixed"] is not None and len(steps) > n0 + 8:
        m = obs_rows(T, steps[n0 + 8])
        chk.evaluated()
        if steps[n0 + 7]["outcome"] not in ("rows", "empty"):
            pass
        elif m[0] == "rows":
            val = m[1].get(1000000)
            if val is None:
                chk.violation({"kind": "error-became-null", "conv": conv}, f"{what}: a batch containing {S.sql} {show(S, job['mixed'])} (cast must fail) returned rows with NULL in that row", {"cases": [case], "run_kw": {"env": ENV}})
            else:
                judge_num(st, S, T, job["mixed"], val, "mixed-batch", case)
        elif m[0] == "err":
            chk.count("mixed_batch_errors")
            chk.nontrivial(("mixed", S.key, T.key))
    chk.sample({"case": what, "sql": case["steps"][n0 + 1]["sql"], "values": len(items)}, cap=10)


def judge_nc(st, job, res, case):
    chk = st.chk
    S, T = job["S"], job["T"]
    conv = R.conv_name(S, T)
    if died_or_panic(chk, res, case, case["id"], conv) is not None:
        return
    vals = job["vals"]
    for k, s in enumerate(res["steps"]):
        part = vals[k * 40:(k + 1) * 40]
        if s["outcome"] != "rows":
            for v in part:
                st.reruns.append((S, T, v))
            continue
        try:
            got = [None if x is None else R.from_json(T, x) for x in s["rows"][0]]
        except (ValueError, KeyError, TypeError) as e:
            chk.violation({"kind": "result-type", "conv": conv}, f"{case['id']}: {e}", {"cases": [case], "run_kw": {"env": ENV}})
            continue
        for v, g in zip(part, got):
            judge_num(st, S, T, v, g, "const", case)


def judge_probe(st, job, res, case):
    chk = st.chk
    S, T, v = job["S"], job["T"], job["v"]
    conv = R.conv_name(S, T)
    steps = res["steps"]
    if died_or_panic(chk, res, case, f"{case['id']} ({S.sql} {show(S, v)} -> {T.sql})", conv) is not None:
        chk.evaluated()
        chk.nontrivial(("num", S.key, T.key, vclass(S, v), "panic", "probe"))
        return
    if steps[0]["outcome"] not in ("rows", "empty"):
        chk.count("probe_source_not_loadable")
        return
    k = 1
    if job.get("echo", True):
        echo = obs_rows(S, steps[1])
        if echo[0] != "rows" or echo[1].get(0) != v:
            chk.count("probe_source_not_loadable")
            return
        k = 2
    for ctx, s in (("column-probe", steps[k]),) + ((("const-probe", steps[k + 1]),) if len(steps) > k + 1 else ()):
        r = obs_rows(T, s)
        if r[0] == "err":
            judge_num(st, S, T, v, ERR, ctx, case)
        elif r[0] == "rows":
            judge_num(st, S, T, v, r[1].get(0), ctx, case)
        else:
            chk.violation({"kind": "result-type", "conv": conv}, f"{case['id']}: {r[1]}", {"cases": [case], "run_kw": {"env": ENV}})


# ====================================================================== matrix discovery
def discover(st, tag, skip):
    for S in R.ALL:
        for T in R.ALL:
            if skip is not None and skip.get((S.key, T.key)) == "P":
                continue
            st.add(f"m{tag}/{S.key}/{T.key}", [{"sql": f"create temp table m (c {S.sql})"}, {"sql": f"select CAST(c AS {T.sql}) from m"}],
                   {"kind": "disc", "S": S, "T": T})


def read_matrix(st, res, cases, tag):
    """-> {(S.key, T.key): 'Y' | '.' | 'P' | '?'} ; bind-time panics are reported here."""
    chk = st.chk
    mat = {}
    for S in R.ALL:
        for T in R.ALL:
            cid = f"m{tag}/{S.key}/{T.key}"
            if cid not in cases:
                continue
            r = res.get(cid)
            if not case_alive(chk, r):
                mat[(S.key, T.key)] = "?"
                continue
            if "died" in r:
                died_or_panic(chk, r, cases[cid], cid, R.conv_name(S, T))
                mat[(S.key, T.key)] = "P"
                continue
            s0, s1 = r["steps"]
            if s0["outcome"] not in ("rows", "empty"):
                mat[(S.key, T.key)] = "?"
                continue
            o = s1["outcome"]
            if o == "panic":
                if tag == "a":
                    chk.evaluated()
                    died_or_panic(chk, r, cases[cid], f"bind of CAST({S.sql} AS {T.sql}) over an empty table", R.conv_name(S, T))
                mat[(S.key, T.key)] = "P"
            elif o in ("rows", "empty"):
                mat[(S.key, T.key)] = "Y"
            elif o == "error":
                mat[(S.key, T.key)] = "."
            else:
                mat[(S.key, T.key)] = "?"
    return mat


# ====================================================================== driver
def dispatch(st, res, cases):
    for cid, case in cases.items():
        job = st.jobs[cid]
        r = res.get(cid)
        if job["kind"] == "disc":
            continue
        if not case_alive(st.chk, r):
            continue
        JUDGES[job["kind"]](st, job, r, case)


JUDGES = {"np": judge_np, "nc": judge_nc, "probe": judge_probe}


def run(chk):
    thorough = chk.tier == "thorough"
    rng = chk.rng
    st = St(chk)
    chk.rule = ("cast matrix discovered at run time over 24 types (8 integer, HALF/REAL/DOUBLE, 7 DECIMAL(p,s), BOOLEAN, TEXT, DATE, TIMESTAMP, "
                "INTERVAL, BINARY); per numeric pair: exhaustive 8-bit (16-bit and HALF in thorough) or boundary-biased sources, column context "
                "through CAST / :: / implicit INSERT cast, constant context, idempotence, monotonicity, one case per value expected to fail, a mixed "
                "batch that must fail as a whole; chained casts; TEXT -> every type over a spelling corpus; TEXT round trip through a materialised "
                "text column. distinct non-trivial = distinct (section, source type, target type, value class, outcome class, context)")
    chk.assumptions = ["Python Fraction arithmetic is exact; the float rounding helper of vf/castref.py was cross-checked against struct packing",
                       "integer and float spellings follow Rust FromStr (parse.rs delegates to it); other spellings are judged for consistency only",
                       "conversion to a float type may round to nearest (IEEE) with overflow to infinity; a float -> DECIMAL result may be either neighbour at the target scale but must be exact when the source value is representable"]
    wall = 1700 if thorough else 400

    # ---- round 1: matrix, twice
    discover(st, "a", None)
    res, cases = st.run(wall)
    mat = read_matrix(st, res, cases, "a")
    st.mat = mat
    discover(st, "b", mat)       # second discovery (separate engines) runs with round 2; panicking pairs are not repeated
    chk.extra["cast_matrix"] = {S.key: "".join(mat[(S.key, T.key)] for T in R.ALL) for S in R.ALL}
    chk.extra["cast_matrix_columns"] = [T.key for T in R.ALL]
    chk.floor(sum(1 for v in mat.values() if v == "Y") >= 100, "fewer than 100 castable pairs discovered")
    has = lambda S, T: mat.get((S.key, T.key)) == "Y"

    # ---- round 2
    vals = {T.key: values_for(T, rng, thorough) for T in R.ALL}
    numeric = [T for T in R.ALL if T.kind in R.NUMERIC]
    for S in numeric:
        for T in numeric:
            if has(S, T):
                plan_numeric(st, S, T, vals[S.key], rng, thorough)
    for extra in EXTRA_PLANS:
        extra(st, has, vals, rng, thorough)
    drain(st, has, rng, thorough, wall, mat)

    # ---- thorough: every value of the 16-bit types (SMALLINT, USMALLINT, HALF), one source type per round
    if thorough:
        for S in (R.BY_KEY["smallint"], R.BY_KEY["usmallint"], R.BY_KEY["half"]):
            full = exhaustive_values(S)
            for T in numeric:
                if has(S, T):
                    plan_exhaustive(st, S, T, full)
            if has(S, R.TEXT) and has(R.TEXT, S):
                items = list(enumerate(full))
                steps = load_steps("src", S, items)
                n0 = len(steps)
                steps += [{"sql": "select id, v from src"}, {"sql": "create temp table rt as select id, CAST(v AS text) as s from src"},
                          {"sql": "select id, s from rt"}, {"sql": f"select id, CAST(s AS {S.sql}) from rt"}]
                st.add(f"rtx/{S.key}", steps, {"kind": "rt", "T": S, "items": items, "n0": n0})
            drain(st, has, rng, thorough, wall, None)
            chk.extra.setdefault("exhaustive_subspaces", []).append(f"all {len(full)} values of {S.sql}: cast to every numeric target in the matrix and round trip through TEXT")

    # ---- rule inference verdicts
    finish_rules(st)


def drain(st, has, rng, thorough, wall, mat):
    """Run the planned cases; judge; plan follow-up probes (values of failed batches one by one); repeat."""
    chk = st.chk
    for rnd in range(4):
        res, cases = st.run(wall)
        if rnd == 0 and mat is not None:
            mat_b = read_matrix(st, res, cases, "b")
            for k, vb in mat_b.items():
                chk.evaluated()
                if "?" not in (mat[k], vb) and mat[k] != vb:
                    chk.violation({"kind": "matrix-nondeterministic"}, f"cast {k}: first run {mat[k]}, second run {vb}", None)
            chk.count("matrix_pairs_compared", len(mat_b))
        dispatch(st, res, cases)
        del res
        for hook in ROUND_HOOKS:
            hook(st, has, rng, thorough)
        per = {}
        for (S, T, v) in st.reruns:
            per.setdefault((S.key, T.key), []).append((S, T, v))
        st.reruns = []
        for key, lst in sorted(per.items()):
            cap = 600 if thorough else 150
            if len(lst) > cap:
                chk.count("rerun_values_dropped", len(lst) - cap)
                lst = rng.sample(lst, cap)
            for (S, T, v) in lst:
                add_probe(st, f"rr/{S.key}/{T.key}/{st.n}", S, T, v, why="rerun")
                st.n += 1
        if not st.cases:
            break


def plan_exhaustive(st, S, T, full):
    """All values of a 16-bit source: the expected successes in one CAST statement, every expected failure in a case of its own."""
    pred = {v: R.primary(S, T, v) for v in full}
    ok = [v for v in full if pred[v] != ERR]
    bad = [v for v in full if pred[v] == ERR]
    if ok:
        items = list(enumerate(ok))
        steps = load_steps("src", S, items)
        n0 = len(steps)
        steps += [{"sql": "select id, v from src"}, {"sql": f"select id, CAST(v AS {T.sql}) from src"}]
        st.add(f"nx/{S.key}/{T.key}", steps, {"kind": "nx", "S": S, "T": T, "items": items, "n0": n0})
    G = 20
    for k in range(0, len(bad), G):
        part = bad[k:k + G]
        steps = []
        for i, v in enumerate(part):
            if k % (2 * G) == 0:
                # column context: a one-row table per value
                steps += [{"sql": f"create temp table e{i} as select {R.lit(S, v)} as v"}, {"sql": f"select 0, CAST(v AS {T.sql}) from e{i}"}]
            else:
                # constant context (folded): half the statements
                steps += [{"sql": "select 0"}, {"sql": f"select 0, {sel(T, R.lit(S, v))}"}]
        st.add(f"px/{S.key}/{T.key}/{k}", steps, {"kind": "pxg", "S": S, "T": T, "vals": part, "ctx": "column-probe" if k % (2 * G) == 0 else "const-probe"})


def judge_nx(st, job, res, case):
    chk = st.chk
    S, T = job["S"], job["T"]
    conv = R.conv_name(S, T)
    items, n0 = job["items"], job["n0"]
    steps = res["steps"]
    died_or_panic(chk, res, case, case["id"], conv)
    if any(s["outcome"] not in ("rows", "empty") for s in steps[:n0]):
        chk.count("load_failed_pairs")
        return
    echo = obs_rows(S, steps[n0])
    got = obs_rows(T, steps[n0 + 1])
    if echo[0] != "rows" or any(echo[1].get(i) != v for i, v in items):
        chk.count("echo_mismatch_pairs")
        return
    if got[0] != "rows":
        chk.count("batch_failed_pairs")
        for _, v in items:
            st.reruns.append((S, T, v))
        return
    for i, v in items:
        judge_num(st, S, T, v, got[1].get(i, None), "column-exhaustive", case)
    chk.sample({"case": case["id"], "sql": case["steps"][n0 + 1]["sql"], "values": len(items)}, cap=14)


def judge_pxg(st, job, res, case):
    """A group of expected failures, one statement each (own one-row table); a panic skips the rest, which is re-probed."""
    chk = st.chk
    S, T = job["S"], job["T"]
    conv = R.conv_name(S, T)
    if "died" in res:
        died_or_panic(chk, res, case, case["id"], conv)
        return
    steps = res["steps"]
    for i, v in enumerate(job["vals"]):
        s0, s1 = steps[2 * i], steps[2 * i + 1]
        if s0["outcome"] == "skipped" or s1["outcome"] == "skipped":
            st.reruns.append((S, T, v))
            continue
        if s1["outcome"] == "panic" or s0["outcome"] == "panic":
            sub = {"id": case["id"], "steps": case["steps"][2 * i:2 * i + 2]}
            died_or_panic(chk, {"steps": [s0, s1]}, sub, f"{S.sql} {show(S, v)} -> {T.sql}", conv)
            chk.evaluated()
            continue
        if s0["outcome"] not in ("rows", "empty"):
            chk.count("probe_source_not_loadable")
            continue
        r = obs_rows(T, s1)
        sub = {"id": case["id"], "steps": case["steps"][2 * i:2 * i + 2]}
        if r[0] == "err":
            judge_num(st, S, T, v, ERR, job.get("ctx", "column-probe"), sub)
        elif r[0] == "rows":
            judge_num(st, S, T, v, r[1].get(0), job.get("ctx", "column-probe"), sub)
        else:
            chk.violation({"kind": "result-type", "conv": conv}, f"{case['id']}: {r[1]}", {"cases": [sub], "run_kw": {"env": ENV}})


JUDGES["nx"] = judge_nx
JUDGES["pxg"] = judge_pxg


PRESCRIBED = {"float->int": {"trunc"}, "decimal->int": {"trunc"}, "decimal->decimal": {"away"},
              "float->decimal": {"away", "fmul"}, "decimal->float": {"rne", "rne-negzero", "fdiv"},
              "text->decimal": {"away"}, "text->half": {"rne", "via-f32"}, "text->float": {"rne"}}


def finish_rules(st):
    chk = st.chk
    summary = {}
    for kind in sorted(st.rules):
        surv = sorted(st.rules[kind])
        summary[kind] = {"surviving_rules": surv, "discriminating_observations": st.disc.get(kind, 0)}
        chk.evaluated()
        if kind in st.rule_conflict:
            a, b, ex, cv = st.rule_conflict[kind]
            sig = {"kind": "mixed-rounding-rules", "conv": kind}
            if kind in ("float->decimal", "decimal->float"):
                sig = {"kind": "inexact-float-decimal", "conv": cv}       # same root cause: the direction depends on float rounding errors
            chk.violation(sig, f"{kind}: no single rounding rule: observations so far were explained by {a}, but {ex} only by {b}", None)
            continue
        want = PRESCRIBED.get(kind)
        if want and surv and not (set(surv) & want):
            chk.violation({"kind": "rounding-rule", "conv": kind, "observed": surv[0]}, f"{kind}: every discriminating observation ({st.disc.get(kind)}) follows rule(s) {surv}; the property prescribes {sorted(want)}", None)
    chk.extra["observed_rules"] = summary


EXTRA_PLANS = []
ROUND_HOOKS = []


# ====================================================================== TEXT -> T
NUM_STRINGS = ["0", "-0", "+0", "1", "-1", "+1", "007", "-007", "+007", "00", "127", "128", "-128", "-129", "255", "256", "32767", "32768", "-32768",
               "-32769", "65535", "65536", "2147483647", "2147483648", "-2147483648", "-2147483649", "4294967295", "4294967296",
               "9223372036854775807", "9223372036854775808", "-9223372036854775808", "-9223372036854775809", "18446744073709551615",
               "18446744073709551616", "0000000000000000000000000000000000000000000001", "9" * 38, "9" * 39, "-" + "9" * 39, "1" + "0" * 38, "9" * 100, "9" * 300,
               " 1", "1 ", " 1 ", "\t1", "1\t", "1.0", "1.", ".5", "-.5", "+.5", ".", "-.", "+.", "1e2", "1E2", "1e+2", "1e-2", "1.5e3", "-1.5E-3", "15e-1",
               "0x10", "1_000", "1,000", "--1", "+-1", "-+1", "-", "+", "", " ", "abc", "1abc", "abc1", "1 2", "1-", "१२", "NaN", "nan", "NAN", "-nan", "+nan",
               "inf", "-inf", "+inf", "Inf", "INF", "Infinity", "-Infinity", "infinity", "infinit", "in", "nane", "1e", "e1", "1e+", "1ee2", "1e2.5", "1.2.3",
               "1e308", "1e309", "-1e309", "1e-320", "1e-400", "-1e-400", "4.9e-324", "2.4703282292062327e-324", "2.4703282292062328e-324",
               "1.7976931348623157e308", "1.7976931348623158e308", "1.7976931348623159e308", "3.4028235e38", "3.4028236e38", "3.5e38", "1e38", "1e39",
               "1.1754944e-38", "1e-45", "7e-46", "8e-46", "65504", "65519", "65520", "65536.0", "6e-8", "2.9e-8", "3e-8",
               "0.1", "0.5", "1.5", "2.5", "-0.5", "-1.5", "-2.5", "0.05", "0.15", "0.25", "0.45", "0.55", "0.995", "0.005", "-0.005", "9.995", "99.99",
               "99.995", "99.994", "-99.995", "0.004", "0.006", "0.49999999999999999999999", "0.50000000000000000000001", "000.500",
               "1.000000000000000000000000000000", "16777217", "16777216.5", "9007199254740993", "1.0000000000000001", "1.0000000000000002",
               "1.00000000000000011102230246251565404236316680908203125", "1.00000000000000011102230246251565404236316680908203126",
               "1.00048828125", "1.000488281250001", "1.0004882812499999", "2049", "2050", "2051",
               "0." + "0" * 400 + "1", "1" + "0" * 400, "1" + "0" * 400 + "e-400", "0." + "9" * 40, "123.456", "-123.456", "12345678901234567890.123456789",
               "true", "2020-01-01", "1 day"]
DATE_STRINGS = ["2020-02-29", "2019-02-29", "2000-02-29", "1900-02-29", "2100-02-29", "2400-02-29", "1600-02-29", "2020-02-30", "2020-04-31", "2020-06-31",
                "2020-13-01", "2020-00-10", "2020-01-00", "2020-01-32", "2020-12-31", "2021-01-01", "0001-01-01", "0000-01-01", "0000-02-29", "9999-12-31", "10000-01-01",
                "+10000-01-01", "1970-01-01", "1969-12-31", "2020-1-5", "2020-01-5", "2020-1-05", "20200101", "2020/01/01", "2020.01.01", "2020-01-01 ", " 2020-01-01",
                "2020-01-01T00:00:00", "2020-01-01 00:00:00", "2020-01-01x", "x2020-01-01", "-0001-01-01", "-2020-01-01", "+2020-01-01", "02020-01-01", "2020-001-01",
                "2020-01-001", "20-01-01", "2020-01", "2020", "01-01-2020", "2020-02-29-", "2020--02-29", "", " ", "today", "epoch", "NaN", "1", "12345",
                "262143-12-31", "+262143-12-31", "+262144-01-01", "-262144-01-01", "1582-10-10", "2038-01-19", "1e3-01-01", "2020-1e0-01", "２０２０-01-01"]
BOOL_STRINGS = ["t", "true", "TRUE", "T", "True", "tRuE", "f", "false", "FALSE", "F", "False", "fALSE", "yes", "no", "y", "n", "YES", "NO", "1", "0", "on", "off",
                " true", "true ", "false ", "\ttrue", "truee", "tru", "fals", "", " ", "null", "NULL", "2", "-1", "tf", "truefalse", "t rue", "0.0", "abc"]
INTERVAL_STRINGS = ["1 day", "2 days", "1 year", "3 years", "1 month", "5 months", "1 week", "2 weeks", "1 hour", "25 hours", "90 minutes", "1 minute", "1 second",
                    "61 seconds", "1 millisecond", "1500 milliseconds", "1 microsecond", "1 year 2 months 3 days 4 hours 5 minutes 6 seconds", "-1 day", "-3 months",
                    "-2 hours", "1 month -1 day", "0 days", "0 seconds", "14 months", "1 day 1 day", "1 min", "5 mins", "1 sec", "30 secs", "1.5 seconds",
                    "1.005 seconds", "1.5 days", "1.5 hours", "0.5 months", "1.5 years", "-1.5 days", "1 nanosecond", "1.5 nanoseconds", "1 DAY", "1 Day", "1  day",
                    " 1 day", "1 day ", "1day", "1 d", "1 mon", "1 mons", "2 mons", "1 year 2 mons", "01:02:03", "1 day 01:02:03", "00:00:01.5", "2.5", "", " ", "1",
                    "-1", "abc", "1 day 2", "day 1", "1 fortnight", "1 decade", "1 century", "1 millenium", "1 millennium", "1e3 days", "nan days", "inf days",
                    "1e30 years", "1e30 seconds", "9223372036 seconds", "9223372037 seconds", "2147483647 days", "2147483648 days", "178956970 years",
                    "178956971 years", "2147483647 months", "2147483648 months", "3000000000 hours", "1e10 weeks", "999999999999 microseconds", "1 day ago", "P1D",
                    "true", "2020-01-01"]
BIN_STRINGS = ["", "a", "abc", "hello world", "é", "日本語", " x ", "00ff", "\tq"]


def sclass(s):
    import re
    if s == "":
        return "empty"
    if s.strip(" \t\n") == "":
        return "blank"
    if s != s.strip(" \t\n"):
        return "surrounding-whitespace"
    if re.match(r"^[+-]?\.?$", s):
        return "no-digits"
    if re.match(r"^[+-]?(inf|infinity|nan)$", s, re.I):
        return "special"
    if re.match(r"^[+-]?([0-9]+\.?[0-9]*|\.[0-9]+)[eE][+-]?[0-9]+$", s):
        return "exponent"
    if re.match(r"^[+-]?([0-9]+\.?[0-9]*|\.[0-9]+)$", s):
        nd = sum(c.isdigit() for c in s)
        return "plain-number" + ("-long" if nd > 18 else "")
    if re.match(r"^[+-]?[0-9]+-[0-9]+-[0-9]+$", s):
        return "date-like"
    return "other"


def corpus(T, rng, thorough):
    k = T.kind
    if k in ("int", "float", "decimal"):
        out = list(NUM_STRINGS)
        if k == "int":
            for b in (T.lo, T.hi):
                out += [str(b - 1), str(b), str(b + 1), "+" + str(abs(b)), "000" + str(abs(b)), str(b) + ".0", str(b) + " "]
        if k == "decimal":
            p, s = T.p, T.s
            ip = "9" * (p - s)
            out += [(ip or "0") + ("." + "9" * s if s else ""), "-" + (ip or "0") + ("." + "9" * s if s else ""), (ip or "0") + "." + "9" * s + "5", (ip or "0") + "." + "9" * s + "4",
                    "1" + "0" * (p - s), "-1" + "0" * (p - s), "9" + ip, "1" * max(1, p - s), "1" * (p - s + 1), "1" * p, "1" * (p + 1), "0." + "0" * s + "5", "0." + "0" * s + "49", "0." + "0" * s + "51",
                    "-0." + "0" * s + "5", "0." + "0" * max(0, s - 1) + "15", "0." + "0" * max(0, s - 1) + "25", "-0." + "0" * max(0, s - 1) + "15", "1." + "1" * s + "5", "1." + "1" * s + "50000000000000000000001",
                    "2." + "2" * s + "5", "0." + "0" * s, "0." + "5" * (s + 1), "9" * 19, "9" * 20, "9" * 21, "-" + "9" * 20, "0." + "9" * 19, "0." + "9" * 20, "0." + "1" * 39, "0." + "1" * 41, "1" * 18 + "." + "1" * 22]
        if k == "float":
            for v in rng.sample(values_for(T, rng, False), 25):
                if v != NAN:
                    out.append(R.f_text(v, T.fmt))
        n = 60 if thorough else 10
        for _ in range(n):
            d = rng.randint(1, 42)
            f = rng.randint(0, 42)
            out.append(rng.choice(["", "-", "+"]) + "".join(rng.choice("0123456789") for _ in range(d)) + ("." + "".join(rng.choice("0123456789") for _ in range(f)) if f else ""))
        out = list(dict.fromkeys(out))
        if k == "decimal":
            # spellings with more digits than the decimal's integer type holds are costly when they crash: bounded number per target
            import re

            def heavy(x):
                m = re.match(r"^[+-]?([0-9]*)\.?([0-9]*)$", x)
                if not m:
                    return False
                nint = len(m.group(1).lstrip("0"))
                cap = 18 if T.p <= 18 else 38
                return nint + min(len(m.group(2)), T.s) > cap or (nint > 0 and nint + T.s >= cap)
            hv = [x for x in out if heavy(x)]
            keep = set(rng.sample(hv, min(len(hv), 14 if thorough else 4)))
            out = [x for x in out if x in keep or not heavy(x)]
        return out
    if k == "date":
        out = list(DATE_STRINGS)
        for _ in range(200 if thorough else 30):
            out.append(f"{rng.randint(0, 9999):04d}-{rng.randint(0, 13):02d}-{rng.randint(0, 32):02d}")
        return list(dict.fromkeys(out + ["1", "true", "1 day"]))
    if k == "bool":
        return list(dict.fromkeys(BOOL_STRINGS))
    if k == "interval":
        return list(dict.fromkeys(INTERVAL_STRINGS))
    if k == "binary":
        return list(BIN_STRINGS)
    return []


def plan_text(st, has, vals, rng, thorough):
    S = R.TEXT
    st.text_obs = {}      # T.key -> {string: const-context observation}
    for T in R.ALL:
        if not has(S, T):
            continue
        strs = corpus(T, rng, thorough)
        sure = [s for s in strs if R.text_expect(T, s)[0] == "val"]
        rest = [s for s in strs if R.text_expect(T, s)[0] != "val"]
        for k in range(0, len(sure), 40):
            part = sure[k:k + 40]
            st.add(f"tc/{T.key}/{k}", [{"sql": "select " + ", ".join(sel(T, R.lit(S, s)) for s in part)}], {"kind": "tc", "T": T, "strs": part})
        for i, s in enumerate(rest):
            st.add(f"tp/{T.key}/{i}", [{"sql": f"select 0, {sel(T, R.lit(S, s))}"}], {"kind": "tp", "T": T, "s": s})


def judge_text(st, T, s, obs, ctx, case):
    chk = st.chk
    conv = R.conv_name(R.TEXT, T)
    chk.evaluated()
    chk.count("text_" + ctx)
    exp = R.text_expect(T, s)
    cls = sclass(s)
    if T.kind == "interval" and R.interval_simple(s) == "overflow":
        cls = "component-overflow"
    what = f"CAST('{s[:80]}{'...' if len(s) > 80 else ''}' AS {T.sql}) [{ctx}]"
    rp = {"cases": [case], "run_kw": {"env": ENV}}
    if obs is None:
        chk.violation({"kind": "null-result", "conv": conv}, f"{what}: NULL", rp)
        return
    if obs != ERR and T.kind == "decimal" and abs(obs) >= 10 ** T.p:
        chk.violation({"kind": "precision-overflow", "conv": conv}, f"{what}: got {show(T, obs)}: more than {T.p} digits", rp)
        return
    if exp[0] == "val":
        if obs == ERR:
            chk.violation({"kind": "text-rejected", "conv": conv, "class": cls}, f"{what}: rejected; expected {({r: show(T, o) for r, o in exp[1].items()})}", rp)
            return
        if obs not in exp[1].values():
            chk.violation({"kind": "text-wrong-value", "conv": conv, "class": cls}, f"{what}: got {show(T, obs)}; expected {({r: show(T, o) for r, o in exp[1].items()})}", rp)
            return
        note_rules(st, R.rule_kind(R.TEXT, T), exp[1], obs, f"{what} = {show(T, obs)}")
    elif exp[0] == "err":
        if obs != ERR:
            chk.violation({"kind": "text-accepted", "conv": conv, "class": cls}, f"{what}: accepted as {show(T, obs)}; such a spelling must be rejected", rp)
            return
    else:
        if obs != ERR and not exp[1](obs):
            chk.violation({"kind": "text-inconsistent-value", "conv": conv, "class": cls}, f"{what}: accepted as {show(T, obs)}, which is not what the text spells", rp)
            return
        chk.count("text_impl_defined_" + ("accepted" if obs != ERR else "rejected"))
    chk.nontrivial(("text", T.key, cls, "err" if obs == ERR else "val", ctx, s[:24]))


def judge_tc(st, job, res, case):
    chk = st.chk
    T = job["T"]
    conv = R.conv_name(R.TEXT, T)
    s0 = res["steps"][0] if "steps" in res else None
    if s0 is None or s0["outcome"] != "rows":
        # some spelling failed or panicked: one by one
        for s in job["strs"]:
            st.text_reruns.append((T, s))
        return
    try:
        got = [None if x is None else R.from_json(T, x) for x in s0["rows"][0]]
    except (ValueError, KeyError, TypeError) as e:
        chk.violation({"kind": "result-type", "conv": conv}, f"{case['id']}: {e}", {"cases": [case], "run_kw": {"env": ENV}})
        return
    for s, g in zip(job["strs"], got):
        st.text_obs.setdefault(T.key, {})[s] = g
        judge_text(st, T, s, g, "const", case)


def judge_tp(st, job, res, case):
    chk = st.chk
    T, s = job["T"], job["s"]
    conv = R.conv_name(R.TEXT, T)
    if died_or_panic(chk, res, case, f"CAST('{s[:80]}' AS {T.sql}) [{sclass(s)}]", conv) is not None:
        chk.evaluated()
        chk.nontrivial(("text", T.key, sclass(s), "panic"))
        return
    r = obs_rows(T, res["steps"][0])
    if r[0] == "err":
        st.text_obs.setdefault(T.key, {})[s] = ERR
        judge_text(st, T, s, ERR, "const", case)
    elif r[0] == "rows":
        st.text_obs.setdefault(T.key, {})[s] = r[1].get(0)
        judge_text(st, T, s, r[1].get(0), "const", case)
    else:
        chk.violation({"kind": "result-type", "conv": conv}, f"{case['id']}: {r[1]}", {"cases": [case], "run_kw": {"env": ENV}})


def text_hook(st, has, rng, thorough):
    """After the constant-context round: re-probe failed groups one by one; then the column-context batches."""
    S = R.TEXT
    rer, st.text_reruns = st.text_reruns, []
    for i, (T, s) in enumerate(rer):
        st.add(f"tr/{T.key}/{st.n}", [{"sql": f"select 0, {sel(T, R.lit(S, s))}"}], {"kind": "tp", "T": T, "s": s})
        st.n += 1
    if rer or st.text_batched:
        return
    st.text_batched = True
    for T in R.ALL:
        obs = st.text_obs.get(T.key)
        if not obs:
            continue
        acc = [(i, s) for i, s in enumerate(s for s, o in obs.items() if o != ERR and o is not None)]
        rej = [s for s, o in obs.items() if o == ERR]
        if not acc:
            continue
        steps = load_steps("st", S, acc)
        n0 = len(steps)
        steps += [{"sql": f"select id, CAST(v AS {T.sql}) from st"}, {"sql": f"select id, v::{T.sql} from st"},
                  {"sql": f"create temp table dst (id int, w {T.sql})"}, {"sql": "insert into dst select id, v from st", "out": "count"}, {"sql": "select id, w from dst"}]
        mixed = rng.choice(rej) if rej else None
        if mixed is not None:
            steps += [{"sql": f"insert into st values (1000000,{R.lit(S, mixed)})", "out": "count"}, {"sql": f"select id, CAST(v AS {T.sql}) from st"}]
        st.add(f"tb/{T.key}", steps, {"kind": "tb", "T": T, "acc": acc, "n0": n0, "mixed": mixed})


def judge_tb(st, job, res, case):
    chk = st.chk
    T = job["T"]
    conv = R.conv_name(R.TEXT, T)
    n0 = job["n0"]
    if died_or_panic(chk, res, case, case["id"], conv) is not None:
        return
    steps = res["steps"]
    want = {i: st.text_obs[T.key][s] for i, s in job["acc"]}
    names = {i: s for i, s in job["acc"]}
    if any(s["outcome"] not in ("rows", "empty") for s in steps[:n0]):
        chk.inconc("text batch could not be loaded")
        return
    for name, idx in (("column", n0), ("colons", n0 + 1), ("insert", n0 + 4)):
        if name == "insert" and (steps[n0 + 2]["outcome"] not in ("rows", "empty") or steps[n0 + 3]["outcome"] not in ("rows", "empty")):
            chk.count("insert_route_unavailable")
            msg = steps[n0 + 3].get("error", "") if steps[n0 + 3]["outcome"] == "error" else ""
            if "Failed to" in msg:
                chk.violation({"kind": "context-disagree", "conv": conv, "route": "insert-error"}, f"{case['id']}: INSERT..SELECT of spellings accepted in constant context fails: {msg[:160]}", {"cases": [case], "run_kw": {"env": ENV}})
            continue
        r = obs_rows(T, steps[idx])
        chk.evaluated(len(want))
        if r[0] != "rows" or r[1] != want:
            diff = [(names[i], show(T, want[i]), show(T, r[1].get(i)) if r[0] == "rows" else r[1]) for i in want if r[0] != "rows" or r[1].get(i) != want[i]][:3]
            chk.violation({"kind": "context-disagree", "conv": conv, "route": name}, f"{case['id']}: {name} context differs from constant context: (text, const, {name}) {diff}", {"cases": [case], "run_kw": {"env": ENV}})
        else:
            chk.count("text_ctx_agree_" + name, len(want))
            chk.nontrivial(("text-ctx", T.key, name))
    if job["mixed"] is not None:
        m = obs_rows(T, steps[n0 + 6])
        chk.evaluated()
        if m[0] == "rows":
            val = m[1].get(1000000)
            chk.violation({"kind": "error-became-null" if val is None else "failing-row-has-value", "conv": conv},
                          f"{case['id']}: batch containing '{job['mixed'][:60]}' (rejected in constant context) returned rows; that row = {show(T, val)}", {"cases": [case], "run_kw": {"env": ENV}})
        elif m[0] == "err":
            chk.count("mixed_batch_errors")


JUDGES.update({"tc": judge_tc, "tp": judge_tp, "tb": judge_tb})
EXTRA_PLANS.append(plan_text)
ROUND_HOOKS.append(text_hook)


# ====================================================================== TEXT round trip
def rt_feature(T, v):
    if T.kind != "interval":
        return "any"
    m, d, ns = v
    if m < 0 or d < 0 or ns < 0:
        return "negative-component"
    if ns % 10 ** 6:
        return "sub-millisecond"
    if ns % 10 ** 9:
        return "milliseconds"
    if m:
        return "months"
    if ns:
        return "time"
    if d:
        return "days"
    return "zero"


def type_name(T):
    return T.key if T.kind == "float" else T.kind


def plan_roundtrip(st, has, vals, rng, thorough):
    for T in R.ALL:
        if T.kind == "text" or not (has(T, R.TEXT) and has(R.TEXT, T)):
            continue
        items = list(enumerate(vals[T.key]))
        if not items:
            continue
        steps = load_steps("src", T, items)
        n0 = len(steps)
        steps += [{"sql": "select id, v from src"}, {"sql": "create temp table rt as select id, CAST(v AS text) as s from src"},
                  {"sql": "select id, s from rt"}, {"sql": f"select id, CAST(s AS {T.sql}) from rt"}]
        st.add(f"rt/{T.key}", steps, {"kind": "rt", "T": T, "items": items, "n0": n0})


def add_rt_probe(st, T, v):
    st.add(f"rtp/{T.key}/{st.n}", [{"sql": f"create temp table e as select {R.lit(T, v)} as v"}, {"sql": "select 0, v from e"},
                                   {"sql": "create temp table f as select CAST(v AS text) as s from e"}, {"sql": "select 0, s from f"},
                                   {"sql": f"select 0, CAST(s AS {T.sql}) from f"}], {"kind": "rtp", "T": T, "v": v})
    st.n += 1


def judge_rt_value(st, T, v, text, back, case):
    """text: str | ERR ; back: canonical | ERR | None"""
    chk = st.chk
    chk.evaluated()
    chk.count("roundtrip_values")
    tn = type_name(T)
    feat = rt_feature(T, v)
    rp = {"cases": [case], "run_kw": {"env": ENV}}
    what = f"{T.sql} {show(T, v)}"
    if text == ERR:
        chk.violation({"kind": "roundtrip", "type": tn, "class": "format-error", "feature": feat}, f"{what}: CAST(.. AS TEXT) fails", rp)
        return
    if T.kind in ("int", "decimal") and text != R.src_text(T, v):
        chk.violation({"kind": "text-format", "type": tn}, f"{what}: formatted as '{text}'", rp)
        return
    if back == ERR:
        chk.violation({"kind": "roundtrip", "type": tn, "class": "reparse-error", "feature": feat}, f"{what}: formatted as '{text[:120]}', which CAST(.. AS {T.sql}) rejects", rp)
        return
    if back != v:
        chk.violation({"kind": "roundtrip", "type": tn, "class": "value-changed", "feature": feat}, f"{what}: formatted as '{text[:120]}', parsed back as {show(T, back)}", rp)
        return
    chk.nontrivial(("rt", T.key, vclass(T, v) if T.kind in R.NUMERIC else feat, str(v)[:20] if T.kind not in R.NUMERIC else ""))


def judge_rt(st, job, res, case):
    chk = st.chk
    T = job["T"]
    items, n0 = job["items"], job["n0"]
    steps = res["steps"]
    pidx = died_or_panic(chk, res, case, case["id"], R.conv_name(T, R.TEXT) + "->" + type_name(T))
    if any(s["outcome"] not in ("rows", "empty") for s in steps[:n0]):
        for _, v in items:
            add_rt_probe(st, T, v)
        return
    echo = obs_rows(T, steps[n0])
    good = [(i, v) for i, v in items if echo[0] == "rows" and echo[1].get(i) == v]
    chk.count("roundtrip_source_not_loadable", len(items) - len(good))
    texts = obs_rows(R.TEXT, steps[n0 + 2])
    back = obs_rows(T, steps[n0 + 3])
    if steps[n0 + 1]["outcome"] not in ("rows", "empty") or texts[0] != "rows" or back[0] != "rows":
        if pidx is None:
            chk.count("roundtrip_batch_failed")
        lst = good if len(good) <= 400 else rng_sample(st, good, 400)
        for _, v in lst:
            add_rt_probe(st, T, v)
        return
    for i, v in good:
        judge_rt_value(st, T, v, texts[1].get(i), back[1].get(i), case)
    chk.sample({"case": case["id"], "sql": case["steps"][n0 + 3]["sql"], "values": len(good)}, cap=14)


def rng_sample(st, lst, n):
    return st.chk.rng.sample(lst, n)


def judge_rtp(st, job, res, case):
    chk = st.chk
    T, v = job["T"], job["v"]
    steps = res["steps"]
    if died_or_panic(chk, res, case, f"{case['id']} ({T.sql} {show(T, v)} through TEXT)", R.conv_name(T, R.TEXT) + "->" + type_name(T)) is not None:
        chk.evaluated()
        return
    if steps[0]["outcome"] not in ("rows", "empty"):
        chk.count("roundtrip_source_not_loadable")
        return
    echo = obs_rows(T, steps[1])
    if echo[0] != "rows" or echo[1].get(0) != v:
        chk.count("roundtrip_source_not_loadable")
        return
    if steps[2]["outcome"] == "error":
        judge_rt_value(st, T, v, ERR, None, case)
        return
    t = obs_rows(R.TEXT, steps[3])
    b = obs_rows(T, steps[4])
    if t[0] != "rows" or b[0] not in ("rows", "err"):
        chk.violation({"kind": "result-type", "conv": "roundtrip"}, f"{case['id']}: {t[1] if t[0] != 'rows' else b[1]}", {"cases": [case], "run_kw": {"env": ENV}})
        return
    judge_rt_value(st, T, v, t[1].get(0), ERR if b[0] == "err" else b[1].get(0), case)


JUDGES.update({"rt": judge_rt, "rtp": judge_rtp})
EXTRA_PLANS.append(plan_roundtrip)


# ====================================================================== chained casts
def plan_chains(st, has, vals, rng, thorough):
    prim = R.INTS + R.FLOATS
    triples = [(S, M, T) for S in prim for M in prim for T in prim if S is not M and M is not T and has(S, M) and has(M, T)]
    if not thorough:
        fixed = {("double", "real", "double"), ("double", "half", "double"), ("int", "smallint", "bigint"), ("smallint", "half", "int"), ("real", "tinyint", "double"),
                 ("bigint", "double", "bigint"), ("usmallint", "utinyint", "uint"), ("half", "utinyint", "real")}
        keep = [t for t in triples if (t[0].key, t[1].key, t[2].key) in fixed]
        triples = keep + rng.sample([t for t in triples if t not in keep], min(len(triples) - len(keep), 150))
    for (S, M, T) in triples:
        pool = vals[S.key]
        pool = pool if len(pool) <= 400 else rng.sample(pool, 400)
        comp = {}
        for v in pool:
            mid = R.primary(S, M, v)
            comp[v] = ERR if mid == ERR else R.primary(M, T, mid)
        lossy = [v for v in pool if comp[v] != ERR and comp[v] != R.primary(S, T, v)]
        ok = [v for v in pool if comp[v] != ERR]
        bad = [v for v in pool if comp[v] == ERR]
        pick = rng.sample(lossy, min(len(lossy), 12)) + rng.sample(ok, min(len(ok), 12))
        pick = list(dict.fromkeys(pick))
        if pick:
            items = list(enumerate(pick))
            steps = load_steps("src", S, items)
            steps += [{"sql": "select id, v from src"}, {"sql": f"select id, CAST(CAST(v AS {M.sql}) AS {T.sql}) from src"},
                      {"sql": f"select id, v::{M.sql}::{T.sql} from src"}]
            st.add(f"ch/{S.key}/{M.key}/{T.key}", steps, {"kind": "ch", "S": S, "M": M, "T": T, "items": items, "want": {v: comp[v] for v in pick}})
        for v in rng.sample(bad, min(len(bad), 8 if thorough else 3)):
            steps = [{"sql": f"create temp table e as select {R.lit(S, v)} as v"}, {"sql": "select 0, v from e"},
                     {"sql": f"select 0, CAST(CAST(v AS {M.sql}) AS {T.sql}) from e"}]
            st.add(f"chp/{S.key}/{M.key}/{T.key}/{st.n}", steps, {"kind": "ch", "S": S, "M": M, "T": T, "items": [(0, v)], "want": {v: ERR}})
            st.n += 1


def judge_ch(st, job, res, case):
    chk = st.chk
    S, M, T = job["S"], job["M"], job["T"]
    shape = f"{S.kind}-{M.kind}-{T.kind}"
    name = f"{S.sql}->{M.sql}->{T.sql}"
    if died_or_panic(chk, res, case, case["id"], name) is not None:
        return
    steps = res["steps"]
    items = job["items"]
    n0 = len(steps) - (3 if case["id"].startswith("ch/") else 2)
    if any(s["outcome"] not in ("rows", "empty") for s in steps[:n0]):
        chk.count("chain_source_not_loadable")
        return
    echo = obs_rows(S, steps[n0])
    if echo[0] != "rows" or any(echo[1].get(i) != v for i, v in items):
        chk.count("chain_source_not_loadable")
        return
    for s in steps[n0 + 1:]:
        r = obs_rows(T, s)
        for i, v in items:
            chk.evaluated()
            want = job["want"][v]
            got = ERR if r[0] == "err" else (r[1].get(i) if r[0] == "rows" else ("bad", r[1]))
            if got == want:
                chk.count("chain_ok")
                chk.nontrivial(("chain", S.key, M.key, T.key, "err" if want == ERR else "val"))
                continue
            if r[0] == "err" and len(items) > 1:
                # a batch error hides the per-row outcome: not judged here (the probes cover expected failures)
                chk.count("chain_batch_error")
                break
            direct = R.primary(S, T, v)
            cls = "inner-cast-skipped" if got == direct else "wrong-value"
            chk.violation({"kind": "chain-cast", "class": cls, "shape": shape},
                          f"CAST(CAST({S.sql} {show(S, v)} AS {M.sql}) AS {T.sql}): got {show(T, got) if not isinstance(got, tuple) else got}; the inner cast yields {show(M, R.primary(S, M, v))}, so the result must be {show(T, want)}",
                          {"cases": [case], "run_kw": {"env": ENV}})


JUDGES["ch"] = judge_ch
EXTRA_PLANS.append(plan_chains)


# ====================================================================== remaining pairs: integer -> DATE, TIMESTAMP -> TEXT, BINARY
def plan_misc(st, has, vals, rng, thorough):
    D = R.DATE_AS_INT
    for S in R.INTS:
        if has(S, R.DATE):
            pool = vals[S.key]
            pool = pool if len(pool) <= 3000 else rng.sample(pool, 3000)
            plan_numeric(st, S, D, pool, rng, thorough)
    if has(R.TS, R.TEXT):
        ns = sorted({0, 1, -1, 999, 1000, 1675209600500, -62135596800000, 253402300799999, 951782400000, 951868800000, 4107542400000, -2208988800000,
                     86399999, 86400000, -86400001} | {rng.randint(-62135596800000, 253402300799999) for _ in range(300 if thorough else 60)})
        items = list(enumerate(ns))
        steps = [{"sql": "create temp table tsrc (id int, n bigint)"}, {"sql": "insert into tsrc values " + ",".join(f"({i},{n})" for i, n in items), "out": "count"},
                 {"sql": "select id, epoch_ms(n) from tsrc"}, {"sql": "select id, CAST(epoch_ms(n) AS text) from tsrc"}]
        st.add("ts/text", steps, {"kind": "ts", "items": items})


def judge_ts(st, job, res, case):
    import re, datetime
    chk = st.chk
    if died_or_panic(chk, res, case, case["id"], "timestamp->text") is not None:
        return
    steps = res["steps"]
    if steps[2]["outcome"] != "rows" or steps[3]["outcome"] != "rows":
        chk.count("timestamp_section_unavailable")
        return
    tsv = {r[0]: r[1] for r in steps[2]["rows"]}
    txt = {r[0]: r[1] for r in steps[3]["rows"]}
    for i, n in job["items"]:
        chk.evaluated()
        v = tsv.get(i)
        if not (isinstance(v, dict) and "ts" in v and R.big(v["ts"][1]) == n * 1000):
            chk.count("timestamp_source_unexpected")
            continue
        t = txt.get(i)
        m = re.match(r"^([+-]?\d{4,6})-(\d\d)-(\d\d) (\d\d):(\d\d):(\d\d)(?:\.(\d+))? UTC$", t or "")
        ok = False
        if m:
            y, mo, d, h, mi, s = (int(x) for x in m.groups()[:6])
            frac = Fraction(int(m.group(7)), 10 ** len(m.group(7))) if m.group(7) else 0
            days = R.days_from_civil(y, mo, d)
            if days is not None and h < 24 and mi < 60 and s < 60:
                ok = (Fraction(days * 86400 + h * 3600 + mi * 60 + s) + frac) * 1000 == n
        if not ok:
            chk.violation({"kind": "timestamp-format"}, f"timestamp {n} ms since epoch formats as '{t}', which does not denote that instant", {"cases": [case], "run_kw": {"env": ENV}})
        else:
            chk.count("timestamp_text_ok")
            chk.nontrivial(("ts", n % 1000 == 0, n < 0, n // (86400000 * 3650)))


JUDGES["ts"] = judge_ts
EXTRA_PLANS.append(plan_misc)


# ====================================================================== BINARY -> TEXT over arbitrary bytes (loaded from Parquet files)
def plan_binary(st, has, vals, rng, thorough):
    if not has(R.BINARY, R.TEXT):
        return
    try:
        from vf import pqwrite as pq
    except Exception:
        st.chk.count("binary_section_unavailable")
        return
    d = vrun.tmpdir("c13")
    valid = [b"", b"abc", "é".encode(), "日本語 text".encode(), b"x" * 100, "\U0001F600".encode(), b"\x00", b"a\tb"]
    invalid = [b"\xff", b"\xff\xfe", b"\xc3", b"a\x80b", b"\xe2\x82", b"\xed\xa0\x80", b"\xf8\x88\x80\x80\x80", b"\xc0\xaf", b"long enough to be out of line \xff"]

    def write(name, values):
        path = f"{d}/{name}.parquet"
        pq.write_file(path, [pq.Col("b", "BYTE_ARRAY", optional=False)], [[(v,) for v in values]])
        return path
    try:
        p = write("valid", valid)
        st.add("bin/valid", [{"sql": "set partitions to 1"}, {"sql": f"select b from read_parquet('{p}')"}, {"sql": f"select CAST(b AS text) from read_parquet('{p}')"}],
               {"kind": "bin", "vals": valid, "valid": True})
        for i, v in enumerate(invalid if thorough else invalid[:5]):
            p = write(f"inv{i}", [b"ok", v, b"also ok"])
            st.add(f"bin/invalid/{i}", [{"sql": "set partitions to 1"}, {"sql": f"select b from read_parquet('{p}')"}, {"sql": f"select CAST(b AS text) from read_parquet('{p}')"}],
                   {"kind": "bin", "vals": [b"ok", v, b"also ok"], "valid": False})
    except Exception as e:
        st.chk.count("binary_section_unavailable")


def judge_bin(st, job, res, case):
    chk = st.chk
    chk.evaluated()
    what = f"{case['id']} (BINARY {[v.hex() for v in job['vals']]} -> TEXT)"
    rp = {"cases": [case], "run_kw": {"env": ENV}}
    if "died" in res or any(s["outcome"] == "panic" for s in res["steps"]):
        # the output slot of the failing row is left unwritten: what happens next depends on uninitialised memory, so the
        # crash message varies from run to run -> fixed signature
        info = res["died"].get("panic_hook") if "died" in res else next(s for s in res["steps"] if s["outcome"] == "panic").get("panic_msg")
        if job["valid"]:
            chk.violation(dict(outcome_signature(res if "died" in res else next(s for s in res["steps"] if s["outcome"] == "panic")), conv="binary->text"), f"{what}: crash {str(info)[:300]}", rp)
        else:
            chk.violation({"kind": "invalid-utf8-accepted", "conv": "binary->text"}, f"{what}: bytes that are not UTF-8: no error, the engine crashes instead: {str(info)[:300]}", rp)
        return
    steps = res["steps"]
    if steps[1]["outcome"] != "rows" or [R.from_json(R.BINARY, r[0]) for r in steps[1]["rows"]] != job["vals"]:
        chk.count("binary_source_not_loadable")
        return
    s = steps[2]
    if job["valid"]:
        if s["outcome"] != "rows" or [r[0] for r in s["rows"]] != [v.decode() for v in job["vals"]]:
            chk.violation({"kind": "wrong-value", "conv": "binary->text"}, f"{what}: {str(s)[:300]}", rp)
        else:
            chk.nontrivial(("bin", "valid"))
    else:
        if s["outcome"] == "error":
            chk.nontrivial(("bin", "invalid", case["id"]))
        else:
            chk.violation({"kind": "invalid-utf8-accepted", "conv": "binary->text"}, f"{what}: bytes that are not UTF-8 were cast to TEXT without an error: {str(s.get('rows'))[:200]}", rp)


JUDGES["bin"] = judge_bin
EXTRA_PLANS.append(plan_binary)
