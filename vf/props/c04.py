"""C04 — every schedule terminates with the same result; no wake-up is lost.

det executor: a catalogue of barrier-bearing query shapes x data sizes x partitions is run first sequentially
(fifo, 1 partition = the reference) and then under many controlled schedules (policies fifo/lifo/random/pct/starve/
client_first/client_last, H1 yields, spurious polls, duplicated wakes). Logical deadlock/divergence, a result that
differs from the reference, an injected task error that does not reach the client, or an H1 protocol violation
refute the property. native executor: the same shapes on the production thread pool with H2 pauses; the H2 event log
is replayed against the 4-flag state machine; cancellation must end the stream.
"""
import json
from vf import run as vrun
from vf import compare, knowncases
from vf.core import outcome_signature

BUDGET = 3_000_000


LIM_BASES = ["join_inner", "join_left", "join_right", "join_semi", "join_anti", "join_mark", "join_nlj_ineq", "join_nlj_left", "join_3way", "agg_grouped", "agg_distinct",
             "agg_rollup", "select_distinct", "sort", "union_all", "union_distinct", "cte_mat_1", "cte_mat_2", "cte_mat_3", "scalar_subquery", "derived_join_agg"]


def shapes():
    """name -> (sql template over tables a(k,v,s), b(k,w); {ct} = fresh table name), ordered?, dml?"""
    S = {}
    S["scan_filter"] = "SELECT k, v FROM a WHERE v % 2 = 0"
    S["join_inner"] = "SELECT a.k, a.v, b.w FROM a INNER JOIN b ON a.k = b.k"
    S["join_left"] = "SELECT a.k, a.v, b.w FROM a LEFT JOIN b ON a.k = b.k"
    S["join_right"] = "SELECT a.k, a.v, b.w FROM a RIGHT JOIN b ON a.k = b.k"
    S["join_semi"] = "SELECT a.k, a.v FROM a WHERE a.k IN (SELECT k FROM b)"
    S["join_anti"] = "SELECT a.k, a.v FROM a WHERE NOT EXISTS (SELECT 1 FROM b WHERE b.k = a.k)"
    S["join_mark"] = "SELECT a.k, (a.k IN (SELECT k FROM b WHERE k IS NOT NULL)) AS m FROM a WHERE a.k IS NOT NULL"
    S["join_nlj_ineq"] = "SELECT a.k, b.k FROM a INNER JOIN b ON a.k < b.k"
    S["join_nlj_left"] = "SELECT a.k, b.k FROM a LEFT JOIN b ON (a.k + 1 < b.k)"
    S["join_cross"] = "SELECT count(*) FROM a, b"
    S["join_3way"] = "SELECT a.k, b.w, c.v FROM a INNER JOIN b ON a.k = b.k INNER JOIN a AS c ON b.k = c.k"
    S["agg_grouped"] = "SELECT k, count(*), sum(v), min(s) FROM a GROUP BY k"
    S["agg_ungrouped"] = "SELECT count(*), sum(v), max(s) FROM a"
    S["agg_distinct"] = "SELECT k, count(DISTINCT v), sum(DISTINCT v) FROM a GROUP BY k"
    S["agg_distinct_ungrouped"] = "SELECT count(DISTINCT k), count(DISTINCT s) FROM a"
    S["agg_rollup"] = "SELECT k, v % 3, count(*) FROM a GROUP BY ROLLUP (k, v % 3)"
    S["select_distinct"] = "SELECT DISTINCT k, v % 2 FROM a"
    S["sort"] = "SELECT k, v, s FROM a ORDER BY k NULLS FIRST, v DESC, s"
    S["sort_limit"] = "SELECT k, v, s FROM a ORDER BY v DESC, k NULLS LAST, s LIMIT 7"
    S["limit_early"] = "SELECT v FROM a LIMIT 5"
    S["limit_offset"] = "SELECT v FROM a ORDER BY v, k, s LIMIT 5 OFFSET 3"
    S["union_all"] = "SELECT k, v FROM a UNION ALL SELECT k, w FROM b"
    S["union_distinct"] = "SELECT k FROM a UNION SELECT k FROM b"
    S["cte_mat_1"] = "WITH c AS MATERIALIZED (SELECT k, sum(v) AS sv FROM a GROUP BY k) SELECT * FROM c"
    S["cte_mat_2"] = "WITH c AS MATERIALIZED (SELECT k, v FROM a) SELECT k, v FROM c UNION ALL SELECT k, v + 1 FROM c"
    S["cte_mat_3"] = "WITH c AS MATERIALIZED (SELECT k, v FROM a) SELECT k FROM c WHERE v IN (SELECT v FROM c) UNION ALL SELECT v FROM c"
    S["scalar_subquery"] = "SELECT a.k, (SELECT max(w) FROM b WHERE b.k = a.k) FROM a"
    S["derived_join_agg"] = "SELECT d.k, d.n, b.w FROM (SELECT k, count(*) AS n FROM a GROUP BY k) AS d INNER JOIN b ON d.k = b.k"
    S["series_big"] = "SELECT x, x % 7 FROM generate_series(1, 3000) g(x)"
    # LIMIT satisfied early above every barrier-bearing shape: the pipelines cut short by the exhausted LIMIT must not leave
    # their siblings waiting on a barrier
    for base in LIM_BASES:
        S["lim_" + base] = f"SELECT * FROM ({S[base]}) q LIMIT 3"
    S["lim_union_distinct_agg"] = "SELECT k FROM a GROUP BY k HAVING count(DISTINCT v) >= 0 UNION ALL SELECT k FROM b LIMIT 3"
    S["ctas"] = "CREATE TEMP TABLE {ct} AS SELECT a.k, a.v, b.w FROM a INNER JOIN b ON a.k = b.k"
    S["insert_select"] = "INSERT INTO sink SELECT k, v FROM a WHERE v % 2 = 1"
    return S


ORDERED = {"sort": [(1, None, "first", "ord"), (2, True, None, "ord"), (3, None, None, "ord")],
           "sort_limit": None, "limit_offset": None}


def data_sql(n, rng):
    rows_a = []
    for i in range(n):
        k = None if rng.random() < 0.1 else rng.randint(0, max(2, n // 3))
        rows_a.append((k, rng.randint(-20, 20), rng.choice(["a", "bb", "longer than twelve bytes", None])))
    rows_b = []
    for i in range(max(n // 2, 1 if n else 0)):
        k = None if rng.random() < 0.1 else rng.randint(0, max(2, n // 3))
        rows_b.append((k, rng.randint(0, 9)))

    def lit(v):
        return "NULL" if v is None else (f"'{v}'" if isinstance(v, str) else str(v))
    st = ["CREATE TEMP TABLE a (k INT, v INT, s TEXT)", "CREATE TEMP TABLE b (k INT, w INT)", "CREATE TEMP TABLE sink (k INT, v INT)"]
    if rows_a:
        st.append("INSERT INTO a VALUES " + ", ".join("(" + ", ".join((f"CAST({lit(x)} AS {t})" if (i == 0 and (t != "TEXT" or x is None)) else lit(x)) for x, t in zip(r, ("INT", "INT", "TEXT"))) + ")" for i, r in enumerate(rows_a)))
    if rows_b:
        st.append("INSERT INTO b VALUES " + ", ".join("(" + ", ".join((f"CAST({lit(x)} AS INT)" if i == 0 else lit(x)) for x in r) + ")" for i, r in enumerate(rows_b)))
    return st


def schedules(rng, n, thorough):
    out = []
    pols = ["fifo", "lifo", "random", "pct", "starve", "client_last", "client_first", "random"]
    for i in range(n):
        pol = pols[i % len(pols)]
        ex = {"kind": "det", "policy": pol, "seed": rng.randint(0, 1 << 30), "step_budget": BUDGET,
              "yield_p": rng.choice([0, 0.02, 0.2, 1.0]), "spurious_p": rng.choice([0, 0, 0.1]), "dup_wake_p": rng.choice([0, 0, 0.3])}
        if pol == "pct":
            ex["pct_d"] = rng.choice([1, 2, 3])
            ex["pct_k"] = rng.choice([20, 100, 500])
        if pol == "starve":
            ex["starve_k"] = rng.randint(0, 12)
        out.append(ex)
    return out


def run(chk):
    thorough = chk.tier == "thorough"
    rng = chk.rng
    chk.rule = ("catalogue of query shapes containing every cross-partition barrier (hash/nested-loop joins of each kind, grouped/ungrouped/"
                "DISTINCT aggregates, sorts with/without limit hint, LIMIT early exit, UNION, materialized CTEs with 1-3 readers, CTAS, "
                "INSERT..SELECT, large results) x data sizes {0,1,b,10b} x partitions {1..8} x controlled schedules (7 policies, H1 yields "
                "p in {0,.02,.2,1}, spurious polls, duplicated wakes) on the det executor, reference = fifo with 1 partition; plus the "
                "production thread pool (1/2/4/16 threads, H2 pauses) with offline replay of the scheduler event log and cancellation. "
                "distinct non-trivial = distinct schedule hashes (sequence of (task, poll result)) of runs that completed and were compared")
    chk.assumptions = ["spurious polls and duplicated wakes are legal under the Waker contract (the engine's own comments rely on it)",
                       "a yield between two operator calls is a state a preemptive thread can be descheduled in"]
    knowncases.run_known_cases(chk)
    S = shapes()
    names = sorted(S)
    sizes = [0, 1, 8, 80]
    parts_all = [1, 2, 3, 4, 8]
    n_sched = 40 if thorough else 8
    cases = []
    meta = {}
    cid = 0
    for name in names:
        for n in sizes:
            plist = parts_all if thorough else rng.sample(parts_all[1:], 2)
            for p in plist:
                if name == "series_big" and n != 8:
                    continue
                cid += 1
                load = data_sql(n, rng)
                bs = rng.choice([1, 2, 8, 64, 2048]) if n <= 8 else rng.choice([8, 64, 2048])
                steps = [{"sql": s, "out": "count"} for s in load]
                steps.append({"sql": f"SET batch_size TO {bs}", "out": "count"})
                nload = len(steps)
                sql = S[name]
                # reference: sequential
                steps.append({"sql": "SET partitions TO 1", "out": "count"})
                steps.append({"sql": sql.format(ct="ct_ref"), "exec": {"kind": "det", "policy": "fifo", "step_budget": BUDGET}})
                if name == "ctas":
                    steps.append({"sql": "SELECT * FROM ct_ref"})
                if name == "insert_select":
                    steps.append({"sql": "SELECT * FROM sink"})
                    steps.append({"sql": "CREATE TEMP TABLE sink2 (k INT, v INT)", "out": "count"})
                steps.append({"sql": f"SET partitions TO {p}", "out": "count"})
                scheds = schedules(rng, n_sched, thorough)
                for si, ex in enumerate(scheds):
                    if name == "insert_select":
                        steps.append({"sql": "CREATE TEMP TABLE sk%d (k INT, v INT)" % si, "out": "count"})
                        steps.append({"sql": sql.replace("INTO sink", "INTO sk%d" % si), "exec": ex})
                        steps.append({"sql": "SELECT * FROM sk%d" % si})
                    elif name == "ctas":
                        steps.append({"sql": sql.format(ct="ct_%d" % si), "exec": ex})
                        steps.append({"sql": "SELECT * FROM ct_%d" % si})
                    else:
                        steps.append({"sql": sql, "exec": ex})
                c = {"id": f"c04-{cid}", "exec": {"kind": "det", "policy": "fifo", "partitions": p, "step_budget": BUDGET}, "steps": steps, "max_rows": 50000}
                cases.append(c)
                meta[c["id"]] = (name, n, p, bs, nload, len(scheds))
    # error injection: one partition of one pipeline fails mid-way, below/above a barrier
    err_shapes = {
        "err_scan": "SELECT k, CAST(s AS INT) FROM e",
        "err_build_side": "SELECT a.k FROM a INNER JOIN (SELECT CAST(s AS INT) AS k FROM e) x ON a.k = x.k",
        "err_probe_side": "SELECT x.k FROM (SELECT CAST(s AS INT) AS k FROM e) x INNER JOIN b ON x.k = b.k",
        "err_agg_arg": "SELECT g, sum(CAST(s AS INT)) FROM e GROUP BY g",
        "err_sort_key": "SELECT g FROM e ORDER BY CAST(s AS INT)",
        "err_case_gated": "SELECT sum(CASE WHEN g = 77 THEN debug_error_on_execute() ELSE g END) FROM e",
        "err_in_cte": "WITH c AS MATERIALIZED (SELECT CAST(s AS INT) AS k FROM e) SELECT count(*) FROM c",
        "err_ctas": "CREATE TEMP TABLE {ct} AS SELECT CAST(s AS INT) AS k FROM e",
    }
    for name, sql in sorted(err_shapes.items()):
        for pos in ("first", "middle", "last"):
            for p in ([2, 4] if not thorough else [1, 2, 3, 4, 8]):
                cid += 1
                n = 60
                bad = {"first": 0, "middle": n // 2, "last": n - 1}[pos]
                rows = ", ".join(f"({77 if i == bad else i % 5}, '{'x' if i == bad else i}')" for i in range(n))
                load = data_sql(12, rng) + ["CREATE TEMP TABLE e (g INT, s TEXT)", f"INSERT INTO e VALUES {rows}"]
                steps = [{"sql": s, "out": "count"} for s in load]
                steps.append({"sql": f"SET batch_size TO {rng.choice([4, 16, 2048])}", "out": "count"})
                steps.append({"sql": f"SET partitions TO {p}", "out": "count"})
                nload = len(steps)
                for si, ex in enumerate(schedules(rng, 12 if thorough else 4, thorough)):
                    steps.append({"sql": sql.format(ct="ce_%d" % si), "exec": ex})
                    steps.append({"sql": "SELECT 1"})   # the session must still answer
                c = {"id": f"c04-{cid}", "exec": {"kind": "det", "policy": "fifo", "partitions": p, "step_budget": BUDGET}, "steps": steps}
                cases.append(c)
                meta[c["id"]] = ("ERR:" + name, n, p, 0, nload, 0)

    results, m = vrun.run_sharded(cases, shards=16, wall_s=3000 if thorough else 900)
    chk.extra["process_restarts"] = m["restarts"]
    sched_hashes = set()
    barrier_states = {}
    for c in cases:
        name, n, p, bs, nload, ns = meta[c["id"]]
        res = results.get(c["id"])
        if res is None or "not_run" in res or "fatal" in res:
            chk.inconc("case not run")
            continue
        if "died" in res:
            chk.violation(outcome_signature(res), f"{name} n={n} p={p}: process died {json.dumps(res['died'])[:300]}", {"cases": [c]})
            continue
        for k, v in res.get("op_counts", {}).items():
            if k.endswith("/Pending"):
                barrier_states[k] = barrier_states.get(k, 0) + v
        steps = res["steps"]
        if any(st["outcome"] not in ("rows", "empty") for st in steps[:nload]):
            chk.inconc("setup failed")
            continue
        if name.startswith("ERR:"):
            judge_err(chk, c, steps, nload, name, p, sched_hashes)
            continue
        # locate reference result
        idx = nload + 1
        ref = steps[idx]
        if name in ("ctas", "insert_select"):
            ref_content = steps[idx + 1]
        else:
            ref_content = None
        if ref["outcome"] not in ("rows", "empty"):
            chk.violation({"kind": "reference-run-failed", "shape": name, "outcome": ref["outcome"]}, f"{name} n={n}: sequential run: {json.dumps(ref)[:300]}", {"cases": [c]})
            continue
        ref_rows = [compare.dec_row(r) for r in ref.get("rows", [])]
        j = idx + 1 + (1 if name == "ctas" else 2 if name == "insert_select" else 0) + 1
        while j < len(steps):
            sql = c["steps"][j]["sql"]
            ex = c["steps"][j].get("exec")
            st = steps[j]
            if ex is None:
                j += 1
                continue
            chk.evaluated()
            what = f"{name} n={n} partitions={p} batch={bs} schedule={json.dumps(ex)}"
            if st["outcome"] == "skipped":
                break
            if st["outcome"] in ("deadlock", "diverged"):
                sig = {"kind": "outcome", "class": st["outcome"], "deadlock_kind": st.get("deadlock_kind"), "parked_ops": st.get("parked_ops")}
                if name.startswith("lim_"):
                    sig["limit_over"] = name[4:]
                chk.violation(sig, f"{what}: {st['outcome']} ({st.get('deadlock_kind')}) parked at {st.get('parked_ops')}\n{sql}", {"cases": [c]})
                j += 1
                continue
            if st["outcome"] == "panic":
                chk.violation(outcome_signature(st), f"{what}: panic {st.get('panic_msg')} @ {st.get('panic_loc')}", {"cases": [c]})
                break
            pv = st.get("stats", {}).get("protocol_violations")
            if pv:
                chk.violation({"kind": "protocol", "what": pv[0].split(":")[0]}, f"{what}: H1 protocol monitor: {pv}", {"cases": [c]})
            if st["outcome"] not in ("rows", "empty"):
                chk.violation({"kind": "schedule-dependent-outcome", "shape": name, "outcome": st["outcome"]}, f"{what}: {st['outcome']} {(st.get('error') or '')[:200]} but the sequential run returned rows", {"cases": [c]})
                j += 1
                continue
            content = st
            if name in ("ctas", "insert_select"):
                # counts must agree, then the table contents
                if st.get("rows") != ref.get("rows"):
                    chk.violation({"kind": "schedule-dependent-result", "shape": name, "what": "count"}, f"{what}: reported {st.get('rows')} vs sequential {ref.get('rows')}", {"cases": [c]})
                content = steps[j + 1]
                cmp_ref = [compare.dec_row(r) for r in ref_content.get("rows", [])]
            else:
                cmp_ref = ref_rows
            rows = [compare.dec_row(r) for r in content.get("rows", [])]
            if name in ("sort_limit", "limit_offset"):
                ok, why = (rows == cmp_ref, "ordered slice differs (total order keys)")
            elif name == "limit_early" or name.startswith("lim_"):
                ok, why = (len(rows) == len(cmp_ref), "LIMIT row count differs")
                if ok:
                    full = [compare.dec_row(r) for r in []]
            else:
                ok, why = compare.bag_equal(cmp_ref, rows)
                if ok and name == "sort":
                    ok2, i = compare.is_sorted(rows, ORDERED["sort"])
                    if not ok2:
                        ok, why = False, f"rows {i},{i+1} out of order"
            if not ok:
                chk.violation({"kind": "schedule-dependent-result", "shape": name}, f"{what}: {why}\n{sql}\nsequential={cmp_ref[:5]} ({len(cmp_ref)} rows)\nthis={rows[:5]} ({len(rows)} rows)", {"cases": [c]})
            else:
                h = st.get("stats", {}).get("sched_hash")
                if h:
                    sched_hashes.add(h)
                    chk.nontrivial(("sched", h))
            j += 1
        if len(chk.samples) < 6 and n > 1:
            chk.sample({"shape": name, "rows": n, "partitions": p, "batch_size": bs, "sql": S[name], "schedules": ns,
                        "example_schedule": c["steps"][-1].get("exec") or c["steps"][-2].get("exec")})
    chk.extra["distinct_schedules"] = len(sched_hashes)
    chk.extra["pending_barrier_states_seen"] = dict(sorted(barrier_states.items()))
    native_part(chk, S, thorough)


def judge_err(chk, c, steps, nload, name, p, sched_hashes):
    j = nload
    while j + 1 < len(steps):
        st, probe = steps[j], steps[j + 1]
        ex = c["steps"][j].get("exec")
        chk.evaluated()
        what = f"{name} partitions={p} schedule={json.dumps(ex)}"
        if st["outcome"] == "skipped":
            break
        if st["outcome"] == "error":
            h = st.get("stats", {}).get("sched_hash")
            if h:
                sched_hashes.add(h)
                chk.nontrivial(("sched", h))
            chk.count("injected_error_reached_client")
        elif st["outcome"] in ("deadlock", "diverged"):
            sig = {"kind": "outcome", "class": st["outcome"], "deadlock_kind": st.get("deadlock_kind"), "parked_ops": st.get("parked_ops"), "injected_error": True}
            chk.violation(sig, f"{what}: {st['outcome']} after an injected task error, parked at {st.get('parked_ops')}\n{c['steps'][j]['sql']}", {"cases": [c]})
        elif st["outcome"] == "panic":
            chk.violation(outcome_signature(st), f"{what}: panic {st.get('panic_msg')}", {"cases": [c]})
            break
        else:
            chk.violation({"kind": "error-swallowed", "shape": name}, f"{what}: the injected error did not reach the client: outcome {st['outcome']} rows={st.get('rows', [])[:3]}\n{c['steps'][j]['sql']}", {"cases": [c]})
        if probe["outcome"] != "rows":
            chk.violation({"kind": "session-dead-after-error", "shape": name}, f"{what}: SELECT 1 after the failed statement -> {probe['outcome']}", {"cases": [c]})
        j += 2


def native_part(chk, S, thorough):
    rng = chk.rng
    reps = 200 if thorough else 14
    # (the LIMIT-over shapes recorded as hanging hang on the production executor as well: each would cost a watchdog timeout)
    names = [n for n in sorted(S) if n not in ("ctas", "insert_select", "lim_join_left", "lim_join_nlj_left", "lim_scalar_subquery", "lim_union_distinct_agg")]
    cases = []
    meta = {}
    cid = 0
    for name in names:
        for threads in ([1, 2, 4, 16] if thorough else [rng.choice([1, 2]), rng.choice([4, 16])]):
            cid += 1
            n = rng.choice([8, 80])
            p = rng.choice([2, 4, 8])
            load = data_sql(n, rng)
            steps = [{"sql": s, "out": "count"} for s in load]
            steps.append({"sql": f"SET partitions TO {p}", "out": "count"})
            steps.append({"sql": f"SET batch_size TO {rng.choice([2, 8, 2048])}", "out": "count"})
            nload = len(steps)
            for r in range(reps):
                st = {"sql": S[name], "exec": {"kind": "native", "seed": rng.randint(0, 1 << 30), "pause_p": rng.choice([0.0, 0.3, 0.7]), "log_sched": True, "timeout_s": 60}}
                if r % 5 == 4:
                    st["cancel_after"] = rng.choice([0, 5, 50, 300, 2000])
                steps.append(st)
            c = {"id": f"c04n-{cid}", "exec": {"kind": "native", "threads": threads, "log_sched": True, "timeout_s": 60, "partitions": p}, "steps": steps, "max_rows": 50000}
            cases.append(c)
            meta[c["id"]] = (name, n, p, threads, nload)
    results, m = vrun.run_sharded(cases, shards=8, wall_s=3000 if thorough else 900)
    ev_total = 0
    ev_kinds = {}
    cancels = {"issued": 0, "error": 0, "rows": 0}
    for c in cases:
        name, n, p, threads, nload = meta[c["id"]]
        res = results.get(c["id"])
        if res is None or "not_run" in res or "fatal" in res:
            chk.inconc("native case not run")
            continue
        if "died" in res:
            sig = outcome_signature(res)
            if sig.get("class") == "alloc-abort":
                # the driver's own address-space cap (thread stacks and malloc arenas of many worker threads), not an engine decision
                chk.inconc("native run: allocation failed under the harness's address-space cap")
                continue
            chk.violation(sig, f"native {name} threads={threads}: process died {json.dumps(res['died'])[:300]}", {"cases": [c]})
            continue
        steps = res["steps"]
        ref_rows = None
        for j in range(nload, len(steps)):
            st = steps[j]
            spec = c["steps"][j]
            chk.evaluated()
            what = f"native {name} n={n} partitions={p} threads={threads} step={j}"
            if st["outcome"] == "skipped":
                break
            stats = st.get("stats", {})
            ev_total += stats.get("sched_events", 0)
            for k, v in (stats.get("sched_counts") or {}).items():
                ev_kinds[k] = ev_kinds.get(k, 0) + v
            if stats.get("sched_violations"):
                chk.violation({"kind": "scheduler-state-machine", "what": stats["sched_violations"][0].split(": ", 1)[-1][:60]},
                              f"{what}: H2 log replay: {stats['sched_violations'][:3]}\nlog tail: {stats.get('sched_log_tail', [])[-12:]}", {"cases": [c]})
            if st["outcome"] == "timeout":
                # wall-clock only: inconclusive unless the H2 log shows the lost wake (reported above)
                chk.inconc("native run hit the wall-clock watchdog")
                break
            if "cancel_after" in spec:
                cancels["issued"] += 1
                if st["outcome"] == "error":
                    cancels["error"] += 1
                elif st["outcome"] in ("rows", "empty"):
                    cancels["rows"] += 1
                else:
                    chk.violation({"kind": "cancel-outcome", "outcome": st["outcome"]}, f"{what}: cancelled query ended with {st['outcome']}", {"cases": [c]})
                continue
            if st["outcome"] == "panic":
                chk.violation(outcome_signature(st), f"{what}: panic {st.get('panic_msg')}", {"cases": [c]})
                break
            if st["outcome"] not in ("rows", "empty"):
                chk.violation({"kind": "schedule-dependent-outcome", "shape": name, "outcome": st["outcome"]}, f"{what}: {st['outcome']} {(st.get('error') or '')[:200]}", {"cases": [c]})
                continue
            rows = [compare.dec_row(r) for r in st.get("rows", [])]
            if ref_rows is None:
                ref_rows = rows
                continue
            if name in ("limit_early",) or name.startswith("lim_"):
                ok, why = len(rows) == len(ref_rows), "row count"
            elif name in ("sort_limit", "limit_offset"):
                ok, why = rows == ref_rows, "ordered slice"
            else:
                ok, why = compare.bag_equal(ref_rows, rows)
            if not ok:
                chk.violation({"kind": "schedule-dependent-result", "shape": name, "executor": "native"}, f"{what}: differs from the first run: {why}", {"cases": [c]})
            else:
                chk.count("native_runs_compared")
    chk.extra["native_sched_events_checked"] = ev_total
    chk.extra["native_sched_event_kinds"] = ev_kinds
    chk.extra["native_cancellations"] = cancels
    chk.floor(ev_total > 1000, f"only {ev_total} scheduler events observed")
