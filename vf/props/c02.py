"""C02 — the optimizer never changes what a query returns (optimizer on vs off, reference model as third voice)."""
import re
from vf import qcheck, compare, knowncases
from vf.core import outcome_signature

WEIGHTS = dict(join=0.7, where=0.85, order=0.5, limit=0.4, cte=0.2, derived=0.25, group=0.3, subquery=0.3, union=0.12, distinct=0.15)


def steps_fn(sql):
    return [{"sql": "SET enable_optimizer TO true", "out": "count"},
            {"sql": "EXPLAIN VERBOSE " + sql},
            {"sql": sql},
            {"sql": "SET enable_optimizer TO false", "out": "count"},
            {"sql": sql}]


def workload(chk):
    thorough = chk.tier == "thorough"
    n_dbs, per = (500, 30) if thorough else (70, 25)
    return qcheck.gen_workload(chk.rng, n_dbs, per, weights=WEIGHTS, id_prefix="c02-", chk=chk, steps_fn=steps_fn)


def plan_parts(step):
    un = op = ""
    for r in step.get("rows", []):
        if r[0] == "unoptimized":
            un = r[1]
        elif r[0] == "optimized":
            op = r[1]
    return un, op


def rewrite_kinds(un, op):
    """Which optimizer rewrites visibly fired, judged from the EXPLAIN VERBOSE texts."""
    kinds = set()
    if not un or not op:
        return kinds
    if "limit_hint" in op:
        kinds.add("sort_limit_hint")
    if "__generated_cse" in op:
        kinds.add("cse")
    if "like(" in un and any(f in op for f in ("starts_with(", "ends_with(", "contains(")) or (un.count("like(") > op.count("like(")):
        kinds.add("like_rewrite")
    if op.count("ComparisonJoin") > un.count("ComparisonJoin") or op.count("CrossJoin") < un.count("CrossJoin"):
        kinds.add("filter_to_join_condition")
    unl, opl = un.split("\n"), op.split("\n")

    def filters_over_scan(lines):
        n = 0
        for i, l in enumerate(lines):
            if l.strip() == "Filter":
                ind = len(l) - len(l.lstrip())
                for l2 in lines[i + 1:]:
                    ind2 = len(l2) - len(l2.lstrip())
                    s2 = l2.strip()
                    if s2 and not s2.startswith(("├", "└")):
                        if s2 == "Scan" and ind2 == ind + 2:
                            n += 1
                        break
        return n
    if filters_over_scan(opl) > filters_over_scan(unl):
        kinds.add("filter_pushdown_to_scan_side")
    proj_un = re.findall(r"data_projection: \[([^\]]*)\]", un)
    proj_op = re.findall(r"data_projection: \[([^\]]*)\]", op)
    if sorted(proj_un) != sorted(proj_op):
        kinds.add("column_prune")
    if re.search(r"data_scan_filters: \[[^\]]+\]", op):
        kinds.add("scan_filter_pushdown")
    t_un = re.findall(r"table: (\S+)", un)
    t_op = re.findall(r"table: (\S+)", op)
    if t_un != t_op and sorted(t_un) == sorted(t_op):
        kinds.add("join_reorder")

    def limit_depths(lines):
        return [len(l) - len(l.lstrip()) for l in lines if l.strip() == "Limit"]
    if limit_depths(unl) != limit_depths(opl):
        kinds.add("limit_pushdown")
    preds_un = re.findall(r"predicate: (.*)", un)
    preds_op = re.findall(r"predicate: (.*)", op)
    if sorted(preds_un) != sorted(preds_op):
        # constant folding / expression rewrites change predicate text without moving the filter
        if len(preds_un) == len(preds_op) and "filter_pushdown_to_scan_side" not in kinds and "filter_to_join_condition" not in kinds:
            kinds.add("expr_rewrite")
        if re.search(r"\b\d+ [+*-] \d+\b", un) and not re.search(r"\b\d+ [+*-] \d+\b", op):
            kinds.add("const_fold")
    if op.count("Filter") < un.count("Filter") or (preds_op and preds_un and len(preds_op) > len(preds_un)):
        kinds.add("filter_split_or_merged")
    return kinds


def judge(chk, db, q, sql, group, case, tags):
    chk.evaluated()
    s_set1, s_exp, s_on, s_set2, s_off = group
    replay = {"cases": [case], "sql": sql}
    for st, side in ((s_exp, "explain"), (s_on, "on"), (s_off, "off")):
        if st["outcome"] == "panic":
            if chk.violation(outcome_signature(st), f"panic ({side}): {st.get('panic_msg')} @ {st.get('panic_loc')}\n{sql}", replay):
                return "violation"
            return "known"
        if st["outcome"] in ("deadlock", "diverged"):
            sig = {"kind": "outcome", "class": st["outcome"], "deadlock_kind": st.get("deadlock_kind"), "parked_ops": st.get("parked_ops")}
            if chk.violation(sig, f"{st['outcome']} ({side}) parked at {st.get('parked_ops')}: {sql}", replay):
                return "violation"
            return "known"
        if st["outcome"] == "skipped":
            return "skip"
    if s_on.get("truncated") or s_off.get("truncated"):
        chk.count("result_truncated_by_harness")
        return "skip"
    un, op = plan_parts(s_exp)
    kinds = rewrite_kinds(un, op) if s_exp["outcome"] == "rows" else set()
    for k in kinds:
        chk.count("rewrite:" + k)
    on_rows = s_on["outcome"] in ("rows", "empty")
    off_rows = s_off["outcome"] in ("rows", "empty")
    if not on_rows and not off_rows:
        e1, e2 = s_on.get("error", "").split("\n")[0], s_off.get("error", "").split("\n")[0]
        chk.count("both_error")
        return "skip"
    if on_rows != off_rows:
        bad = s_on if not on_rows else s_off
        first = bad.get("error", "").split("\n")[0]
        side = "on" if not on_rows else "off"
        # permitted: a run-time evaluation error of one plan. Plan-time errors (query() itself fails) are not
        # distinguishable here by timing, so classify by message: internal planner/optimizer errors are violations.
        spec = qcheck.model_eval(db, q)
        if spec["kind"] == "error":
            chk.count("permitted_one_sided_evaluation_error")
            return "skip"
        sig = {"kind": "unexpected-error", "message": qcheck.compare_msg(first)}
        if chk.violation(sig, f"only optimizer={side} fails: {first}\n{sql}", replay):
            return "violation"
        return "known"
    # both returned rows: schemas and rows must agree
    if s_on.get("schema") != s_off.get("schema"):
        chk.violation({"kind": "schema-differs"}, f"announced schema differs: on={s_on.get('schema')} off={s_off.get('schema')}\n{sql}", replay)
        return "violation"
    r_on = [compare.dec_row(r) for r in s_on.get("rows", [])]
    r_off = [compare.dec_row(r) for r in s_off.get("rows", [])]
    agree = True
    why = ""
    if q.limit is not None:
        # both must be admissible slices of the same full result: compare through the model when it can tell
        spec = qcheck.model_eval(db, q)
        if spec["kind"] == "rows":
            ok1, w1 = qcheck.compare_rows(q, spec["full_rows"], s_on.get("rows", []))
            ok2, w2 = qcheck.compare_rows(q, spec["full_rows"], s_off.get("rows", []))
            agree = ok1 and ok2
            why = f"on: {w1}; off: {w2}"
        else:
            agree = len(r_on) == len(r_off)
            why = f"row counts {len(r_on)} vs {len(r_off)}"
    else:
        agree, why = compare.bag_equal(r_off, r_on)
        if agree and q.order:
            ok, i = compare.is_sorted(r_on, q.order)
            if not ok:
                agree, why = False, f"optimizer=on output violates ORDER BY at row {i}"
    if agree:
        if kinds:
            chk.nontrivial((sorted(kinds), sorted(tags)))
            return "ok"
        return "ok-trivial"
    # which side is wrong? ask the model
    spec = qcheck.model_eval(db, q)
    blame = "unknown"
    if spec["kind"] == "rows":
        ok_on, _ = qcheck.compare_rows(q, spec["full_rows"], s_on.get("rows", []))
        ok_off, _ = qcheck.compare_rows(q, spec["full_rows"], s_off.get("rows", []))
        blame = "optimized plan wrong" if ok_off and not ok_on else "unoptimized plan wrong" if ok_on and not ok_off else "both differ from the model"
        # known deviations of the unoptimized/optimized engine that the model can reproduce
        for sw, (trigger, finding) in qcheck.SWITCHES.items():
            if trigger in spec["triggers"]:
                dev = qcheck.model_eval(db, q, switches=(sw,))
                if dev["kind"] == "rows":
                    d_on, _ = qcheck.compare_rows(q, dev["full_rows"], s_on.get("rows", []))
                    d_off, _ = qcheck.compare_rows(q, dev["full_rows"], s_off.get("rows", []))
                    if (d_on or ok_on) and (d_off or ok_off):
                        if chk.violation({"kind": "model-switch", "switch": sw}, f"{why}\n{sql}", replay):
                            return "violation"
                        return "known"
    sig = {"kind": "optimizer-changes-result", "rewrites": sorted(kinds)[:5], "blame": blame}
    chk.violation(sig, f"optimizer on/off disagree ({blame}; rewrites fired: {sorted(kinds)}): {why}\n{sql}\non({len(r_on)})={r_on[:5]}\noff({len(r_off)})={r_off[:5]}", replay)
    return "violation"


def run(chk):
    thorough = chk.tier == "thorough"
    chk.rule = ("random databases x random composed queries weighted toward what the rewrite passes look at; every query is executed with "
                "enable_optimizer on and off in one session (same data, same schedule seed) and the two results compared (bag / order / "
                "admissible slice); EXPLAIN VERBOSE is diffed to see which rewrites fired. distinct non-trivial = distinct (set of rewrite "
                "kinds that fired, feature tags) among agreeing pairs where at least one rewrite fired")
    chk.assumptions = ["EXPLAIN VERBOSE prints the plans that are executed", "the reference model is used only to attribute a disagreement to a side and to recognise recorded deviations"]
    knowncases.run_known_cases(chk)
    verdicts = {}
    for verdict, q, sql, tags, st, case in qcheck.run_workload(chk, workload(chk), wall_s=3000 if thorough else 900, judge_fn=judge):
        verdicts[verdict] = verdicts.get(verdict, 0) + 1
        if verdict == "ok" and len(chk.samples) < 6 and len(tags) >= 3:
            chk.sample({"sql": sql, "exec": case["exec"], "rows_on_off": st.get("count"), "tags": sorted(tags)})
    chk.extra["verdicts"] = verdicts
    fired = {k[8:]: v for k, v in chk.counters.items() if k.startswith("rewrite:")}
    chk.extra["rewrite_kinds_fired"] = fired
    need = 20 if not thorough else 100
    ok_kinds = [k for k, v in fired.items() if v >= need]
    chk.floor(len(ok_kinds) >= 8, f"only {len(ok_kinds)} rewrite kinds fired >= {need} times: {fired}")
