"""C03 — results are independent of partitions, batch size, join algorithm and worker threads."""
import json
from vf import qcheck, compare, knowncases, sqlgen, avoid
from vf import run as vrun
from vf.sqlast import qsql
from vf.core import outcome_signature

WEIGHTS = dict(join=0.7, group=0.4, agg=0.15, order=0.5, limit=0.35, union=0.15, cte=0.2, derived=0.2, distinct=0.15, subquery=0.2)

REF = {"partitions": 1, "batch_size": 2048, "hash": True, "exec": {"kind": "det", "policy": "fifo"}}


def configs(rng, nrows, thorough):
    """Configuration sample that always contains the corners."""
    n = max(nrows, 2)
    parts = [1, 2, 3, max(1, n - 1), n, n + 1, 64, 512]
    batches = [1, 2, max(1, n // 2), max(1, n - 1), n, n + 1, 2048, 8192]
    execs = [{"kind": "det", "policy": "random"}, {"kind": "det", "policy": "lifo"}, {"kind": "native", "threads": 1},
             {"kind": "native", "threads": 2}, {"kind": "native", "threads": 16}]
    out = []
    k = 40 if thorough else 11
    # corners first: each partition value and each batch value at least once
    for i in range(max(len(parts), len(batches))):
        out.append({"partitions": parts[i % len(parts)], "batch_size": batches[(i * 3 + 1) % len(batches)],
                    "hash": rng.random() < 0.6, "exec": dict(rng.choice(execs))})
    while len(out) < k:
        out.append({"partitions": rng.choice(parts), "batch_size": rng.choice(batches), "hash": rng.random() < 0.5, "exec": dict(rng.choice(execs))})
    rng.shuffle(out)
    out = out[:k]
    for c in out:
        # memory grows with partitions x batch_size x operators; keep the product within what the harness's 8 GiB
        # address-space cap allows (both extremes are still exercised, just not together)
        cap = 64 * 2048 if c["partitions"] < 256 else 512 * 16
        while c["partitions"] * c["batch_size"] > cap:
            c["batch_size"] = max(1, c["batch_size"] // 4)
        if c["exec"]["kind"] == "det":
            c["exec"]["seed"] = rng.randint(0, 1 << 30)
            c["exec"]["yield_p"] = rng.choice([0, 0.05, 0.3])
        else:
            c["exec"]["timeout_s"] = 60
            # 512 partitions x 16 threads is legal but slow in debug builds; keep native runs at <= 64 partitions
            c["partitions"] = min(c["partitions"], 64)
    return out


def build(chk):
    thorough = chk.tier == "thorough"
    rng = chk.rng
    n_scripts = 150 if thorough else 14
    scripts = []
    for si in range(n_scripts):
        db = sqlgen.gen_database(rng, max_rows=rng.choice([20, 60, 130]))
        load = sqlgen.load_steps(db)
        nrows = max([len(r) for (_, r) in db.values()] + [1])
        qs = []
        for _ in range(rng.randint(6, 12)):
            g = sqlgen.Gen(rng, db, weights=WEIGHTS)
            try:
                q = g.query(rng.choice([1, 2, 2, 3]), top=True)
                sql = qsql(q)
            except (IndexError, ValueError, KeyError):
                continue
            reasons = avoid.query_avoid_reasons(q, 8)
            if reasons:
                for r in reasons:
                    chk.count("avoided:" + r)
                continue
            # a query whose result (or an intermediate result) the model already refuses as too large is legitimately slow at
            # batch sizes of 1-8 (millions of batches): it would only buy a watchdog timeout
            spec = qcheck.model_eval(db, q)
            if spec["kind"] == "unspecified" and "too large" in str(spec.get("reason", "")):
                chk.count("dropped: result too large for the small-batch configurations")
                continue
            if spec["kind"] == "rows" and len(spec["full_rows"]) > 20000:
                chk.count("dropped: result too large for the small-batch configurations")
                continue
            qs.append((q, sql, set(g.tags)))
        # DML whose counts/contents must not depend on the configuration
        dml = []
        simple = [x for x in qs if x[0].limit is None][:2]
        for di, (q, sql, tags) in enumerate(simple):
            dml.append((f"CREATE TEMP TABLE ct{di} AS {sql}", f"SELECT * FROM ct{di}"))
            dml.append((f"INSERT INTO ct{di} {sql}", f"SELECT count(*) FROM ct{di}"))
        scripts.append((si, db, load, qs, dml, nrows))
    return scripts


def case_for(si, ci, cfg, load, qs, dml):
    steps = [{"sql": f"SET partitions TO {cfg['partitions']}", "out": "count"},
             {"sql": f"SET batch_size TO {cfg['batch_size']}", "out": "count"},
             {"sql": f"SET enable_hash_joins TO {'true' if cfg['hash'] else 'false'}", "out": "count"}]
    steps += [{"sql": s} for s in load]
    npre = len(steps)
    steps += [{"sql": sql} for (_, sql, _) in qs]
    for a, b in dml:
        steps += [{"sql": a}, {"sql": b}]
    ex = dict(cfg["exec"])
    ex["partitions"] = cfg["partitions"]
    return {"id": f"c03-{si}/{ci}", "exec": ex, "steps": steps, "max_rows": 20000}, npre


def run(chk):
    thorough = chk.tier == "thorough"
    chk.rule = ("scripts (DDL + INSERTs + 6-12 generated queries + CREATE TABLE AS / INSERT..SELECT) replayed under a configuration sample "
                "containing the corners partitions in {1,2,3,rows-1,rows,rows+1,64,512}, batch_size in {1,2,rows/2,rows-1,rows,rows+1,2048,8192}, "
                "hash joins on/off, executors det(random/lifo) and the production thread pool with 1/2/16 threads; every statement's result is "
                "compared with the reference configuration (1 partition, batch 2048, hash joins, fifo) and with the reference model. "
                "distinct non-trivial = distinct (statement, configuration) pairs compared whose result was non-empty")
    chk.assumptions = ["the reference configuration itself is checked against vf/refsql.py", "SET partitions/batch_size/enable_hash_joins take effect for later statements of the session"]
    knowncases.run_known_cases(chk)
    scripts = build(chk)
    cases = []
    meta = {}
    for (si, db, load, qs, dml, nrows) in scripts:
        cfgs = [dict(REF)] + configs(chk.rng, nrows, thorough)
        for ci, cfg in enumerate(cfgs):
            c, npre = case_for(si, ci, cfg, load, qs, dml)
            cases.append(c)
            meta[c["id"]] = (si, ci, cfg, npre)
    # 512 partitions need tens of GiB for multi-join queries (partitioned hash tables are quadratic in the partition
    # count): run those cases two at a time under a wider address-space cap
    big = [c for c in cases if meta[c["id"]][2]["partitions"] >= 256]
    small = [c for c in cases if meta[c["id"]][2]["partitions"] < 256]
    results, m = vrun.run_sharded(small, shards=16, wall_s=3000 if thorough else 1200)
    if big:
        r2, m2 = vrun.run_sharded(big, shards=2, wall_s=3000 if thorough else 1200, as_bytes=26 << 30)
        results.update(r2)
        m["restarts"] += m2["restarts"]
    chk.extra["process_restarts"] = m["restarts"]
    matrix = {}
    hits = {"batch_edge": 0, "partitions_gt_rows": 0, "nested_loop_planned": 0}
    for (si, db, load, qs, dml, nrows) in scripts:
        ref = results.get(f"c03-{si}/0")
        if ref is None or "steps" not in ref:
            chk.inconc("reference configuration did not run")
            continue
        ci = 0
        while f"c03-{si}/{ci}" in meta:
            cid = f"c03-{si}/{ci}"
            _, _, cfg, npre = meta[cid]
            res = results.get(cid)
            case = next(c for c in cases if c["id"] == cid)
            ci += 1
            key = f"p{cfg['partitions']}/b{cfg['batch_size']}/{'hash' if cfg['hash'] else 'nlj'}/{cfg['exec']['kind']}{cfg['exec'].get('threads', '')}"
            matrix[key] = matrix.get(key, 0) + 1
            if res is None or "not_run" in res or "fatal" in res:
                chk.inconc("case not run")
                continue
            if "died" in res:
                sig = outcome_signature(res)
                if sig.get("class") == "alloc-abort":
                    chk.inconc("allocation failed under the harness's address-space cap")
                    chk.count("alloc_fail_config:" + key)
                    continue
                chk.violation(sig, f"process died under {key}: {json.dumps(res['died'])[:300]}", {"cases": [case]})
                continue
            if nrows % max(cfg["batch_size"], 1) == 0:
                hits["batch_edge"] += 1
            if cfg["partitions"] > nrows:
                hits["partitions_gt_rows"] += 1
            if not cfg["hash"]:
                hits["nested_loop_planned"] += 1
            steps = res["steps"]
            rsteps = ref["steps"]
            # load statements: INSERT counts equal
            dead = False
            for j in range(npre):
                if steps[j]["outcome"] not in ("rows", "empty"):
                    chk.violation({"kind": "load-failed"}, f"{key}: load step failed: {json.dumps(steps[j])[:300]}", {"cases": [case]})
                    dead = True
                    break
                if steps[j].get("rows") != rsteps[j].get("rows"):
                    chk.violation({"kind": "dml-count-differs"}, f"{key}: {case['steps'][j]['sql'][:100]} reported {steps[j].get('rows')} vs {rsteps[j].get('rows')}", {"cases": [case]})
            if dead:
                continue
            for qi, (q, sql, tags) in enumerate(qs):
                st = steps[npre + qi]
                rst = rsteps[npre + qi]
                if st["outcome"] == "skipped":
                    break
                if st["outcome"] == "timeout":
                    chk.inconc("wall-clock watchdog on native executor")
                    break
                v = qcheck.judge(chk, db, q, sql, st, case, tags)
                if v in ("violation", "known", "skip"):
                    if st["outcome"] == "panic":
                        break
                    continue
                # against the reference configuration (model said ok for both or was silent)
                if rst["outcome"] in ("rows", "empty") and st["outcome"] in ("rows", "empty") and q.limit is None:
                    ok, why = compare.bag_equal([compare.dec_row(r) for r in rst.get("rows", [])], [compare.dec_row(r) for r in st.get("rows", [])])
                    if not ok:
                        chk.violation({"kind": "config-dependent-result", "what": "query"}, f"{key} differs from the reference configuration: {why}\n{sql}", {"cases": [case]})
                        continue
                    if st.get("schema") != rst.get("schema"):
                        chk.violation({"kind": "config-dependent-schema"}, f"{key}: schema {st.get('schema')} vs {rst.get('schema')}\n{sql}", {"cases": [case]})
                        continue
                if st.get("count"):
                    chk.nontrivial((si, qi, key))
            base = npre + len(qs)
            for di in range(0, 2 * len(dml), 1):
                j = base + di
                if j >= len(steps) or steps[j]["outcome"] == "skipped":
                    break
                st, rst = steps[j], rsteps[j]
                chk.evaluated()
                if st["outcome"] == "panic":
                    chk.violation(outcome_signature(st), f"{key}: panic in {case['steps'][j]['sql'][:200]}: {st.get('panic_msg')}", {"cases": [case]})
                    break
                if rst["outcome"] in ("skipped", "panic", "deadlock", "diverged", "timeout"):
                    # the reference configuration did not produce this statement's result (its session ended earlier on a
                    # recorded or reported defect): nothing to compare with
                    chk.inconc("reference configuration did not run the statement")
                    break
                if st["outcome"] != rst["outcome"]:
                    if "error" in (st["outcome"], rst["outcome"]):
                        e = (st.get("error") or rst.get("error") or "").split("\n")[0]
                        if any(mk in e for mk in qcheck.UNSUPPORTED_MARKERS):
                            continue
                    sig = {"kind": "config-dependent-outcome", "what": "dml", "outcome": st["outcome"]}
                    if st["outcome"] == "deadlock":
                        sig = {"kind": "outcome", "class": "deadlock", "deadlock_kind": st.get("deadlock_kind"), "parked_ops": st.get("parked_ops")}
                    chk.violation(sig, f"{key}: {case['steps'][j]['sql'][:200]} -> {st['outcome']} ({(st.get('error') or '')[:100]}) vs reference {rst['outcome']}", {"cases": [case]})
                    continue
                if st["outcome"] == "rows":
                    ok, why = compare.bag_equal([compare.dec_row(r) for r in rst.get("rows", [])], [compare.dec_row(r) for r in st.get("rows", [])])
                    if not ok:
                        chk.violation({"kind": "config-dependent-result", "what": "dml"}, f"{key}: {case['steps'][j]['sql'][:200]}: {why}", {"cases": [case]})
                    elif st.get("count"):
                        chk.nontrivial((si, "dml", di, key))
            if len(chk.samples) < 5:
                chk.sample({"config": key, "statements": len(steps), "first_query": qs[0][1] if qs else None})
    chk.extra["configuration_matrix"] = dict(sorted(matrix.items()))
    chk.extra["corner_hits"] = hits
    chk.floor(hits["batch_edge"] > 0 and hits["partitions_gt_rows"] > 0 and hits["nested_loop_planned"] > 0, f"corner coverage {hits}")
