"""C01 — SELECT results equal SQL bag semantics (composed queries vs. the reference model)."""
from vf import qcheck

def workload(chk):
    thorough = chk.tier == "thorough"
    n_dbs, per = (600, 40) if thorough else (100, 35)
    return qcheck.gen_workload(chk.rng, n_dbs, per, id_prefix="c01-", chk=chk)


def wide_database(rng):
    """one table with thousands of rows and wide key domains (every value recurs a few times): hash tables grow and are
    re-hashed while they already hold groups, sorts need several runs, scans cross segment boundaries"""
    n = rng.choice([2500, 4000, 7000])
    dom = rng.choice([n // 3, n // 2, n])
    cols = [("k", "int"), ("a0", "int"), ("b0", "text")]
    rows = [(None if rng.random() < 0.02 else rng.randrange(dom), rng.randrange(7), None if rng.random() < 0.05 else f"s{rng.randrange(dom // 2 + 1)}") for _ in range(n)]
    return {"t0": (cols, rows)}


WIDE_WEIGHTS = dict(join=0.0, subquery=0.0, corr=0.0, cte=0.15, derived=0.15, lateral=0.0, union=0.15, group=0.6, agg=0.5, distinct=0.35, where=0.5, order=0.4, limit=0.2)


def wide_workload(chk):
    thorough = chk.tier == "thorough"
    ex = lambda rng, d: {"kind": "det", "policy": "random", "seed": rng.randint(0, 1 << 30), "yield_p": 0.02, "partitions": rng.choice([1, 2, 4, 8])}
    return qcheck.gen_workload(chk.rng, 24 if thorough else 6, 14, weights=WIDE_WEIGHTS, max_depth=2, exec_fn=ex, id_prefix="c01w-", chk=chk, db_fn=wide_database)


def run(chk):
    thorough = chk.tier == "thorough"
    chk.rule = ("random databases (1-4 tables, NULL density/skew/duplicates/empty tables) x type-directed random composed queries "
                "(joins, grouping sets, DISTINCT, UNION, ORDER BY/LIMIT, CTEs, derived tables, scalar/EXISTS/IN/ANY/ALL subqueries), plus a few "
                "single-table databases of 2500-7000 rows with wide key domains (thousands of groups, every key recurring) under grouping/DISTINCT/ORDER BY/UNION queries; "
                "oracle = naive reference interpreter on the same AST; distinct non-trivial = distinct (feature-tag set, database) "
                "pairs whose result was compared (model gave a definite answer) and was non-empty or empty by a declared rule")
    chk.assumptions = ["the reference interpreter vf/refsql.py (cross-checked against SQLite on the dialect-neutral subset by ./check setup)",
                       "generated integers stay small so that no arithmetic overflow is involved (C12 covers that)"]
    work = workload(chk) + wide_workload(chk)
    from vf import knowncases
    knowncases.run_known_cases(chk)
    tags_hist = {}
    pairs = set()
    verdicts = {}
    for verdict, q, sql, tags, st, case in qcheck.run_workload(chk, work, wall_s=3000 if thorough else 900):
        verdicts[verdict] = verdicts.get(verdict, 0) + 1
        if verdict in ("ok", "known"):
            chk.nontrivial((sorted(tags), case["id"].split("@")[0]))
            for t in tags:
                tags_hist[t] = tags_hist.get(t, 0) + 1
            tl = sorted(tags)
            for i in range(len(tl)):
                for j in range(i + 1, len(tl)):
                    pairs.add((tl[i], tl[j]))
            if len(chk.samples) < 6 and len(tags) >= 4:
                chk.sample({"sql": sql, "exec": case["exec"], "rows": st.get("count"), "first_rows": st.get("rows", [])[:3], "tags": sorted(tags)})
    chk.extra["feature_tags"] = dict(sorted(tags_hist.items()))
    chk.extra["construct_pairs_cooccurring"] = len(pairs)
    chk.extra["verdicts"] = verdicts
    chk.floor(len(pairs) >= 200, f"only {len(pairs)} distinct construct pairs co-occurred (< 200)")
