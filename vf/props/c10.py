"""C10 — reading a valid Parquet file returns exactly the rows it encodes (independent writer as oracle)."""
import json, os, shutil
from vf import run as vrun
from vf import pqwrite as pq
from vf import compare
from vf.core import outcome_signature
from vf.pqwrite_selftest import TYPES, NULLPAT, CODECS, PAGEVALS, RGSHAPES, DICTMAX, STYLES, STATS, null_mask, annots

BATCHES = [1, 3, 7, 64, 2048]
PARTS = [1, 1, 2, 5]
CHAOS = [None, None, "r1", "R7", "r4096", "R64,p30", "r3,p50"]


def gen_file(rng, d, fid):
    """-> (path, cols, row_groups, info, tag) or None"""
    ncols = rng.choice([1, 1, 2, 3])
    cols = []
    for j in range(ncols):
        for _ in range(20):
            phys, logical, kw = rng.choice(TYPES)
            encs = pq.valid_encodings(phys)
            enc = rng.choice(encs)
            c = pq.Col(f"c{j}", phys, logical, optional=True, encoding=enc, strict=False, **kw)
            c.annot = rng.choice(annots(phys, logical, kw))
            if pq.unsupported_reason(c):
                continue
            pat = rng.choice(NULLPAT)
            c.optional = pat != "required"
            c.page_values = rng.choice(PAGEVALS)
            c.dict_max = rng.choice(DICTMAX) if enc == "DICT" else None
            c.dict_legacy = rng.random() < 0.3
            c.level_style = rng.choice(STYLES)
            c.index_style = rng.choice(STYLES)
            c.stats = rng.choice(STATS)
            c.dbp_block, c.dbp_miniblocks = rng.choice([(128, 4), (128, 1), (256, 8), (128, 4)])
            c.v2_compressed = rng.random() < 0.8
            c._pat = pat
            cols.append(c)
            break
    if not cols:
        return None
    shape = rng.choice(RGSHAPES)
    rgs = []
    colvals = []
    for c in cols:
        total = sum(shape)
        mask = null_mask(c._pat, total, rng)
        vals = pq.random_values(c, total, rng, 0.0)
        colvals.append([None if m else v for m, v in zip(mask, vals)])
    pos = 0
    for n in shape:
        rgs.append([tuple(cv[pos + i] for cv in colvals) for i in range(n)])
        pos += n
    page_version = rng.choice([1, 2])
    codec = rng.choice(CODECS)
    path = os.path.join(d, f"f{fid}.parquet")
    try:
        info = pq.write_file(path, cols, rgs, page_version=page_version, codec=codec)
    except Exception as e:
        return None
    tag = {"cols": [(c.phys, c.logical, c.encoding, c._pat, c.page_values, c.dict_max) for c in cols], "rg": list(shape), "v": page_version, "codec": codec}
    return path, cols, rgs, info, tag


def run(chk):
    thorough = chk.tier == "thorough"
    rng = chk.rng
    compare.set_exact(True)
    chk.rule = ("files written by the independent writer vf/pqwrite.py over the product physical type x logical annotation x encoding "
                "(PLAIN, dictionary with fallback, RLE, DELTA_BINARY_PACKED, DELTA_LENGTH_BYTE_ARRAY, DELTA_BYTE_ARRAY, BYTE_STREAM_SPLIT) x NULL "
                "pattern x page v1/v2 x codec x page size x row-group layout x level/index run styles; each file is read under batch_size "
                "{1,3,7,64,2048}, partitions {1,2,5} and ChaosFs read chunking (1-byte reads, random short reads, Pending); values are compared "
                "bit-exactly (ordered when partitions=1), announced types with the writer's; parquet.*_metadata rows with the footer written. "
                "distinct non-trivial = distinct (column specs, row-group shape, page version, codec, read configuration) with >0 rows compared")
    chk.assumptions = ["vf/pqwrite.py follows the Parquet format specification (its structural self-check re-parses every file with an independent thrift decoder)",
                       "SNAPPY/LZ4_RAW/ZSTD streams are literal-only (valid, but the third-party match-copy paths are not exercised)"]
    from vf import knowncases
    knowncases.run_known_cases(chk)
    d = vrun.tmpdir("c10")
    try:
        nfiles = 6000 if thorough else 700
        files = []
        for fid in range(nfiles):
            g = gen_file(rng, d, fid)
            if g:
                files.append(g)
        cases = []
        meta = {}
        per_case = 12
        for i in range(0, len(files), per_case):
            chunk = files[i:i + per_case]
            steps = []
            spec = []
            for (path, cols, rgs, info, tag) in chunk:
                for _ in range(6 if thorough else 3):
                    bs, parts, ch = rng.choice(BATCHES), rng.choice(PARTS), rng.choice(CHAOS)
                    p = path if ch is None else f"chaos:{ch},s{rng.randint(0, 999)}:{path}"
                    steps.append({"sql": f"SET batch_size TO {bs}", "out": "count"})
                    steps.append({"sql": f"SET partitions TO {parts}", "out": "count"})
                    steps.append({"sql": f"SELECT * FROM read_parquet('{p}')"})
                    spec.append((len(steps) - 1, "rows", path, cols, rgs, info, tag, (bs, parts, ch)))
                if rng.random() < 0.35:
                    steps.append({"sql": f"select num_rows, num_row_groups, created_by from parquet.file_metadata('{path}')"})
                    spec.append((len(steps) - 1, "fmeta", path, cols, rgs, info, tag, None))
                    steps.append({"sql": f"select ordinal, num_rows, num_columns from parquet.rowgroup_metadata('{path}') order by 1"})
                    spec.append((len(steps) - 1, "rgmeta", path, cols, rgs, info, tag, None))
                    steps.append({"sql": f"select rowgroup_ordinal, column_ordinal, num_values, total_compressed_size, total_uncompressed_size, data_page_offset from parquet.column_metadata('{path}') order by 1, 2"})
                    spec.append((len(steps) - 1, "colmeta", path, cols, rgs, info, tag, None))
            c = {"id": f"c10-{i}", "exec": {"kind": "det", "policy": "random", "seed": rng.randint(0, 1 << 30), "yield_p": 0.05}, "steps": steps, "max_rows": 100000}
            cases.append(c)
            meta[c["id"]] = spec
        # a panic poisons the rest of a case: re-run remaining steps in fresh cases (bounded rounds)
        pending = cases
        all_results = {}
        for rnd in range(5):
            results, m = vrun.run_sharded(pending, shards=16, wall_s=3000 if thorough else 900)
            nxt = []
            for c in pending:
                res = results.get(c["id"])
                all_results.setdefault(c["id"].split("#")[0], []).append((c, res))
                if res and "steps" in res:
                    for j, st in enumerate(res["steps"]):
                        if st["outcome"] == "panic" and j + 1 < len(c["steps"]):
                            rest = dict(c)
                            base = c["id"].split("#")[0]
                            off = c.get("_off", 0) + j + 1
                            rest["id"] = f"{base}#{off}"
                            rest["_off"] = off
                            rest["steps"] = c["steps"][j + 1:]
                            nxt.append(rest)
                            break
            pending = [{k: v for k, v in c.items()} for c in nxt]
            if not pending:
                break
        enc_seen = {}
        for base, runs in all_results.items():
            spec = {s[0]: s for s in meta[base]}
            for (c, res) in runs:
                off = c.get("_off", 0)
                if res is None or "not_run" in res or "fatal" in res:
                    chk.inconc("case not run")
                    continue
                if "died" in res:
                    chk.violation(outcome_signature(res), f"process died: {json.dumps(res['died'])[:300]}", {"cases": [{k: v for k, v in c.items() if k != '_off'}]})
                    continue
                for j, st in enumerate(res["steps"]):
                    sp = spec.get(off + j)
                    if sp is None or st["outcome"] == "skipped":
                        continue
                    judge(chk, c, st, sp, enc_seen)
        chk.extra["encodings_compared"] = enc_seen
    finally:
        shutil.rmtree(d, ignore_errors=True)


def judge(chk, c, st, sp, enc_seen):
    (_, kind, path, cols, rgs, info, tag, cfg) = sp
    chk.evaluated()
    what = f"{json.dumps(tag)} read={cfg}"
    replay = {"cases": [{k: v for k, v in c.items() if k != "_off"}], "file": tag}
    if st["outcome"] == "panic":
        sig = outcome_signature(st)
        chk.violation(sig, f"{what}: panic {st.get('panic_msg')} @ {st.get('panic_loc')}", replay)
        return
    if st["outcome"] in ("deadlock", "diverged"):
        chk.violation({"kind": "outcome", "class": st["outcome"], "parked_ops": st.get("parked_ops")}, f"{what}: {st['outcome']}", replay)
        return
    if st["outcome"] == "error":
        first = (st.get("error") or "").split("\n")[0]
        import re
        msg = re.sub(r"\d+", "N", first)[:90]
        chk.violation({"kind": "unexpected-error", "message": msg}, f"{what}: {first}", replay)
        return
    rows = st.get("rows", [])
    if kind == "rows":
        want_types = [pq.engine_type(col) for col in cols]
        got_types = [s[1] for s in st.get("schema", [])]
        names = [s[0] for s in st.get("schema", [])]
        if names != [col.name for col in cols]:
            chk.violation({"kind": "wrong-column-names"}, f"{what}: names {names}", replay)
            return
        if got_types != want_types:
            chk.violation({"kind": "wrong-type", "types": [t for t in got_types][:3]}, f"{what}: announced {got_types}, expected {want_types}", replay)
            return
        want = [[pq.engine_value(col, v) for col, v in zip(cols, r)] for rg in rgs for r in rg]
        ordered = cfg[1] == 1
        ok = (rows == want) if ordered else (sorted(json.dumps(r, sort_keys=True) for r in rows) == sorted(json.dumps(r, sort_keys=True) for r in want))
        if not ok:
            i = next((i for i, (a, b) in enumerate(zip(rows, want)) if a != b), min(len(rows), len(want)))
            encs = sorted(set(col.encoding for col in cols))
            chk.violation({"kind": "wrong-rows", "encodings": encs, "ordered": ordered},
                          f"{what}: {len(rows)} rows vs {len(want)} expected; first difference at row {i}: got {rows[i:i+2]} expected {want[i:i+2]}", replay)
            return
        if st.get("mismatch"):
            chk.violation({"kind": "schema-value-mismatch"}, f"{what}: {st['mismatch']}", replay)
            return
        for col in cols:
            k = f"{col.phys}/{col.logical}/{col.encoding}"
            enc_seen[k] = enc_seen.get(k, 0) + 1
        if want:
            chk.nontrivial((json.dumps(tag), cfg))
        if len(chk.samples) < 5 and len(want) > 10:
            chk.sample({"file": tag, "read": {"batch_size": cfg[0], "partitions": cfg[1], "chaosfs": cfg[2]}, "rows": len(want), "first_row": want[0]})
        return
    if kind == "fmeta":
        want = [[info["num_rows"], len(info["row_groups"]), "vf-pqwrite"]]
    elif kind == "rgmeta":
        want = [[i, rg["num_rows"], len(cols)] for i, rg in enumerate(info["row_groups"])]
    else:
        want = [[i, j, cc["num_values"], cc["total_compressed_size"], cc["total_uncompressed_size"], cc["data_page_offset"]]
                for i, rg in enumerate(info["row_groups"]) for j, cc in enumerate(rg["columns"])]
    if rows != want:
        chk.violation({"kind": "wrong-metadata", "fn": kind}, f"{what}: {kind} returned {rows[:4]} expected {want[:4]}", replay)
    else:
        chk.count("metadata_rows_compared", len(want))
