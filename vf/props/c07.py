"""C07 — grouping, aggregates and duplicate elimination are exact per group and independent of the split."""
import json, math
from fractions import Fraction
from vf import run as vrun
from vf import compare, knowncases
from vf.core import outcome_signature
from vf.props.c06 import KEY_TYPES, lit

AGGS = [
    ("count(*)", "count_star"), ("count(x)", "count_x"), ("sum(x)", "sum_x"), ("avg(x)", "avg_x"), ("min(x)", "min_x"), ("max(x)", "max_x"),
    ("sum(d)", "sum_d"), ("avg(d)", "avg_d"), ("min(d)", "min_d"), ("max(d)", "max_d"), ("min(s)", "min_s"), ("max(s)", "max_s"),
    ("bool_and(b)", "bool_and"), ("bool_or(b)", "bool_or"), ("bit_and(x)", "bit_and"), ("bit_or(x)", "bit_or"),
    ("string_agg(s, '|')", "string_agg"), ("stddev_pop(x)", "stddev_pop"), ("stddev_samp(x)", "stddev_samp"), ("var_pop(x)", "var_pop"),
    ("var_samp(x)", "var_samp"), ("count(DISTINCT x)", "countd_x"), ("sum(DISTINCT x)", "sumd_x"), ("avg(DISTINCT x)", "avgd_x"),
    ("count(DISTINCT s)", "countd_s"), ("sum(y)", "sum_y"), ("max(y)", "max_y"), ("first(x)", "first_x"), ("sum(x + y)", "sum_xy"), ("sum(x)", "sum_x2"),
]


def agg_value(kind, rows):
    """rows: list of dict(x,y,d,s,b). Returns expected value or a checker marker."""
    xs = [r["x"] for r in rows if r["x"] is not None]
    ys = [r["y"] for r in rows if r["y"] is not None]
    ds = [r["d"] for r in rows if r["d"] is not None]
    ss = [r["s"] for r in rows if r["s"] is not None]
    bs = [r["b"] for r in rows if r["b"] is not None]
    if kind == "count_star":
        return len(rows)
    if kind == "count_x":
        return len(xs)
    if kind in ("sum_x", "sum_x2"):
        return sum(xs) if xs else None
    if kind == "avg_x":
        return ("f", float(Fraction(sum(xs), len(xs)))) if xs else None
    if kind == "min_x":
        return min(xs) if xs else None
    if kind == "max_x":
        return max(xs) if xs else None
    if kind == "sum_d":
        return ("f", math.fsum(ds)) if ds else None
    if kind == "avg_d":
        return ("f", math.fsum(ds) / len(ds)) if ds else None
    if kind == "min_d":
        return ("f", min(ds)) if ds else None
    if kind == "max_d":
        return ("f", max(ds)) if ds else None
    if kind == "min_s":
        return min(ss, key=lambda s: s.encode()) if ss else None
    if kind == "max_s":
        return max(ss, key=lambda s: s.encode()) if ss else None
    if kind == "bool_and":
        return all(bs) if bs else None
    if kind == "bool_or":
        return any(bs) if bs else None
    if kind == "bit_and":
        if not xs:
            return None
        v = xs[0]
        for x in xs[1:]:
            v &= x
        return v
    if kind == "bit_or":
        if not xs:
            return None
        v = xs[0]
        for x in xs[1:]:
            v |= x
        return v
    if kind == "string_agg":
        return ("pieces", sorted(ss)) if ss else None
    if kind in ("stddev_pop", "var_pop", "stddev_samp", "var_samp"):
        n = len(xs)
        if n == 0 or (n == 1 and kind.endswith("samp")):
            return None
        mean = Fraction(sum(xs), n)
        ssq = sum((Fraction(x) - mean) ** 2 for x in xs)
        var = ssq / (n if kind.endswith("pop") else n - 1)
        return ("f", math.sqrt(float(var)) if kind.startswith("stddev") else float(var))
    if kind == "countd_x":
        return len(set(xs))
    if kind == "sumd_x":
        return sum(set(xs)) if xs else None
    if kind == "avgd_x":
        return ("f", float(Fraction(sum(set(xs)), len(set(xs))))) if xs else None
    if kind == "countd_s":
        return len(set(ss))
    if kind == "sum_y":
        return sum(ys) if ys else None
    if kind == "max_y":
        return max(ys) if ys else None
    if kind == "first_x":
        return ("member", [r["x"] for r in rows]) if rows else None
    if kind == "sum_xy":
        v = [r["x"] + r["y"] for r in rows if r["x"] is not None and r["y"] is not None]
        return sum(v) if v else None
    raise ValueError(kind)


def val_matches(want, got):
    if isinstance(want, tuple):
        if want[0] == "f":
            return got is not None and compare.val_eq(want[1], float(got) if not isinstance(got, bool) else None)
        if want[0] == "pieces":
            return isinstance(got, str) and sorted(got.split("|")) == want[1]
        if want[0] == "member":
            return any(compare.val_eq(m, got) for m in want[1])
    return compare.val_eq(want, got)


def gen_rows(rng, t, n, ngroups, null_p):
    f = KEY_TYPES[t]
    keys = []
    if t in ("INT", "BIGINT") and ngroups > 20:
        keys = list(range(ngroups))
    else:
        for _ in range(60):
            k = f(rng)
            if k not in keys:
                keys.append(k)
            if len(keys) >= ngroups:
                break
    rows = []
    for i in range(n):
        g = None if rng.random() < null_p else rng.choice(keys) if keys else None
        rows.append({"g": g, "x": None if rng.random() < 0.15 else rng.randint(-50, 50), "y": None if rng.random() < 0.1 else rng.randint(-1000, 1000),
                     "d": None if rng.random() < 0.15 else rng.randint(-80, 80) / 8.0, "s": None if rng.random() < 0.15 else rng.choice(["a", "b", "ab", "longer than twelve bytes", "zz", ""]),
                     "b": None if rng.random() < 0.2 else rng.random() < 0.6})
    return rows


def insert_sql(name, t, rows):
    out = [f"CREATE TEMP TABLE {name} (g {t}, x INT, y BIGINT, d DOUBLE, s TEXT, b BOOLEAN)"]

    def row(r, first):
        def c(v, ty):
            if v is None:
                return f"CAST(NULL AS {ty})" if first else "NULL"
            if ty == "TEXT":
                return "'" + v + "'"
            if ty == "BOOLEAN":
                return "true" if v else "false"
            if ty == "DOUBLE":
                return f"'{v!r}'::DOUBLE"
            if ty == "BIGINT":
                return f"({v})::BIGINT"
            return f"CAST({v} AS INT)" if first else f"({v})"
        return f"({lit(r['g'], t)}, {c(r['x'], 'INT')}, {c(r['y'], 'BIGINT')}, {c(r['d'], 'DOUBLE')}, {c(r['s'], 'TEXT')}, {c(r['b'], 'BOOLEAN')})"
    for i in range(0, len(rows), 400):
        chunk = rows[i:i + 400]
        out.append(f"INSERT INTO {name} VALUES " + ", ".join(row(r, j == 0) for j, r in enumerate(chunk)))
    return out


def run(chk):
    thorough = chk.tier == "thorough"
    rng = chk.rng
    chk.rule = ("tables with a group key of each type and x/y/d/s/b payload columns (NULL-rich), group cardinalities {1, few, many > initial hash "
                "directory capacity (resizes during build and merge), all-NULL keys}; 30 aggregates incl. DISTINCT variants in one query per "
                "grouping form {ungrouped, (g), (g,b), ROLLUP(g,b), CUBE(g,b)+GROUPING, SELECT DISTINCT, UNION, empty input}; the same data "
                "loaded in 3 row orders and aggregated with 1/2/3/8 partitions under adversarial schedules; oracle = Python per-group "
                "computation on the echoed rows (exact for integers, 1e-9 relative for float accumulators, multiset for string_agg, "
                "membership for first()). distinct non-trivial = distinct (key type, cardinality, grouping form, partitions, row order) compared")
    chk.assumptions = ["float inputs are dyadic rationals so sums are exact in any association order"]
    knowncases.run_known_cases(chk)
    n_cases = 300 if thorough else 30
    types = list(KEY_TYPES)
    cases = []
    meta = {}
    sel_aggs = ", ".join(f"{sql} AS a{i}" for i, (sql, _) in enumerate(AGGS))
    for ci in range(n_cases):
        t = types[ci % len(types)]
        card = rng.choice(["one", "few", "few", "many", "allnull"])
        if card == "many" and t not in ("INT", "BIGINT"):
            card = "few"
        n = rng.choice([0, 1, 7, 40, 300]) if card != "many" else rng.choice([6000, 15000])
        ng = {"one": 1, "few": rng.choice([2, 5]), "many": n // 2, "allnull": 1}[card]
        rows = gen_rows(rng, t, n, ng, 1.0 if card == "allnull" else rng.choice([0, 0.1, 0.3]))
        orders = [rows, list(reversed(rows)), sorted(rows, key=lambda r: (r["x"] is None, r["x"] or 0))]
        steps = []
        for oi, rs in enumerate(orders):
            steps += [{"sql": s, "out": "count"} for s in insert_sql(f"t{oi}", t, rs)]
        nload = len(steps)
        steps.append({"sql": "SELECT g, x, y, d, s, b FROM t0"})
        qspecs = []
        for oi in range(3):
            for parts in ([1, 2, 3, 8] if (thorough or oi == 0) else [rng.choice([2, 3, 8])]):
                pol = rng.choice([{"policy": "random"}, {"policy": "starve", "starve_k": rng.randint(1, 9)}, {"policy": "lifo"}, {"policy": "pct", "pct_d": 2, "pct_k": 200}])
                ex = dict(kind="det", seed=rng.randint(0, 1 << 30), yield_p=rng.choice([0, 0.05, 0.3]), **pol)
                steps.append({"sql": f"SET partitions TO {parts}", "out": "count"})
                forms = [("ungrouped", f"SELECT {sel_aggs} FROM t{oi}"),
                         ("g", f"SELECT g, {sel_aggs} FROM t{oi} GROUP BY g"),
                         ("gb", f"SELECT g, b, {sel_aggs} FROM t{oi} GROUP BY g, b")]
                if n <= 300:
                    forms += [("rollup", f"SELECT g, b, grouping(g, b) AS gr, {sel_aggs} FROM t{oi} GROUP BY ROLLUP (g, b)"),
                              ("cube", f"SELECT g, b, grouping(g, b) AS gr, {sel_aggs} FROM t{oi} GROUP BY CUBE (g, b)"),
                              ("distinct", f"SELECT DISTINCT g, b FROM t{oi}"),
                              ("union", f"SELECT g, b FROM t{oi} UNION SELECT g, b FROM t{(oi + 1) % 3}"),
                              ("empty_ungrouped", f"SELECT {sel_aggs} FROM t{oi} WHERE x > 1000"),
                              ("empty_grouped", f"SELECT g, {sel_aggs} FROM t{oi} WHERE x > 1000 GROUP BY g")]
                for fname, sql in forms:
                    steps.append({"sql": sql, "exec": ex})
                    qspecs.append((len(steps) - 1, fname, parts, oi))
        c = {"id": f"c07-{ci}", "exec": {"kind": "det", "policy": "random", "seed": ci}, "steps": steps, "max_rows": 100000}
        cases.append(c)
        meta[c["id"]] = (t, card, n, nload, qspecs)
    results, m = vrun.run_sharded(cases, shards=16, wall_s=3000 if thorough else 900)
    forms_cmp = {}
    for c in cases:
        t, card, n, nload, qspecs = meta[c["id"]]
        res = results.get(c["id"])
        if res is None or "not_run" in res or "fatal" in res:
            chk.inconc("case not run")
            continue
        if "died" in res:
            chk.violation(outcome_signature(res), f"{t}/{card}/n={n}: process died {json.dumps(res['died'])[:300]}", {"cases": [c]})
            continue
        steps = res["steps"]
        bad = [st for st in steps[:nload + 1] if st["outcome"] not in ("rows", "empty")]
        if bad:
            if bad[0]["outcome"] == "panic":
                chk.violation(outcome_signature(bad[0]), f"{t}: panic while loading {bad[0].get('panic_msg')}", {"cases": [c]})
            else:
                chk.violation({"kind": "load-failed", "type": t}, f"{t}: load failed {json.dumps(bad[0])[:300]}", {"cases": [c]})
            continue
        echo = [compare.dec_row(r) for r in steps[nload]["rows"]]
        rows = [dict(zip("gxydsb", r)) for r in echo]

        def gkey(v):
            return ("n",) if v is None else ("v", v)
        for (si, fname, parts, oi) in qspecs:
            st = steps[si]
            sql = c["steps"][si]["sql"]
            chk.evaluated()
            what = f"{t}/{card}/n={n}/p{parts}/order{oi} {fname}"
            if st["outcome"] == "skipped":
                break
            if st["outcome"] == "panic":
                chk.violation(outcome_signature(st), f"{what}: panic {st.get('panic_msg')} @ {st.get('panic_loc')}", {"cases": [c]})
                break
            if st["outcome"] in ("deadlock", "diverged"):
                chk.violation({"kind": "outcome", "class": st["outcome"], "deadlock_kind": st.get("deadlock_kind"), "parked_ops": st.get("parked_ops")}, f"{what}: {st['outcome']}", {"cases": [c]})
                continue
            if st["outcome"] == "error":
                first = st.get("error", "").split("\n")[0]
                from vf import qcheck
                chk.violation({"kind": "unexpected-error", "message": qcheck.compare_msg(first)}, f"{what}: {first}\n{sql[:300]}", {"cases": [c]})
                continue
            got = [compare.dec_row(r) for r in st.get("rows", [])]
            src = rows if not fname.startswith("empty") else []
            problems = None
            if fname in ("distinct", "union"):
                want = set((gkey(r["g"]), gkey(r["b"])) for r in rows)
                have = [(gkey(r[0]), gkey(r[1])) for r in got]
                if len(have) != len(set(have)) or set(have) != want:
                    problems = f"distinct set differs: {len(have)} rows, {len(set(have))} distinct, expected {len(want)}"
            else:
                # expected groups
                if fname in ("ungrouped", "empty_ungrouped"):
                    groups = {(): src}
                    nk = 0
                elif fname in ("g", "empty_grouped"):
                    groups = {}
                    for r in src:
                        groups.setdefault((gkey(r["g"]),), []).append(r)
                    nk = 1
                elif fname == "gb":
                    groups = {}
                    for r in src:
                        groups.setdefault((gkey(r["g"]), gkey(r["b"])), []).append(r)
                    nk = 2
                else:
                    groups = {}
                    sets = [(1, 1), (1, 0), (0, 0)] if fname == "rollup" else [(1, 1), (1, 0), (0, 1), (0, 0)]
                    for (ug, ub) in sets:
                        gr = (0 if ug else 2) + (0 if ub else 1)
                        if not src and (ug, ub) == (0, 0):
                            continue   # ROLLUP/CUBE over empty input: undocumented, not compared
                        for r in src:
                            k = (gkey(r["g"]) if ug else ("n",), gkey(r["b"]) if ub else ("n",), gr)
                            groups.setdefault(k, []).append(r)
                    nk = 3
                seen = {}
                for r in got:
                    if nk == 3:
                        k = (gkey(r[0]), gkey(r[1]), r[2])
                    else:
                        k = tuple(gkey(v) for v in r[:nk])
                    if k in seen:
                        problems = f"group {k} returned twice"
                        break
                    seen[k] = r[nk:]
                if problems is None and set(seen) != set(groups):
                    missing = list(set(groups) - set(seen))[:3]
                    extra = list(set(seen) - set(groups))[:3]
                    problems = f"group set differs: missing {missing} extra {extra} ({len(seen)} vs {len(groups)})"
                if problems is None:
                    for k, grp in groups.items():
                        vals = seen[k]
                        for (asql, akind), v in zip(AGGS, vals):
                            want = agg_value(akind, grp)
                            if not val_matches(want, v):
                                problems = f"group {k}: {asql} = {v!r}, expected {want!r} over {len(grp)} rows"
                                break
                        if problems:
                            break
            if problems:
                chk.violation({"kind": "wrong-aggregate", "form": fname, "detail": problems.split(":")[1].split("=")[0].strip()[:30] if ":" in problems else problems[:30]},
                              f"{what}: {problems}\n{sql[:200]}", {"cases": [c]})
            else:
                forms_cmp[fname] = forms_cmp.get(fname, 0) + 1
                chk.nontrivial((t, card, fname, parts, oi, n))
        if len(chk.samples) < 5 and n:
            chk.sample({"key_type": t, "cardinality": card, "rows": n, "query": c["steps"][meta[c['id']][4][1][0]]["sql"][:300]})
    chk.extra["grouping_forms_compared"] = forms_cmp
