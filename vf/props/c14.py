"""C14 — catalog and table contents equal the sequential effect of DDL/DML (history vs. sequential model)."""
import json
from vf import run as vrun
from vf import compare, knowncases
from vf.core import outcome_signature
from vf.vals import decode

LAYOUTS = {
    "L0": [("a", "INT"), ("b", "TEXT")],
    "L1": [("a", "INT")],
    "L2": [("a", "BIGINT"), ("b", "TEXT"), ("c", "DOUBLE")],
}
SETTINGS = {"partitions": ["1", "2", "3", "8"], "batch_size": ["1", "16", "2048", "4096", "8192"], "enable_optimizer": ["true", "false"], "enable_hash_joins": ["true", "false"]}


class SessionModel:
    def __init__(self, defaults):
        self.schemas = {"temp": {}}      # schema -> {name: ("table", layout, rows) | ("view", base_schema, base_name)}
        self.settings = dict(defaults)
        self.defaults = dict(defaults)
        self.pinned = set()             # (schema, table) with a view on top: never dropped by the generator


def qual(schema, name):
    return name if schema == "temp" else f"{schema}.{name}"


def row_sql(layout, rid, rng):
    vals = []
    for (c, t) in LAYOUTS[layout]:
        if c == "a":
            vals.append(str(rid))
        elif t == "TEXT":
            vals.append(rng.choice(["'x'", "'yy'", "NULL", "'longer than twelve bytes'"]))
        else:
            vals.append(rng.choice(["0.5", "NULL", "-2.25"]))
    return "(" + ", ".join(vals) + ")", vals


def val_of(sqlv, t):
    if sqlv == "NULL":
        return None
    if t == "TEXT":
        return sqlv.strip("'")
    if t == "DOUBLE":
        return float(sqlv)
    return int(sqlv)


def gen_history(rng, nsess, nstmts, defaults, big):
    """-> (steps [(session, sql, expect 'ok'|'error'|None, probe spec)], final model)"""
    models = [SessionModel(defaults) for _ in range(nsess)]
    steps = []
    next_id = [1]
    views = [0]
    self_inserts = [0]

    def add(s, sql, expect, probe=None):
        steps.append({"s": s, "sql": sql, "expect": expect, "probe": probe})

    def tables_of(m):
        return [(sc, n) for sc, objs in m.schemas.items() for n, o in objs.items() if o[0] == "table"]

    for i in range(nstmts):
        s = rng.randrange(nsess)
        m = models[s]
        r = rng.random()
        if r < 0.06:
            sc = rng.choice(["s1", "s2"])
            ine = rng.random() < 0.4
            exists = sc in m.schemas
            add(s, f"CREATE SCHEMA {'IF NOT EXISTS ' if ine else ''}{sc}", "error" if (exists and not ine) else "ok")
            if not exists:
                m.schemas[sc] = {}
        elif r < 0.10:
            sc = rng.choice(["s1", "s2"])
            ie = rng.random() < 0.4
            exists = sc in m.schemas
            if exists and m.schemas[sc]:
                continue   # dropping a non-empty schema without CASCADE: undocumented, not generated
            add(s, f"DROP SCHEMA {'IF EXISTS ' if ie else ''}{sc}", "error" if (not exists and not ie) else "ok")
            if exists:
                del m.schemas[sc]
        elif r < 0.24:
            sc = rng.choice(list(m.schemas) + ["temp", "s1"])
            name = rng.choice(["t1", "t2", "t3"])
            lay = rng.choice(list(LAYOUTS))
            ine = rng.random() < 0.35
            cols = ", ".join(f"{c} {t}" for c, t in LAYOUTS[lay])
            if sc not in m.schemas:
                add(s, f"CREATE TEMP TABLE {'IF NOT EXISTS ' if ine else ''}{qual(sc, name)} ({cols})", "error")
                continue
            exists = name in m.schemas[sc]
            add(s, f"CREATE TEMP TABLE {'IF NOT EXISTS ' if ine else ''}{qual(sc, name)} ({cols})", "error" if (exists and not ine) else "ok")
            if not exists:
                m.schemas[sc][name] = ("table", lay, [])
        elif r < 0.32:
            tabs = [(sc, n) for (sc, n) in tables_of(m) if (sc, n) not in m.pinned]
            ie = rng.random() < 0.4
            if tabs and rng.random() < 0.7:
                sc, name = rng.choice(tabs)
                add(s, f"DROP TABLE {'IF EXISTS ' if ie else ''}{qual(sc, name)}", "ok")
                del m.schemas[sc][name]
            else:
                sc = rng.choice(list(m.schemas))
                name = "t9"
                add(s, f"DROP TABLE {'IF EXISTS ' if ie else ''}{qual(sc, name)}", "ok" if ie else "error")
        elif r < 0.62:
            tabs = tables_of(m)
            if not tabs:
                continue
            sc, name = rng.choice(tabs)
            _, lay, rows = m.schemas[sc][name]
            kind = rng.random()
            if kind < 0.55:
                n = rng.choice([1, 1, 3, 10])
                vs = []
                newrows = []
                for _ in range(n):
                    rid = next_id[0]
                    next_id[0] += 1
                    sqlr, vals = row_sql(lay, rid, rng)
                    vs.append(sqlr)
                    newrows.append(tuple(val_of(v, t) for v, (c, t) in zip(vals, LAYOUTS[lay])))
                add(s, f"INSERT INTO {qual(sc, name)} VALUES {', '.join(vs)}", "ok", ("count", n))
                rows.extend(newrows)
            elif kind < 0.62:
                # wrong arity: must fail and change nothing
                add(s, f"INSERT INTO {qual(sc, name)} VALUES (1, 2, 3, 4, 5)", "error")
            elif kind < 0.72:
                # fails on the k-th row (cast of a non-numeric text) : nothing may be inserted
                k = rng.randint(1, 5)
                ids = []
                parts = []
                for j in range(6):
                    rid = next_id[0]
                    next_id[0] += 1
                    parts.append(f"('{rid if j != k else 'oops'}')")
                extra = "".join(", NULL" for _ in LAYOUTS[lay][1:])
                add(s, f"INSERT INTO {qual(sc, name)} SELECT CAST(v.x AS {LAYOUTS[lay][0][1]}){extra} FROM (VALUES {', '.join(parts)}) v(x)", "error")
            elif kind < 0.86:
                # INSERT .. SELECT from the target itself: snapshot rule
                self_inserts[0] += 1
                off = 1_000_000 * self_inserts[0]
                sel = ", ".join((f"a + {off}" if c == "a" else c) for c, t in LAYOUTS[lay])
                if len(rows) > 4000:
                    continue
                add(s, f"INSERT INTO {qual(sc, name)} SELECT {sel} FROM {qual(sc, name)}", "ok", ("count", len(rows)))
                rows.extend([tuple((v + off if j == 0 else v) for j, v in enumerate(r)) for r in list(rows)])
            else:
                # insert from another table with the same layout (or CTAS below)
                others = [(sc2, n2) for (sc2, n2) in tabs if m.schemas[sc2][n2][1] == lay and (sc2, n2) != (sc, name)]
                if not others:
                    continue
                sc2, n2 = rng.choice(others)
                src = m.schemas[sc2][n2][2]
                off = 50_000_000 + i * 10_000
                sel = ", ".join((f"a + {off}" if c == "a" else c) for c, t in LAYOUTS[lay])
                add(s, f"INSERT INTO {qual(sc, name)} SELECT {sel} FROM {qual(sc2, n2)}", "ok", ("count", len(src)))
                rows.extend([tuple((v + off if j == 0 else v) for j, v in enumerate(r)) for r in src])
        elif r < 0.68:
            tabs = tables_of(m)
            if not tabs:
                continue
            sc, name = rng.choice(tabs)
            _, lay, rows = m.schemas[sc][name]
            sc2 = rng.choice(list(m.schemas))
            n2 = rng.choice(["t1", "t2", "t3"])
            exists = n2 in m.schemas[sc2]
            pred = rng.choice(["", " WHERE a % 2 = 0", " WHERE b IS NULL" if lay != "L1" else ""])
            keep = [r_ for r_ in rows if (pred == "" or (pred.endswith("= 0") and r_[0] % 2 == 0) or (pred.endswith("NULL") and r_[1] is None))]
            add(s, f"CREATE TEMP TABLE {qual(sc2, n2)} AS SELECT * FROM {qual(sc, name)}{pred}", "error" if exists else "ok", None if exists else ("count", len(keep)))
            if not exists:
                m.schemas[sc2][n2] = ("table", lay, list(keep))
        elif r < 0.72 and views[0] < 4:
            tabs = tables_of(m)
            if not tabs:
                continue
            sc, name = rng.choice(tabs)
            views[0] += 1
            vname = f"v{views[0]}"
            add(s, f"CREATE TEMP VIEW {vname} AS SELECT a FROM {qual(sc, name)} WHERE a % 2 = 1", "ok")
            m.schemas["temp"][vname] = ("view", sc, name)
            m.pinned.add((sc, name))
        elif r < 0.82:
            key = rng.choice(list(SETTINGS))
            k2 = rng.random()
            if k2 < 0.6:
                v = rng.choice(SETTINGS[key])
                add(s, f"SET {key} TO {v}", "ok")
                m.settings[key] = v
            elif k2 < 0.8:
                add(s, f"RESET {key}", "ok")
                m.settings[key] = m.defaults[key]
            elif k2 < 0.9:
                add(s, "RESET ALL", "ok")
                m.settings = dict(m.defaults)
            else:
                add(s, rng.choice(["SET partitions TO 0", "SET batch_size TO 0", "SET enable_optimizer TO 5", "SET nosuch TO 1", "SET partitions TO 100000"]), "error")
        else:
            # observation in the middle of the history
            add(s, None, None, ("observe", json.loads(json.dumps(snapshot(m)))))
    if big:
        # an append that crosses the flush threshold (>= 32768 rows per append state) while being scanned afterwards
        s = 0
        m = models[0]
        if "temp" in m.schemas and "big" not in m.schemas["temp"]:
            add(s, "CREATE TEMP TABLE big (a BIGINT)", "ok")
            add(s, "SET partitions TO 1", "ok")
            m.settings["partitions"] = "1"
            # batches larger than a storage chunk (2048 rows) are split over several chunks when appended
            bsz = rng.choice(["2048", "4096", "8192", "8192"])
            add(s, f"SET batch_size TO {bsz}", "ok")
            m.settings["batch_size"] = bsz
            add(s, "INSERT INTO big SELECT x FROM generate_series(1, 40000) g(x)", "ok", ("count", 40000))
            add(s, "SELECT count(*), sum(a), min(a), max(a), count(DISTINCT a) FROM big", "ok", ("row", [40000, 40000 * 40001 // 2, 1, 40000, 40000]))
            # the statement must read the table as of its start even when its own appends are flushed while it runs
            p = rng.choice(["1", "2", "8"])
            add(s, f"SET partitions TO {p}", "ok")
            m.settings["partitions"] = p
            add(s, "INSERT INTO big SELECT a + 100000 FROM big", "ok", ("count", 40000))
            add(s, "SELECT count(*), sum(a), min(a), max(a) FROM big", "ok", ("row", [80000, 40000 * 40001 + 40000 * 100000, 1, 140000]))
            m.schemas["temp"]["big"] = ("table", "L1", None)
    for si, m in enumerate(models):
        add(si, None, None, ("observe", json.loads(json.dumps(snapshot(m)))))
    return steps


def snapshot(m):
    snap = {"schemas": sorted(m.schemas), "tables": [], "views": [], "settings": dict(m.settings)}
    for sc, objs in m.schemas.items():
        for n, o in objs.items():
            if o[0] == "table":
                snap["tables"].append([sc, n, o[1], None if o[2] is None else [list(r) for r in o[2]]])
            else:
                base = m.schemas.get(o[1], {}).get(o[2])
                snap["views"].append([sc, n, None if base is None or base[2] is None else sorted(r[0] for r in base[2] if r[0] % 2 == 1)])
    snap["tables"].sort(key=lambda x: (x[0], x[1]))
    return snap


def observe_steps(s, snap):
    """SQL probes whose results are compared with the snapshot."""
    out = [{"s": s, "sql": "SELECT schema_name, table_name FROM list_tables() WHERE database_name = 'temp' ORDER BY 1, 2", "_obs": ("tables",)},
           {"s": s, "sql": "SELECT schema_name FROM list_schemas() WHERE database_name = 'temp' ORDER BY 1", "_obs": ("schemas",)}]
    for (sc, n, lay, rows) in snap["tables"]:
        if rows is None:
            continue
        out.append({"s": s, "sql": f"SELECT * FROM {qual(sc, n)}", "_obs": ("rows", sc, n)})
        out.append({"s": s, "sql": f"DESCRIBE {qual(sc, n)}", "_obs": ("describe", lay)})
    for (sc, n, ids) in snap["views"]:
        if ids is not None:
            out.append({"s": s, "sql": f"SELECT a FROM {n}", "_obs": ("view", sc, n)})
    for k in SETTINGS:
        out.append({"s": s, "sql": f"SHOW {k}", "_obs": ("setting", k)})
    return out


TYPE_NAMES = {"INT": "Int32", "BIGINT": "Int64", "TEXT": "Utf8", "DOUBLE": "Float64"}


def run(chk):
    thorough = chk.tier == "thorough"
    rng = chk.rng
    chk.rule = ("random histories (30-150 statements) over 3 schemas x 3 table names x 3 column layouts: CREATE/DROP SCHEMA/TABLE with and without "
                "IF [NOT] EXISTS, qualified names, CREATE TABLE AS, INSERT VALUES / INSERT SELECT (from the target itself = snapshot rule, from other "
                "tables, wrong arity, failing on the k-th row), TEMP VIEWs, SET/RESET/RESET ALL/invalid SET, across 1-3 sessions of one engine with "
                "statements interleaved, random partitions, appends crossing the 32768-row flush threshold. Every inserted row carries a unique id; "
                "after the history and at random points each session's object lists, table contents (by id), view contents, DESCRIBE output and "
                "settings are diffed against a sequential Python model; each statement's ok/error class must match. distinct non-trivial = distinct "
                "(history, observation point) whose snapshot contained at least one table")
    chk.assumptions = ["error/ok classes only (messages are not compared)", "dropping a non-empty schema is not generated (no documented rule)"]
    knowncases.run_known_cases(chk)
    nhist = 400 if thorough else 50
    # defaults: read from a fresh session
    # defaults depend on the executor (partitions = worker threads): each history starts by reading them
    defaults = {k: "<default>" for k in SETTINGS}
    cases = []
    meta = {}
    for hi in range(nhist):
        nsess = rng.choice([1, 1, 2, 3])
        hist = gen_history(rng, nsess, rng.choice([30, 60, 150]), defaults, big=(hi % 5 == 0))
        steps = [{"s": 0, "sql": f"SHOW {k}"} for k in SETTINGS]
        spec = [("default", k, None, 0) for k in SETTINGS]
        for h in hist:
            if h["sql"] is None:
                obs = observe_steps(h["s"], h["probe"][1])
                for o in obs:
                    steps.append({"s": o["s"], "sql": o["sql"]})
                    spec.append(("obs", o["_obs"], h["probe"][1], h["s"]))
            else:
                steps.append({"s": h["s"], "sql": h["sql"]})
                spec.append(("stmt", h["expect"], h["probe"], h["s"]))
        if hi % 5 == 4:
            ex = {"kind": "native", "threads": rng.choice([2, 4, 8]), "partitions": 4, "timeout_s": 300, "pause_p": rng.choice([0, 0.01])}
        else:
            ex = {"kind": "det", "policy": rng.choice(["random", "random", "lifo", "fifo", "pct"]), "seed": rng.randint(0, 1 << 30), "yield_p": rng.choice([0, 0.05, 0.3]), "partitions": 4, "step_budget": 30_000_000}
        chk.count("executor " + ex["kind"] + "/" + ex.get("policy", "threads"))
        c = {"id": f"c14-{hi}", "exec": ex, "sessions": nsess, "steps": steps, "max_rows": 200000}
        cases.append(c)
        meta[c["id"]] = spec
    results, m = vrun.run_sharded(cases, shards=16, wall_s=3000 if thorough else 900)
    for c in cases:
        spec = meta[c["id"]]
        res = results.get(c["id"])
        if res is None or "not_run" in res or "fatal" in res:
            chk.inconc("history not run")
            continue
        if "died" in res:
            chk.violation(outcome_signature(res), f"process died: {json.dumps(res['died'])[:300]}", {"cases": [c]})
            continue
        broken = False
        dflt = {}
        for j, (st, sp) in enumerate(zip(res["steps"], spec)):
            sql = c["steps"][j]["sql"]
            chk.evaluated()
            if st["outcome"] == "skipped":
                break
            if st["outcome"] == "panic":
                chk.violation(outcome_signature(st), f"step {j}: panic {st.get('panic_msg')} @ {st.get('panic_loc')}\n{sql[:300]}", {"cases": [c], "step": j})
                break
            if st["outcome"] == "timeout":
                chk.inconc("statement hit the wall-clock watchdog on the native executor")
                broken = True
                break
            if st["outcome"] in ("deadlock", "diverged"):
                chk.violation({"kind": "outcome", "class": st["outcome"], "deadlock_kind": st.get("deadlock_kind"), "parked_ops": st.get("parked_ops"), "stmt": sql.split()[0]},
                              f"step {j}: {st['outcome']} parked at {st.get('parked_ops')}\n{sql[:300]}", {"cases": [c], "step": j})
                broken = True
                break
            ok = st["outcome"] in ("rows", "empty")
            if sp[0] == "default":
                if not ok:
                    chk.violation({"kind": "observation-failed", "what": "default"}, f"step {j}: {sql} failed", {"cases": [c], "step": j})
                    break
                dflt[sp[1]] = str(st["rows"][0][0]).lower()
                continue
            if sp[0] == "stmt":
                _, expect, probe, sess = sp
                if expect == "ok" and not ok:
                    first = (st.get("error") or "").split("\n")[0]
                    chk.violation({"kind": "statement-failed", "stmt": " ".join(sql.split()[:3])}, f"step {j} (session {sess}): expected success: {sql[:300]}\n-> {first}", {"cases": [c], "step": j})
                    broken = True
                    break
                if expect == "error" and ok:
                    chk.violation({"kind": "statement-succeeded", "stmt": " ".join(sql.split()[:3])}, f"step {j} (session {sess}): expected an error: {sql[:300]}\n-> {st.get('rows')}", {"cases": [c], "step": j})
                    broken = True
                    break
                if ok and probe:
                    if probe[0] == "count" and st.get("rows") != [[probe[1]]]:
                        chk.violation({"kind": "wrong-dml-count", "stmt": " ".join(sql.split()[:2])}, f"step {j}: {sql[:200]} reported {st.get('rows')} expected {probe[1]}", {"cases": [c], "step": j})
                        broken = True
                        break    # everything after the first divergence would only restate it
                    if probe[0] == "row" and [decode(v) for v in st["rows"][0]] != probe[1]:
                        chk.violation({"kind": "wrong-contents", "what": "big-append"}, f"step {j}: {sql[:200]} -> {st.get('rows')} expected {probe[1]}", {"cases": [c], "step": j})
                        broken = True
                        break
                continue
            _, obs, snap, sess = sp
            what = f"step {j} (session {sess}) observation {obs[0]}"
            if not ok:
                first = (st.get("error") or "").split("\n")[0]
                chk.violation({"kind": "observation-failed", "what": obs[0]}, f"{what}: {sql[:200]} -> {first}", {"cases": [c], "step": j})
                continue
            rows = [compare.dec_row(r) for r in st.get("rows", [])]
            if obs[0] == "tables":
                want = sorted((t[0], t[1]) for t in snap["tables"])
                if sorted(rows) != want:
                    chk.violation({"kind": "catalog-differs", "what": "tables"}, f"{what}: list_tables() = {sorted(rows)}, model = {want}", {"cases": [c], "step": j})
                elif want:
                    chk.nontrivial((c["id"], j))
            elif obs[0] == "schemas":
                want = sorted((s_,) for s_ in snap["schemas"])
                if sorted(rows) != want:
                    chk.violation({"kind": "catalog-differs", "what": "schemas"}, f"{what}: list_schemas() = {sorted(rows)}, model = {want}", {"cases": [c], "step": j})
            elif obs[0] == "rows":
                trow = next(t for t in snap["tables"] if t[0] == obs[1] and t[1] == obs[2])
                want = [tuple(r) for r in trow[3]]
                okb, why = compare.bag_equal(want, rows)
                if not okb:
                    ids_w = sorted(r[0] for r in want)
                    ids_g = sorted(r[0] for r in rows)
                    dup = len(ids_g) - len(set(ids_g))
                    chk.violation({"kind": "wrong-contents", "what": "rows", "dups": dup > 0},
                                  f"{what}: table {obs[1]}.{obs[2]}: {why}; {len(rows)} rows vs model {len(want)}; duplicated ids {dup}; missing {sorted(set(ids_w) - set(ids_g))[:5]} extra {sorted(set(ids_g) - set(ids_w))[:5]}", {"cases": [c], "step": j})
                    break
            elif obs[0] == "describe":
                want = [(cn, TYPE_NAMES[t]) for cn, t in LAYOUTS[obs[1]]]
                if rows != want:
                    chk.violation({"kind": "catalog-differs", "what": "describe"}, f"{what}: {rows} vs {want}", {"cases": [c], "step": j})
            elif obs[0] == "view":
                vrow = next(v for v in snap["views"] if v[1] == obs[2])
                if sorted(r[0] for r in rows) != vrow[2]:
                    chk.violation({"kind": "wrong-contents", "what": "view"}, f"{what}: view {obs[2]} returns {sorted(r[0] for r in rows)[:8]}.. model {vrow[2][:8]}..", {"cases": [c], "step": j})
            elif obs[0] == "setting":
                want = snap["settings"][obs[1]]
                if want == "<default>":
                    want = dflt.get(obs[1])
                got = str(rows[0][0]).lower() if rows else None
                if got != want:
                    chk.violation({"kind": "setting-differs", "key": obs[1]}, f"{what}: SHOW {obs[1]} = {got}, model = {want}", {"cases": [c], "step": j})
        if len(chk.samples) < 4:
            chk.sample({"sessions": c["sessions"], "statements": len(c["steps"]), "head": [s_["sql"][:100] for s_ in c["steps"][:6]]})
