"""C08 — ORDER BY yields a correctly sorted permutation; LIMIT/OFFSET the exact slice."""
import json, functools
from vf import run as vrun
from vf import compare, knowncases
from vf.core import outcome_signature
from vf.refsql import sort_key_cmp

VALS = {
    "TINYINT": ["-128", "-127", "-1", "0", "1", "126", "127"],
    "SMALLINT": ["-32768", "-32767", "-256", "-255", "-1", "0", "1", "255", "256", "32767"],
    "INT": ["-2147483648", "-65536", "-65535", "-1", "0", "1", "255", "256", "65535", "65536", "16777216", "2147483647"],
    "BIGINT": ["-9223372036854775808", "-4294967296", "-4294967295", "-1", "0", "1", "4294967295", "4294967296", "72057594037927936", "9223372036854775807"],
    "UTINYINT": ["0", "1", "127", "128", "255"],
    "USMALLINT": ["0", "1", "255", "256", "32767", "32768", "65535"],
    "UINT": ["0", "1", "2147483647", "2147483648", "4294967295"],
    "UBIGINT": ["0", "1", "9223372036854775807", "9223372036854775808", "18446744073709551615"],
    "REAL": ["NaN", "inf", "-inf", "0.0", "-0.0", "1.0", "-1.0", "1.0000001", "1.0000002", "3.4028235e38", "-3.4028235e38", "1e-45", "-1e-45", "1.17549435e-38"],
    "DOUBLE": ["NaN", "inf", "-inf", "0.0", "-0.0", "1.0", "-1.0", "1.0000000000000002", "1.0000000000000004", "1.00000000001", "1.00000000002", "-1.00000000001", "-1.00000000002",
               "1.7976931348623157e308", "-1.7976931348623157e308", "5e-324", "-5e-324", "2.2250738585072014e-308", "123456.789", "123456.7891", "0.1", "0.10000000000000002"],
    "DECIMAL(9,2)": ["-9999999.99", "-1.01", "-1.00", "-0.01", "0.00", "0.01", "1.00", "1.01", "9999999.99"],
    "DECIMAL(30,5)": ["-1234567890123456789012345.12345", "-1.00001", "0.00000", "0.00001", "1.00000", "1234567890123456789012345.12345", "1234567890123456789012345.12344"],
    "TEXT": ["", "a", "A", "aa", "ab", "b", "é", "z", "zz", "longer than twelve bytes", "longer than twelve bytez", "longer than twelve byte", "longer than twelvf",
             "123456789012", "1234567890123", "12345678901", "123456789012a", "123456789012b", "日本", "日本語", "ÿ", "Ā", "a\u0001", "a b", "~"],
    "DATE": ["0001-01-01", "1969-12-31", "1970-01-01", "1970-01-02", "2000-02-29", "9999-12-31"],
    "BOOLEAN": ["true", "false"],
}


def lit(v, t):
    if v is None:
        return f"CAST(NULL AS {t})"
    if t == "TEXT":
        return "'" + v + "'"
    if t == "DATE":
        return f"DATE '{v}'"
    if t == "BOOLEAN":
        return v
    return f"'{v}'::{t}"


def order_clause(keys):
    parts = []
    for (col, desc, nulls) in keys:
        s = col
        if desc is not None:
            s += " DESC" if desc else " ASC"
        if nulls:
            s += " NULLS " + nulls.upper()
        parts.append(s)
    return ", ".join(parts)


def run(chk):
    thorough = chk.tier == "thorough"
    rng = chk.rng
    chk.rule = ("(a) exhaustive 16-bit sweeps: all 65536 SMALLINT / USMALLINT values (+NULLs) in scrambled order under direction x null-placement "
                "combinations, many sort blocks and partitions; (b) boundary-biased values of every sortable type incl. NaN/+-0/+-inf, doubles "
                "differing only in low mantissa bits, strings sharing > 12-byte prefixes; (c) 1-3 keys of mixed types/directions; (d) batch "
                "sizes 4-64 x partitions 1-8 so many runs are merged; (e) LIMIT/OFFSET around 0, batch and input size with and without ORDER BY, "
                "limit-hint sort (optimizer on) vs full sort (off). Oracle: Python comparator on adjacent output rows + bag equality with the "
                "echoed input + admissible-slice rule. distinct non-trivial = distinct (key types, directions, null placement, config, limit) compared")
    chk.assumptions = ["default NULL placement is 'NULLs largest' (docs/sql/query-syntax/order-by.md); NaN sorts above every number; -0.0 ties with +0.0; text order is byte-wise"]
    knowncases.run_known_cases(chk)
    compare.set_exact(True)
    cases = []
    meta = {}
    # ---- (a) exhaustive 16-bit sweeps
    sweeps = [("SMALLINT", -32768), ("USMALLINT", 0)]
    combos = [(None, None), (True, None), (False, "first"), (True, "last"), (None, "first"), (True, "first"), (False, "last"), (None, "last")]
    for (t, off) in sweeps:
        for ci, (desc, nulls) in enumerate(combos if thorough else rng.sample(combos, 3)):
            parts = rng.choice([1, 2, 4, 8])
            bs = rng.choice([64, 2048, 8192])
            steps = [{"sql": f"SET partitions TO {parts}", "out": "count"}, {"sql": f"SET batch_size TO {bs}", "out": "count"},
                     {"sql": f"CREATE TEMP TABLE w AS SELECT (((x * 40503) % 65536) + ({off}))::{t} AS k FROM generate_series(0, 65535) g(x) UNION ALL SELECT CAST(NULL AS {t}) FROM generate_series(1, 3) h(y)", "out": "count"},
                     {"sql": "SELECT k FROM w ORDER BY " + order_clause([("k", desc, nulls)])}]
            c = {"id": f"c08-sweep-{t}-{ci}", "exec": {"kind": "det", "policy": "random", "seed": rng.randint(0, 1 << 30), "partitions": parts}, "steps": steps, "max_rows": 70000}
            cases.append(c)
            meta[c["id"]] = ("sweep", t, off, desc, nulls, parts, bs)
    # ---- (b)-(e) typed tables
    n_cases = 1500 if thorough else 200
    types = list(VALS)
    for ci in range(n_cases):
        kt = [types[ci % len(types)]] + [rng.choice(types) for _ in range(rng.choice([0, 1, 2]))]
        n = rng.choice([0, 1, 5, 30, 200])
        tie_heavy = ci % 3 == 2
        pools = None
        if tie_heavy:
            # layered ties: 2-4 keys, mostly variable-width ones (each adds a sort pass), each drawn from 2-3 values so that
            # neighbouring groups of an earlier key repeat the values of the later keys
            kt = [("TEXT" if rng.random() < 0.6 else rng.choice(types)) for _ in range(rng.choice([2, 3, 3, 4]))]
            n = rng.choice([5, 12, 30, 200])
            long_text = [v for v in VALS["TEXT"] if len(v.encode()) > 12]
            pools = [rng.sample(long_text if (t == "TEXT" and rng.random() < 0.4) else [v for v in VALS[t] if v != "-0.0"], min(rng.choice([1, 2, 3]), len(VALS[t]))) for t in kt]
            chk.count("tie-heavy multi-key tables")
        rows = []
        for i in range(n):
            if pools is not None:
                rows.append([i] + [None if rng.random() < 0.08 else rng.choice(pool) for pool in pools])
                continue
            # -0.0 and +0.0 compare equal but the engine sorts them as distinct values; no rule is documented, so the two
            # zeros only meet in single-key tables (where either arrangement is sorted)
            rows.append([i] + [None if rng.random() < 0.12 else rng.choice([v for v in VALS[t] if not (v == "-0.0" and len(kt) > 1)]) for t in kt])
        parts = rng.choice([1, 2, 3, 8])
        bs = rng.choice([4, 7, 16, 64, 2048])
        steps = [{"sql": f"SET partitions TO {parts}", "out": "count"}, {"sql": f"SET batch_size TO {bs}", "out": "count"},
                 {"sql": "CREATE TEMP TABLE s (id INT, " + ", ".join(f"k{j} {t}" for j, t in enumerate(kt)) + ")", "out": "count"}]
        for i in range(0, len(rows), 300):
            steps.append({"sql": "INSERT INTO s VALUES " + ", ".join("(" + str(r[0]) + ", " + ", ".join(lit(v, t) for v, t in zip(r[1:], kt)) + ")" for r in rows[i:i + 300]), "out": "count"})
        nload = len(steps)
        cols = ", ".join(["id"] + [f"k{j}" for j in range(len(kt))])
        steps.append({"sql": f"SELECT {cols} FROM s"})
        specs = []
        for _ in range(4):
            keys = []
            for j in (rng.sample(range(len(kt)), len(kt)) if tie_heavy else rng.sample(range(len(kt)), rng.randint(1, len(kt)))):
                keys.append((f"k{j}", rng.choice([None, False, True, True]), rng.choice([None, None, "first", "last"])))
            if rng.random() < (0.6 if tie_heavy else 0.3) and not (len(kt) == 1 and kt[0] in ("REAL", "DOUBLE")):
                keys.append(("id", rng.choice([None, True]), None))
            oc = order_clause(keys)
            order = [(1 + (0 if col == "id" else 1 + int(col[1:])), d, nl, "ord") for (col, d, nl) in keys]
            steps.append({"sql": f"SELECT {cols} FROM s ORDER BY {oc}"})
            specs.append((len(steps) - 1, "sort", order, None, None))
            lim = rng.choice([0, 1, bs - 1, bs, bs + 1, max(n - 1, 0), n, n + 1, 2 * n + 1])
            off = rng.choice([None, 0, 1, bs, n, max(n - 1, 0)])
            lsql = f"SELECT {cols} FROM s ORDER BY {oc} LIMIT {lim}" + (f" OFFSET {off}" if off is not None else "")
            steps.append({"sql": "SET enable_optimizer TO true", "out": "count"})
            steps.append({"sql": lsql})
            specs.append((len(steps) - 1, "sort_limit_hint", order, lim, off))
            steps.append({"sql": "SET enable_optimizer TO false", "out": "count"})
            steps.append({"sql": lsql})
            specs.append((len(steps) - 1, "sort_limit_full", order, lim, off))
            steps.append({"sql": "SET enable_optimizer TO true", "out": "count"})
        lim = rng.choice([0, 1, bs, n, n + 5])
        off = rng.choice([None, 0, 2, n])
        steps.append({"sql": f"SELECT {cols} FROM s LIMIT {lim}" + (f" OFFSET {off}" if off is not None else "")})
        specs.append((len(steps) - 1, "limit_unordered", [], lim, off))
        c = {"id": f"c08-{ci}", "exec": {"kind": "det", "policy": "random", "seed": rng.randint(0, 1 << 30), "yield_p": 0.05, "partitions": parts}, "steps": steps, "max_rows": 100000}
        cases.append(c)
        meta[c["id"]] = ("typed", kt, n, parts, bs, nload, specs)
    results, m = vrun.run_sharded(cases, shards=16, wall_s=3000 if thorough else 900)
    for c in cases:
        mt = meta[c["id"]]
        res = results.get(c["id"])
        if res is None or "not_run" in res or "fatal" in res:
            chk.inconc("case not run")
            continue
        if "died" in res:
            chk.violation(outcome_signature(res), f"{c['id']}: process died {json.dumps(res['died'])[:300]}", {"cases": [c]})
            continue
        steps = res["steps"]
        if mt[0] == "sweep":
            _, t, off, desc, nulls, parts, bs = mt
            st = steps[-1]
            chk.evaluated()
            what = f"sweep {t} desc={desc} nulls={nulls} partitions={parts} batch={bs}"
            if st["outcome"] != "rows" or any(s["outcome"] not in ("rows", "empty") for s in steps[:-1]):
                badst = next(s for s in steps if s["outcome"] not in ("rows", "empty"))
                sig = outcome_signature(badst) if badst["outcome"] == "panic" else {"kind": "unexpected-error", "where": "sweep"}
                chk.violation(sig, f"{what}: {json.dumps(badst)[:300]}", {"cases": [c]})
                continue
            got = [r[0] for r in st["rows"]]
            vals = list(range(off, off + 65536))
            if desc:
                vals.reverse()
            nulls_first = (nulls == "first") if nulls else bool(desc)
            want = ([None] * 3 + vals) if nulls_first else (vals + [None] * 3)
            if got != want:
                i = next((i for i, (a, b) in enumerate(zip(got, want)) if a != b), min(len(got), len(want)))
                chk.violation({"kind": "wrong-order", "type": t, "exhaustive": True}, f"{what}: first difference at position {i}: got {got[i:i+4]} expected {want[i:i+4]} (rows {len(got)})", {"cases": [c]})
            else:
                chk.nontrivial(("sweep", t, desc, nulls, parts, bs))
                chk.extra.setdefault("exhaustive_subspaces", []).append(f"{t}: all 65536 values + 3 NULLs, desc={desc} nulls={nulls}")
            continue
        _, kt, n, parts, bs, nload, specs = mt
        bad = [s for s in steps[:nload + 1] if s["outcome"] not in ("rows", "empty")]
        if bad:
            sig = outcome_signature(bad[0]) if bad[0]["outcome"] == "panic" else {"kind": "load-failed", "types": kt}
            chk.violation(sig, f"{kt}: load failed: {json.dumps(bad[0])[:300]}", {"cases": [c]})
            continue
        echo = [compare.dec_row(r) for r in steps[nload]["rows"]]
        for (si, kind, order, lim, off) in specs:
            st = steps[si]
            sql = c["steps"][si]["sql"]
            chk.evaluated()
            what = f"{kt} n={n} p{parts} b{bs} {kind}"
            if st["outcome"] == "skipped":
                break
            if st["outcome"] == "panic":
                chk.violation(outcome_signature(st), f"{what}: panic {st.get('panic_msg')} @ {st.get('panic_loc')}\n{sql}", {"cases": [c]})
                break
            if st["outcome"] in ("deadlock", "diverged"):
                chk.violation({"kind": "outcome", "class": st["outcome"], "deadlock_kind": st.get("deadlock_kind"), "parked_ops": st.get("parked_ops")}, f"{what}: {st['outcome']}\n{sql}", {"cases": [c]})
                continue
            if st["outcome"] == "error":
                first = st.get("error", "").split("\n")[0]
                if "OFFSET without LIMIT" in first:
                    continue
                chk.violation({"kind": "unexpected-error", "message": first[:80]}, f"{what}: {first}\n{sql}", {"cases": [c]})
                continue
            rows = [compare.dec_row(r) for r in st.get("rows", [])]
            if kind == "sort":
                ok, why = compare.bag_equal(echo, rows)
                if ok:
                    ok2, i = compare.is_sorted(rows, order)
                    if not ok2:
                        ok, why = False, f"rows {i} and {i+1} out of order: {rows[i]} then {rows[i+1]}"
            else:
                ok, why = compare.admissible_slice(rows, echo, order, lim, off)
            if not ok:
                chk.violation({"kind": "wrong-order" if kind == "sort" else "wrong-slice", "types": [t.split("(")[0] for t in kt][:3], "form": kind},
                              f"{what}: {why}\n{sql}", {"cases": [c]})
            else:
                chk.nontrivial((tuple(kt), kind, tuple(order), lim, off, parts, bs))
        if len(chk.samples) < 5 and n > 5:
            chk.sample({"key_types": kt, "rows": n, "partitions": parts, "batch_size": bs, "sql": c["steps"][specs[0][0]]["sql"]})
