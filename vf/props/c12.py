"""C12 — integer and decimal arithmetic is exact or fails; never wraps or crashes.

Oracle: Python int / Fraction arithmetic. Outcome class must be `exact value`
or `error`; a panic / process death / inexact value is a violation (or a listed
known finding when its signature matches exactly).
"""
from fractions import Fraction
import itertools, json
from vf import run as vrun
from vf.core import outcome_signature
from vf.vals import dec_unscaled, INT_TYPES, int_range, sql_int, bits_f64
import re

OPS = ["+", "-", "*", "/", "%"]
OPNAME = {"+": "add", "-": "sub", "*": "mul", "/": "div", "%": "rem"}


def trunc_div(a, b):
    q = abs(a) // abs(b)
    return q if (a >= 0) == (b >= 0) else -q


def exact(op, a, b):
    """Exact integer result or None if undefined (division by zero)."""
    if op == "+":
        return a + b
    if op == "-":
        return a - b
    if op == "*":
        return a * b
    if b == 0:
        return None
    if op == "/":
        return trunc_div(a, b)
    return a - b * trunc_div(a, b)


def boundary_values(t):
    lo, hi = int_range(t)
    bits = hi.bit_length()
    vs = {lo, lo + 1, lo + 2, hi, hi - 1, hi - 2, 0, 1, 2, 3, 7, 10}
    if lo < 0:
        vs |= {-1, -2, -3, -7, -10}
    for k in range(1, bits + 1):
        for d in (-1, 0, 1):
            for sgn in ((1, -1) if lo < 0 else (1,)):
                v = sgn * (2 ** k) + d
                if lo <= v <= hi:
                    vs.add(v)
    r = int(hi ** 0.5)
    for d in (-1, 0, 1, 2):
        for sgn in ((1, -1) if lo < 0 else (1,)):
            v = sgn * (r + d)
            if lo <= v <= hi:
                vs.add(v)
    return sorted(vs)


def in_range(t, v):
    lo, hi = int_range(t)
    return v is not None and lo <= v <= hi


def batch_ok(t, op, a, b):
    """May (a op b) be evaluated inside a bulk query? False for results that are
    unrepresentable and for MIN % -1, whose exact value 0 is representable but
    which is probed on its own (one statement per case) like the overflows."""
    lo, _ = int_range(t)
    if op == "%" and lo < 0 and a == lo and b == -1:
        return False
    return in_range(t, exact(op, a, b))


def run(chk):
    thorough = chk.tier == "thorough"
    rng = chk.rng
    chk.rule = ("integer ops: exhaustive 8-bit operand pairs per operator/signedness via cross join, boundary-biased "
                "pairs for 16/32/64-bit; overflow/zero-divisor probes one statement per case (literal-folded and column "
                "context, det and native executors); decimal +,-,* over (p1,s1,p2,s2) sweeps; SUM/AVG incl. accumulator "
                "overflow. distinct non-trivial = distinct (type, op, operand pair) whose result the oracle computed and compared, "
                "plus distinct (type, op, context) probes with an observed outcome class")
    chk.assumptions = ["Python int/Fraction arithmetic is exact", "integer '/' on integer types truncates toward zero and '%' takes the sign of the dividend (docs examples 20/4=5, 17%5=2; C-like semantics of the Rust operators used)"]

    cases = []
    expect = {}  # case id -> description for checking

    # ---- 1. exhaustive 8-bit sweeps ---------------------------------------
    for t in ("tinyint", "utinyint"):
        lo, hi = int_range(t)
        steps = [{"sql": f"create temp table p8 as select a::{t} as a, b::{t} as b from generate_series({lo},{hi}) g(a), generate_series({lo},{hi}) h(b)", "out": "count"}]
        ops = OPS if (thorough or True) else OPS
        for op in ops:
            if op in "+-*":
                cond = f"(a::int {op} b::int) between {lo} and {hi}"
            else:
                cond = "b <> 0" + (f" and not (a = {lo} and b = -1)" if lo < 0 else "")
            steps.append({"sql": f"select a, b, a {op} b from p8 where {cond}"})
        cid = f"sweep8/{t}"
        cases.append({"id": cid, "exec": {"kind": "det", "policy": "fifo", "partitions": 2}, "steps": steps, "max_rows": 70000})
        expect[cid] = ("sweep8", t, ops)

    # ---- 2. boundary pairs for wider types ---------------------------------
    wide = ["smallint", "usmallint", "int", "uint", "bigint", "ubigint"]
    overflow_probes = []
    for t in wide:
        vs = boundary_values(t)
        if not thorough:
            vs = rng.sample(vs, min(len(vs), 40))
        pairs = list(itertools.product(vs, vs))
        if not thorough and len(pairs) > 900:
            pairs = rng.sample(pairs, 900)
        rows = []
        for i, (a, b) in enumerate(pairs):
            oks = []
            for op in OPS:
                ok = batch_ok(t, op, a, b)
                oks.append(ok)
                if not ok:
                    overflow_probes.append((t, op, a, b))
            rows.append((i, a, b, oks))
        steps = [{"sql": f"create temp table w (id int, a {t}, b {t}, ok_add boolean, ok_sub boolean, ok_mul boolean, ok_div boolean, ok_rem boolean)"}]
        for k in range(0, len(rows), 400):
            vals = ",".join("(%d,%s,%s,%s)" % (i, sql_int(a, t), sql_int(b, t), ",".join("true" if o else "false" for o in oks)) for (i, a, b, oks) in rows[k:k + 400])
            steps.append({"sql": f"insert into w values {vals}", "out": "count"})
        steps.append({"sql": "select id, a, b from w"})
        for op in OPS:
            steps.append({"sql": f"select id, a {op} b from w where ok_{OPNAME[op]}"})
        cid = f"wide/{t}"
        cases.append({"id": cid, "exec": {"kind": "det", "policy": "random", "seed": chk.seed, "partitions": 3, "yield_p": 0.05}, "steps": steps})
        expect[cid] = ("wide", t, rows)

    # ---- 3. overflow / zero divisor probes ---------------------------------
    # 8-bit ones too
    for t in ("tinyint", "utinyint"):
        lo, hi = int_range(t)
        for op in OPS:
            cands = [(a, b) for a in (lo, hi, hi - 1, 1, 0) for b in (lo, hi, 1, 0, -1 if lo < 0 else 2) if in_range(t, a) and in_range(t, b) and not batch_ok(t, op, a, b)]
            for (a, b) in cands:
                overflow_probes.append((t, op, a, b))
    by_key = {}
    for p in overflow_probes:
        by_key.setdefault((p[0], p[1]), []).append(p)
    per = 6 if thorough else 2
    probes = []
    for key in sorted(by_key):
        lst = sorted(set(by_key[key]))
        probes += rng.sample(lst, min(per, len(lst)))
    for n, (t, op, a, b) in enumerate(probes):
        for ctx in ("literal", "column"):
            kinds = ["det"] + (["native"] if (ctx == "column" and (thorough or n % 7 == 0)) else [])
            for kind in kinds:
                cid = f"ovf/{t}/{OPNAME[op]}/{a}/{b}/{ctx}/{kind}"
                if ctx == "literal":
                    steps = [{"sql": f"select {sql_int(a, t)} {op} {sql_int(b, t)}"}]
                else:
                    steps = [{"sql": f"create temp table o (a {t}, b {t})"},
                             {"sql": f"insert into o values ({sql_int(a, t)}, {sql_int(b, t)}), (1, 1)"},
                             {"sql": f"select a {op} b from o"}]
                ex = {"kind": kind, "threads": 2} if kind == "native" else {"kind": "det"}
                cases.append({"id": cid, "exec": ex, "steps": steps})
                expect[cid] = ("ovf", t, op, a, b, ctx)
    # unary minus / abs on MIN
    for t in ("tinyint", "smallint", "int", "bigint"):
        lo, hi = int_range(t)
        for ctx in ("literal", "column"):
            cid = f"neg/{t}/{ctx}"
            if ctx == "literal":
                steps = [{"sql": f"select -({sql_int(lo, t)})"}]
            else:
                steps = [{"sql": f"create temp table o (a {t})"}, {"sql": f"insert into o values ({sql_int(lo, t)}), (1)"}, {"sql": "select -a from o"}]
            cases.append({"id": cid, "steps": steps})
            expect[cid] = ("neg", t, lo, ctx)
        cid = f"negok/{t}"
        vs = [v for v in boundary_values(t) if v != lo][:60]
        cases.append({"id": cid, "steps": [{"sql": "select " + ", ".join(f"-({sql_int(v, t)})" for v in vs)},
                                           {"sql": "select " + ", ".join(f"abs({sql_int(v, t)})" for v in vs + [lo])}]})
        expect[cid] = ("negok", t, vs, lo)

    # ---- 4. decimals -------------------------------------------------------
    dec_cases = decimal_cases(chk, rng, thorough)
    for cid, case, ex in dec_cases:
        cases.append(case)
        expect[cid] = ex

    # ---- 5. SUM / AVG ------------------------------------------------------
    agg = agg_cases(chk, rng, thorough)
    for cid, case, ex in agg:
        cases.append(case)
        expect[cid] = ex

    results, meta = vrun.run_sharded(cases, shards=16, wall_s=1500 if thorough else 600)
    chk.extra["process_restarts"] = meta["restarts"]

    for c in cases:
        cid = c["id"]
        res = results.get(cid)
        ex = expect[cid]
        judge(chk, c, res, ex)


# ---------------------------------------------------------------------------

def bad_outcome(chk, case, res, what, extra_sig=None):
    """Handle died / panic / not-run for a case. Returns True if handled."""
    if res is None or "not_run" in res or "fatal" in res:
        chk.inconc("case not run: " + str((res or {}).get("not_run") or (res or {}).get("fatal") or "missing")[:60])
        return True
    if "died" in res:
        sig = outcome_signature(res)
        chk.violation(sig, f"{what}: process died: {json.dumps(res['died'])[:400]}", {"cases": [case]})
        return True
    for i, st in enumerate(res["steps"]):
        if st["outcome"] == "panic":
            sig = outcome_signature(st)
            chk.violation(sig, f"{what}: panic in step {i}: {case['steps'][i]['sql'][:200]} -> {st.get('panic_msg')} @ {st.get('panic_loc')}", {"cases": [case]})
            return True
        if st["outcome"] in ("deadlock", "diverged", "timeout"):
            chk.violation({"kind": "outcome", "class": st["outcome"], "what": what.split("/")[0]}, f"{what}: {st['outcome']} in step {i}", {"cases": [case]})
            return True
    return False


def judge(chk, case, res, ex):
    kind = ex[0]
    cid = case["id"]
    if kind == "sweep8":
        _, t, ops = ex
        if bad_outcome(chk, case, res, cid):
            return
        lo, hi = int_range(t)
        for op, st in zip(ops, res["steps"][1:]):
            chk.evaluated()
            if st["outcome"] != "rows":
                chk.violation({"kind": "unexpected-error", "where": "sweep8", "type": t, "op": op}, f"{cid} {op}: {st}", {"cases": [case]})
                continue
            want = {}
            for a in range(lo, hi + 1):
                for b in range(lo, hi + 1):
                    if batch_ok(t, op, a, b):
                        want[(a, b)] = exact(op, a, b)
            got = {}
            dup = 0
            for a, b, r in st["rows"]:
                if (a, b) in got:
                    dup += 1
                got[(a, b)] = r
            tname = st["schema"][2][1]
            if got != want or dup:
                diffs = [(k, want.get(k), got.get(k)) for k in set(want) | set(got) if want.get(k) != got.get(k)][:5]
                chk.violation({"kind": "wrong-value", "type": t, "op": op}, f"{cid} {op}: {len(diffs)}+ differing pairs (a,b),want,got: {diffs}; dup={dup}; result type {tname}", {"cases": [case]})
            else:
                chk.count("sweep8_pairs_checked", len(want))
                chk.nontrivial(("sweep8", t, op))
                chk.extra.setdefault("exhaustive_subspaces", []).append(f"{t} {op}: all {len(want)} in-range operand pairs")
        chk.sample({"case": cid, "sql": case["steps"][1]["sql"], "rows_checked": res["steps"][1].get("count")})
        return
    if kind == "wide":
        _, t, rows = ex
        if bad_outcome(chk, case, res, cid):
            return
        steps = res["steps"]
        echo = steps[-6]
        if echo["outcome"] != "rows":
            chk.violation({"kind": "unexpected-error", "where": "wide-echo", "type": t}, f"{cid}: {echo}", {"cases": [case]})
            return
        em = {r[0]: (r[1], r[2]) for r in echo["rows"]}
        want_echo = {i: (a, b) for (i, a, b, _) in rows}
        if em != want_echo:
            chk.violation({"kind": "wrong-value", "type": t, "op": "insert-echo"}, f"{cid}: inserted operands do not read back", {"cases": [case]})
            return
        for k, op in enumerate(OPS):
            st = steps[-5 + k]
            chk.evaluated()
            if st["outcome"] != "rows":
                chk.violation({"kind": "unexpected-error", "where": "wide", "type": t, "op": op}, f"{cid} {op}: {st.get('error')}", {"cases": [case]})
                continue
            want = {i: exact(op, a, b) for (i, a, b, oks) in rows if oks[k]}
            got = {r[0]: r[1] for r in st["rows"]}
            if got != want or len(st["rows"]) != len(want):
                diffs = [(want_echo[i], want.get(i), got.get(i)) for i in set(want) | set(got) if want.get(i) != got.get(i)][:5]
                chk.violation({"kind": "wrong-value", "type": t, "op": op}, f"{cid} {op}: operands,want,got {diffs}", {"cases": [case]})
            else:
                for i in want:
                    chk.nontrivial(("wide", t, op, want_echo[i]))
                chk.count("wide_pairs_checked", len(want))
        chk.sample({"case": cid, "sql": case["steps"][-1]["sql"], "pairs": len(rows)})
        return
    if kind in ("ovf", "neg"):
        chk.evaluated()
        what = cid
        if res is None or "not_run" in res or "fatal" in res:
            chk.inconc("case not run")
            return
        if "died" in res:
            sig = outcome_signature(res)
            chk.violation(sig, f"{what}: process died: {json.dumps(res['died'])[:300]}", {"cases": [case]})
            chk.nontrivial((kind, ex[1], ex[2] if kind == "ovf" else "neg", ex[-1], "died"))
            return
        st = res["steps"][-1]
        for s0 in res["steps"][:-1]:
            if s0["outcome"] not in ("rows", "empty"):
                chk.inconc("probe setup failed")
                return
        chk.nontrivial((kind, ex[1], ex[2] if kind == "ovf" else "neg", ex[-1], st["outcome"]))
        chk.count("probe_outcome_" + st["outcome"])
        if st["outcome"] == "error":
            r_exact = exact(ex[2], ex[3], ex[4]) if kind == "ovf" else -ex[2]
            if kind == "ovf" and in_range(ex[1], r_exact):
                chk.violation({"kind": "unexpected-error", "where": "probe", "type": ex[1], "op": ex[2]}, f"{what}: {case['steps'][-1]['sql']} -> error although exact result {r_exact} is representable", {"cases": [case]})
            return  # the specified behaviour
        if st["outcome"] == "panic":
            chk.violation(outcome_signature(st), f"{what}: {case['steps'][-1]['sql']} -> panic {st.get('panic_msg')} @ {st.get('panic_loc')}", {"cases": [case]})
            return
        if st["outcome"] == "rows":
            # a value for an unrepresentable result: only fine if the announced type is wider and the value exact
            val = st["rows"][0][0]
            tname = st["schema"][0][1]
            if kind == "ovf":
                _, t, op, a, b, ctx = ex
                r = exact(op, a, b)
            else:
                _, t, lo, ctx = ex
                r = -lo
                op = "neg"
            if r is not None and value_equals_exact(val, r):
                chk.count("probe_value_exact_in_wider_type")
                return
            chk.violation({"kind": "wrapped-or-wrong", "type": t, "op": op}, f"{what}: {case['steps'][-1]['sql']} returned {val} ({tname}); exact result {r} is not representable", {"cases": [case]})
            return
        chk.violation({"kind": "outcome", "class": st["outcome"]}, f"{what}: {st}", {"cases": [case]})
        return
    if kind == "negok":
        _, t, vs, lo = ex
        if bad_outcome(chk, case, res, cid):
            return
        st = res["steps"][0]
        chk.evaluated()
        if st["outcome"] == "rows":
            got = st["rows"][0]
            want = [-v for v in vs]
            if got != want:
                chk.violation({"kind": "wrong-value", "type": t, "op": "neg"}, f"{cid}: want {want} got {got}", {"cases": [case]})
            else:
                for v in vs:
                    chk.nontrivial(("neg", t, v))
        else:
            chk.violation({"kind": "unexpected-error", "where": "negok", "type": t}, f"{cid}: {st.get('error')}", {"cases": [case]})
        st = res["steps"][1]
        chk.evaluated()
        if st["outcome"] == "rows":
            got = st["rows"][0]
            want = [abs(v) for v in vs + [lo]]
            # abs() is only defined on floats at this commit: integers are cast to DOUBLE, so the
            # documented result type is Float64 and the prescribed value is the nearest double
            ok = all(value_equals_exact(g, w) or (isinstance(g, dict) and "f64" in g and bits_f64(g["f64"]) == float(w)) for g, w in zip(got, want))
            if not ok:
                chk.violation({"kind": "wrong-value", "type": t, "op": "abs"}, f"{cid}: abs want {want} got {got}", {"cases": [case]})
            else:
                chk.nontrivial(("abs", t))
        elif st["outcome"] != "error":
            chk.violation({"kind": "outcome", "class": st["outcome"], "op": "abs"}, f"{cid}: {st}", {"cases": [case]})
        return
    if kind == "dec":
        judge_dec(chk, case, res, ex)
        return
    if kind == "agg":
        judge_agg(chk, case, res, ex)
        return


def value_equals_exact(val, r):
    """Does an encoded engine value denote exactly the integer/Fraction r?"""
    import struct
    if isinstance(val, bool) or val is None:
        return False
    if isinstance(val, int):
        return val == r
    if isinstance(val, dict):
        if "big" in val:
            return int(val["big"]) == r
        if "d" in val:
            u, p, s = val["d"]
            if isinstance(u, dict):
                u = int(u["big"])
            return Fraction(u, 10 ** s) == r and len(str(abs(u))) <= p
        if "f64" in val:
            f = struct.unpack("<d", struct.pack("<Q", val["f64"]))[0]
            return f == f and f not in (float("inf"), float("-inf")) and Fraction(f) == r
        if "f32" in val:
            f = struct.unpack("<f", struct.pack("<I", val["f32"]))[0]
            return f == f and abs(f) != float("inf") and Fraction(f) == r
    return False


# ---- decimals ---------------------------------------------------------------

def dec_lit(u, s):
    """SQL literal text for unscaled u at scale s."""
    sign = "-" if u < 0 else ""
    d = str(abs(u)).rjust(s + 1, "0")
    return sign + (d[:-s] + "." + d[-s:] if s > 0 else d)


def decimal_cases(chk, rng, thorough):
    out = []
    combos = []
    ps = [1, 2, 5, 9, 10, 17, 18, 19, 20, 28, 37, 38]
    for _ in range(300 if thorough else 60):
        p1 = rng.choice(ps); p2 = rng.choice(ps)
        s1 = rng.choice([0, 1, p1 // 2, max(0, p1 - 1), p1]); s2 = rng.choice([0, 1, p2 // 2, max(0, p2 - 1), p2])
        combos.append((p1, s1, p2, s2))
    # the Decimal64/128 boundary
    for p1, p2 in [(18, 18), (18, 19), (19, 18), (17, 18), (18, 1), (9, 9), (10, 9), (38, 38), (38, 1), (19, 19)]:
        for s1, s2 in [(0, 0), (2, 0), (0, 2), (2, 2)]:
            if s1 <= p1 and s2 <= p2:
                combos.append((p1, s1, p2, s2))
    combos = sorted(set(combos))
    for n, (p1, s1, p2, s2) in enumerate(combos):
        m1, m2 = 10 ** p1 - 1, 10 ** p2 - 1
        avals = [m1, -m1, 0, 1, -1, m1 // 2 + 1, rng.randint(-m1, m1), rng.randint(-m1, m1), 5 * 10 ** max(0, s1 - 1)]
        bvals = [m2, -m2, 0, 1, -1, m2 // 2 + 1, rng.randint(-m2, m2), rng.randint(-m2, m2), 5 * 10 ** max(0, s2 - 1)]
        avals = [a for a in avals if abs(a) <= m1]
        bvals = [b for b in bvals if abs(b) <= m2]
        pairs = [(a, b) for a in avals for b in bvals]
        pairs = rng.sample(pairs, min(len(pairs), 30 if thorough else 14))
        cid = f"dec/{p1}.{s1}/{p2}.{s2}"
        steps = [{"sql": f"create temp table d (id int, a decimal({p1},{s1}), b decimal({p2},{s2}))"},
                 {"sql": "insert into d values " + ",".join(f"({i}, '{dec_lit(a, s1)}'::decimal({p1},{s1}), '{dec_lit(b, s2)}'::decimal({p2},{s2}))" for i, (a, b) in enumerate(pairs)), "out": "count"},
                 {"sql": "select id, a, b from d"}]
        # one case per operator (a panic ends a session: it must not hide the other operators); inside, every pair on its
        # own first (one overflowing pair fails a whole-table statement), the announced result type from DESCRIBE so that
        # an error can be judged, and the whole-table statement last
        load = steps
        for op in "+-*":
            st = list(load) + [{"sql": f"describe select a {op} b as r from d"}]
            for i in range(len(pairs)):
                st.append({"sql": f"select id, a {op} b from d where id = {i}"})
            st.append({"sql": f"select id, a {op} b from d"})
            case = {"id": cid + "/" + {"+": "add", "-": "sub", "*": "mul"}[op], "exec": {"kind": "det", "policy": "random", "seed": n, "partitions": 2}, "steps": st}
            out.append((case["id"], case, ("dec", p1, s1, p2, s2, pairs, op)))
    return out


def judge_dec(chk, case, res, ex):
    _, p1, s1, p2, s2, pairs, op = ex
    cid = case["id"]
    if res is None or "not_run" in res or "fatal" in res:
        chk.inconc("case not run")
        return
    if "died" in res:
        chk.violation(outcome_signature(res), f"{cid}: process died: {json.dumps(res['died'])[:400]}", {"cases": [case]})
        return
    steps = res["steps"]
    if steps[0]["outcome"] == "error":
        chk.count("dec_type_rejected")      # create table may legitimately fail (unsupported precision/scale combination)
        return
    if steps[1]["outcome"] != "rows":
        chk.inconc("decimal operands could not be loaded (cast failed; see C13)")
        return
    if steps[2]["outcome"] != "rows":
        chk.inconc("decimal operands could not be read back")
        return
    echo = {r[0]: (r[1], r[2]) for r in steps[2]["rows"]}
    for i, (a, b) in enumerate(pairs):
        ea, eb = echo.get(i, (None, None))
        if dec_unscaled(ea) != (a, p1, s1) or dec_unscaled(eb) != (b, p2, s2):
            chk.inconc("decimal operand does not read back as written (cast; see C13)")
            return
    d = steps[3]
    m = re.search(r"Decimal(64|128)\((\d+),(-?\d+)\)", d["rows"][0][1]) if d["outcome"] == "rows" and d.get("rows") else None
    if d["outcome"] == "panic":
        chk.violation(outcome_signature(d), f"{cid}: panic while binding: {d.get('panic_msg')} @ {d.get('panic_loc')}", {"cases": [case]})
        return
    if not m:
        chk.count("dec_op_does_not_bind")
        return
    width, rp, rs = int(m.group(1)), int(m.group(2)), int(m.group(3))

    def judge_value(desc, g, v):
        if not isinstance(g, dict) or "d" not in g:
            chk.violation({"kind": "wrong-value", "op": "dec" + op, "what": "non-decimal or NULL result"}, f"{desc} -> {g}", {"cases": [case]})
            return False
        u, p_, s_ = dec_unscaled(g)
        if Fraction(u, 10 ** s_) != v:
            chk.violation({"kind": "wrong-value", "op": "dec" + op, "what": "inexact"}, f"{desc} = {g} (announced Decimal{width}({rp},{rs})); exact {v}", {"cases": [case]})
            return False
        if len(str(abs(u))) > rp and u != 0:
            chk.violation({"kind": "precision-violation", "op": "dec" + op}, f"{desc} = {g}: more digits than the announced Decimal{width}({rp},{rs})", {"cases": [case]})
            return False
        return True

    exact_vals = {}
    all_fit = True
    for i, (a, b) in enumerate(pairs):
        fa, fb = Fraction(a, 10 ** s1), Fraction(b, 10 ** s2)
        v = fa + fb if op == "+" else fa - fb if op == "-" else fa * fb
        exact_vals[i] = v
        scaled = v * 10 ** rs
        fits = scaled.denominator == 1 and abs(int(scaled)) < 10 ** rp
        if op in "+-":
            # operands are first cast to the result type: they must fit it as well
            fits = fits and abs(a) * 10 ** (rs - s1) < 10 ** rp and abs(b) * 10 ** (rs - s2) < 10 ** rp
        all_fit = all_fit and fits
        st = steps[4 + i]
        if st["outcome"] == "skipped":
            return
        chk.evaluated()
        desc = f"{cid}: decimal({p1},{s1}) {dec_lit(a, s1)} {op} decimal({p2},{s2}) {dec_lit(b, s2)}"
        if st["outcome"] == "panic":
            chk.violation(outcome_signature(st), f"{desc}: panic {st.get('panic_msg')} @ {st.get('panic_loc')}", {"cases": [case]})
            return
        if st["outcome"] in ("deadlock", "diverged", "timeout"):
            chk.violation({"kind": "outcome", "class": st["outcome"], "what": "dec"}, f"{desc}: {st['outcome']}", {"cases": [case]})
            return
        if st["outcome"] == "error":
            if fits:
                chk.violation({"kind": "unexpected-error", "where": "dec", "op": op}, f"{desc}: error {(st.get('error') or '').splitlines()[0][:160]} although the exact result {v} and both operands fit the announced Decimal{width}({rp},{rs})", {"cases": [case]})
            else:
                chk.count("dec_pair_error_expected")
            continue
        if st["outcome"] != "rows" or len(st["rows"]) != 1:
            continue
        if judge_value(desc, st["rows"][0][1], v):
            chk.nontrivial(("dec", p1, s1, p2, s2, op, (a, b)))
    # the whole-table statement: same values, or an error if some pair does not fit
    st = steps[4 + len(pairs)]
    chk.evaluated()
    if st["outcome"] == "panic":
        chk.violation(outcome_signature(st), f"{cid}: panic in the whole-table statement: {st.get('panic_msg')} @ {st.get('panic_loc')}", {"cases": [case]})
    elif st["outcome"] == "error":
        chk.count("dec_stmt_error")
        if all_fit:
            chk.violation({"kind": "unexpected-error", "where": "dec", "op": op}, f"{cid}: whole-table {op} fails ({(st.get('error') or '').splitlines()[0][:160]}) although every pair fits the announced Decimal{width}({rp},{rs})", {"cases": [case]})
    elif st["outcome"] == "rows":
        got = {r[0]: r[1] for r in st["rows"]}
        for i, v in exact_vals.items():
            if not judge_value(f"{cid} (whole table) pair {pairs[i]}", got.get(i), v):
                break
        chk.count("dec_ops_checked")
    chk.sample({"case": cid, "sql": case["steps"][-1]["sql"], "types": [f"decimal({p1},{s1})", f"decimal({p2},{s2})"], "announced": f"Decimal{width}({rp},{rs})"}, cap=12)


# ---- aggregates ---------------------------------------------------------------

def agg_cases(chk, rng, thorough):
    out = []
    n = 0
    for t in ["tinyint", "smallint", "int", "bigint", "utinyint", "uint", "ubigint"]:
        lo, hi = int_range(t)
        for shape in ["small", "boundary", "overflow"]:
            for parts in ([1, 4] if not thorough else [1, 2, 4, 8]):
                n += 1
                if shape == "small":
                    vals = [rng.randint(max(lo, -1000), min(hi, 1000)) for _ in range(rng.choice([1, 5, 50, 300]))]
                elif shape == "boundary":
                    vals = [hi, lo, lo, hi, 0, 1, -1 if lo < 0 else 1]
                else:
                    vals = [hi] * rng.choice([2, 3, 9]) + [1, hi]
                cid = f"agg/{t}/{shape}/{parts}/{n}"
                steps = [{"sql": f"create temp table s (g int, x {t})"},
                         {"sql": "insert into s values " + ",".join(f"({i % 3}, {sql_int(v, t)})" for i, v in enumerate(vals)), "out": "count"},
                         {"sql": f"set partitions to {parts}"},
                         {"sql": "select sum(x), avg(x), count(x) from s"},
                         {"sql": "select g, sum(x), avg(x) from s group by g"}]
                case = {"id": cid, "exec": {"kind": "det", "policy": "random", "seed": n}, "steps": steps}
                out.append((cid, case, ("agg", t, vals)))
    # decimal sums
    for (p, s) in [(5, 2), (18, 0), (18, 4), (20, 3), (38, 0), (38, 10)]:
        m = 10 ** p - 1
        for shape in ["small", "overflow"]:
            n += 1
            vals = [rng.randint(-min(m, 10 ** 6), min(m, 10 ** 6)) for _ in range(20)] if shape == "small" else [m] * 12
            cid = f"aggdec/{p}.{s}/{shape}"
            steps = [{"sql": f"create temp table s (g int, x decimal({p},{s}))"},
                     {"sql": "insert into s values " + ",".join(f"({i % 3}, '{dec_lit(v, s)}'::decimal({p},{s}))" for i, v in enumerate(vals)), "out": "count"},
                     {"sql": "set partitions to 2"},
                     {"sql": "select sum(x), avg(x), count(x) from s"},
                     {"sql": "select g, sum(x), avg(x) from s group by g"}]
            case = {"id": cid, "exec": {"kind": "det", "policy": "random", "seed": n}, "steps": steps}
            out.append((cid, case, ("agg", ("dec", p, s), vals)))
    return out


def to_fraction(val):
    import struct
    if val is None:
        return None
    if isinstance(val, int):
        return Fraction(val)
    if "big" in val:
        return Fraction(int(val["big"]))
    if "d" in val:
        u, p, s = dec_unscaled(val)
        return Fraction(u, 10 ** s)
    if "f64" in val:
        f = struct.unpack("<d", struct.pack("<Q", val["f64"]))[0]
        if f != f or abs(f) == float("inf"):
            return f
        return Fraction(f)
    return None


def judge_agg(chk, case, res, ex):
    _, t, vals = ex
    cid = case["id"]
    if bad_outcome(chk, case, res, cid):
        return
    steps = res["steps"]
    if any(st["outcome"] not in ("rows", "empty") for st in steps[:3]):
        if isinstance(t, tuple) and steps[0]["outcome"] == "error":
            return
        chk.violation({"kind": "unexpected-error", "where": "agg-load"}, f"{cid}: {[st.get('error') for st in steps[:3]]}", {"cases": [case]})
        return
    scale = 10 ** t[2] if isinstance(t, tuple) else 1
    fvals = [Fraction(v, scale) for v in vals]
    groups = {}
    for i, v in enumerate(fvals):
        groups.setdefault(i % 3, []).append(v)

    def check_sum_avg(label, got_sum, got_avg, tname_sum, xs):
        chk.evaluated()
        want = sum(xs)
        gs = to_fraction(got_sum)
        ok_type_holds = True
        if isinstance(got_sum, dict) and "f64" in got_sum:
            # float accumulator: accept nearest-double accuracy (relative 1e-12)
            if isinstance(gs, float) or (want != 0 and abs(gs - want) / abs(want) > Fraction(1, 10 ** 12)) or (want == 0 and gs != 0):
                chk.violation({"kind": "wrong-value", "op": "sum", "acc": "float"}, f"{cid} {label}: sum={got_sum} ({tname_sum}) exact {want}", {"cases": [case]})
                return
        elif gs != want:
            chk.violation({"kind": "wrong-value", "op": "sum", "acc": tname_sum.split("(")[0]},
                          f"{cid} {label}: sum over {len(xs)} values of {t} = {got_sum} ({tname_sum}); exact sum {want}", {"cases": [case]})
            return
        if got_avg is not None:
            ga = to_fraction(got_avg)
            wa = want / len(xs)
            if isinstance(ga, float) or (wa != 0 and abs(ga - wa) / abs(wa) > Fraction(1, 10 ** 12)) or (wa == 0 and abs(ga) > Fraction(1, 10 ** 300)):
                chk.violation({"kind": "wrong-value", "op": "avg"}, f"{cid} {label}: avg={got_avg}; exact {wa}", {"cases": [case]})
                return
        chk.nontrivial(("agg", str(t), label, tuple(vals[:6]), len(vals)))

    st = steps[3]
    if st["outcome"] == "rows":
        r = st["rows"][0]
        check_sum_avg("all", r[0], r[1], st["schema"][0][1], fvals)
        if r[2] != len(vals):
            chk.violation({"kind": "wrong-value", "op": "count"}, f"{cid}: count {r[2]} != {len(vals)}", {"cases": [case]})
    elif st["outcome"] == "error":
        chk.count("agg_error_outcome")
        chk.evaluated()
        # an error is right when the exact total, or the partial sum of some arrival order (aggregation order is
        # unspecified), does not fit the accumulator; accumulators are at least 64 bits wide
        pos = sum(v for v in fvals if v > 0) * scale
        neg = sum(v for v in fvals if v < 0) * scale
        if pos < 2 ** 63 and neg >= -2 ** 63:
            chk.violation({"kind": "unexpected-error", "where": "agg"}, f"{cid}: {st.get('error')} but no ordering of the inputs overflows 64 bits", {"cases": [case]})
        else:
            chk.nontrivial(("agg-overflow-error", str(t), len(vals)))
    st = steps[4]
    if st["outcome"] == "rows":
        for r in st["rows"]:
            check_sum_avg(f"group{r[0]}", r[1], r[2], st["schema"][1][1], groups[r[0]])
        if sorted(r[0] for r in st["rows"]) != sorted(groups):
            chk.violation({"kind": "wrong-value", "op": "group-set"}, f"{cid}: groups {sorted(r[0] for r in st['rows'])}", {"cases": [case]})
    chk.sample({"case": cid, "sql": case["steps"][3]["sql"], "n_values": len(vals), "type": str(t)}, cap=12)
