"""C11 — scan pushdown and multi-file scans only skip work, never change rows."""
import json, os, shutil
from vf import run as vrun
from vf import pqwrite as pq
from vf import compare, knowncases
from vf.core import outcome_signature

# (phys, logical, kwargs, sql literal renderer)
COLS = [
    ("INT32", None, {}), ("INT32", "INT8", {}), ("INT32", "INT16", {}), ("INT32", "UINT8", {}), ("INT32", "UINT16", {}), ("INT32", "UINT32", {}),
    ("INT64", None, {}), ("INT64", "UINT64", {}), ("INT32", "DATE", {}), ("INT64", "DECIMAL", dict(precision=12, scale=2)),
    ("DOUBLE", None, {}), ("FLOAT", None, {}), ("BYTE_ARRAY", "STRING", {}), ("INT64", "TIMESTAMP_MICROS", {}), ("BOOLEAN", None, {}),
]
STATS = ["new", "none", "old", "both", "inexact", "new_noflags"]


def int_range(col):
    lt = col.logical
    if lt == "INT8":
        return -128, 127
    if lt == "INT16":
        return -32768, 32767
    if lt == "UINT8":
        return 0, 255
    if lt == "UINT16":
        return 0, 65535
    if lt == "UINT32":
        return 0, 2**32 - 1
    if lt == "UINT64":
        return 0, 2**64 - 1
    if col.phys == "INT32":
        return -2**31, 2**31 - 1
    return -2**63, 2**63 - 1


def sql_const(col, v):
    """SQL literal for a value of the column's logical type; may deliberately be of another literal type."""
    if v is None:
        return "NULL"
    if col.phys == "BOOLEAN":
        return "true" if v else "false"
    if col.logical == "STRING":
        return "'" + v.replace("'", "") + "'"
    if col.logical == "DATE":
        import datetime
        try:
            return f"DATE '{(datetime.date(1970, 1, 1) + datetime.timedelta(days=v)).isoformat()}'"
        except OverflowError:
            return None
    if col.logical == "DECIMAL":
        s = str(abs(v)).rjust(col.scale + 1, "0")
        return ("-" if v < 0 else "") + s[:-col.scale] + "." + s[-col.scale:]
    if col.logical == "TIMESTAMP_MICROS":
        return None
    if col.phys in ("DOUBLE", "FLOAT"):
        return None
    return str(v)


def gen_groups(rng, col, shape):
    """Row groups with disjoint or overlapping value ranges."""
    groups = []
    if col.phys == "BOOLEAN":
        for n in shape:
            groups.append([None if rng.random() < 0.2 else rng.random() < 0.5 for _ in range(n)])
        return groups
    if col.logical == "STRING":
        words = ["a", "ab", "b", "c", "zz", "longer than twelve bytes", "m", "n"]
        for gi, n in enumerate(shape):
            base = words[(gi * 2) % len(words):] + words
            groups.append([None if rng.random() < 0.15 else rng.choice(base[:3]) for _ in range(n)])
        return groups
    if col.phys in ("DOUBLE", "FLOAT"):
        for gi, n in enumerate(shape):
            groups.append([None if rng.random() < 0.15 else (gi * 10 + rng.randint(0, 12)) / 2.0 for _ in range(n)])
        return groups
    lo, hi = int_range(col)
    if col.logical == "DATE":
        lo, hi = -100000, 100000
    if col.logical == "DECIMAL":
        lo, hi = -10**11, 10**11
    if col.logical == "TIMESTAMP_MICROS":
        lo, hi = -10**15, 10**15
    style = rng.choice(["disjoint", "overlap", "extremes", "minmax_equal", "allnull_group"])
    span = max(1, min(1000, (hi - lo) // 8))
    for gi, n in enumerate(shape):
        if style == "disjoint":
            base = max(lo, min(hi - span, lo + (hi - lo) // 2 + (gi - 1) * span * 2))
            vals = [rng.randint(base, min(hi, base + span)) for _ in range(n)]
        elif style == "overlap":
            base = max(lo, min(hi - span, (lo + hi) // 2 - span // 2 + gi * (span // 3)))
            vals = [rng.randint(base, min(hi, base + span)) for _ in range(n)]
        elif style == "extremes":
            vals = [rng.choice([lo, hi, lo + 1, hi - 1, 0 if lo <= 0 else lo, (lo + hi) // 2]) for _ in range(n)]
        elif style == "minmax_equal":
            v = rng.choice([lo, hi, 0 if lo <= 0 else lo, 7 if lo <= 7 <= hi else lo])
            vals = [v] * n
        else:
            vals = [rng.randint(max(lo, -50), min(hi, 50)) for _ in range(n)]
            if gi == 0:
                vals = [None] * n
        groups.append([None if (v is not None and rng.random() < 0.1) else v for v in vals])
    return groups


def run(chk):
    thorough = chk.tier == "thorough"
    rng = chk.rng
    compare.set_exact(True)
    chk.rule = ("Parquet files from the independent writer with truthful statistics in every layout (new/old/both/none/inexact-wide/no-flags; "
                "signed and unsigned columns; NULL-only row groups; min=max) and several row groups with disjoint/overlapping ranges; predicates "
                "col = const with the constant inside/outside/at min/max/of another literal type/NULL plus <, >, conjunctions, disjunctions; "
                "projections (subsets, reorderings, repeated columns, _filename/_rowid, count(*)); each query runs with the optimizer on "
                "(projection + scan filters + row-group pruning) and off (full scan) and is compared with the rows the writer encoded. Multi-file: "
                "lists and globs (*, ?, [..], {..}, **, duplicates, no match) vs UNION ALL of single-file reads, partitions {1,2,#files,#files+1}. "
                "Coverage monitor: execution_profile() scan rows_out < file rows => pruning really happened. distinct non-trivial = distinct "
                "(column type, stats layout, predicate shape, pruned?) compared")
    chk.assumptions = ["statistics written by vf/pqwrite.py are truthful (computed from the values with the logical type's order)"]
    knowncases.run_known_cases(chk)
    d = vrun.tmpdir("c11")
    try:
        cases = []
        meta = {}
        nfiles = 1200 if thorough else 110
        for fi in range(nfiles):
            phys, logical, kw = COLS[fi % len(COLS)]
            st = rng.choice(STATS)
            col = pq.Col("c", phys, logical, optional=True, stats=st, page_values=rng.choice([None, 3, 50]), **kw)
            other = pq.Col("o", "INT32", None, optional=True, stats="new")
            idc = pq.Col("id", "INT64", None, optional=False, stats=rng.choice(STATS))
            shape = rng.choice([(6, 6, 6), (10, 1, 10), (20,), (5, 0, 5), (3, 3, 3, 3)])
            groups = gen_groups(rng, col, shape)
            rid = 0
            rgs = []
            allrows = []
            for g in groups:
                rg = []
                for v in g:
                    r = (v, rng.randint(0, 5), rid)
                    rid += 1
                    rg.append(r)
                    allrows.append(r)
                rgs.append(rg)
            path = os.path.join(d, f"p{fi}.parquet")
            try:
                # physical column order is permuted: filter/projection column ids must be mapped through the pruned projection
                perm = rng.choice([(0, 1, 2), (1, 0, 2), (2, 1, 0), (1, 2, 0), (2, 0, 1), (0, 2, 1)])
                chk.count(f"physical column order {perm}")
                pcols = [[col, other, idc][k] for k in perm]
                pq.write_file(path, pcols, [[tuple(r[k] for k in perm) for r in rg] for rg in rgs], page_version=rng.choice([1, 2]), codec=rng.choice(["UNCOMPRESSED", "GZIP"]))
            except Exception:
                continue
            vals = [r[0] for r in allrows if r[0] is not None]
            consts = []
            if vals and sql_const(col, vals[0]) is not None:
                lo_v, hi_v = min(vals), max(vals)
                cand = [rng.choice(vals), lo_v, hi_v]
                if isinstance(lo_v, int) and not isinstance(lo_v, bool):
                    cand += [lo_v - 1, hi_v + 1, 300, 2**31, -1, 2**40]
                for cst in cand:
                    s = sql_const(col, cst)
                    if s is not None:
                        consts.append((cst, s))
            preds = []
            for cst, s in consts[:6]:
                preds.append(("eq", f"c = {s}", lambda r, c=cst: r[0] is not None and r[0] == c))
            if consts:
                cst, s = consts[0]
                if not isinstance(cst, (bool, str)):
                    preds.append(("lt", f"c < {s}", lambda r, c=cst: r[0] is not None and r[0] < c))
                    preds.append(("ge", f"c >= {s}", lambda r, c=cst: r[0] is not None and r[0] >= c))
                preds.append(("eq_and", f"c = {s} AND o < 3", lambda r, c=cst: r[0] is not None and r[0] == c and r[1] < 3))
                preds.append(("eq_or", f"c = {s} OR o = 0", lambda r, c=cst: (r[0] is not None and r[0] == c) or r[1] == 0))
                preds.append(("flipped", f"{s} = c", lambda r, c=cst: r[0] is not None and r[0] == c))
            preds.append(("isnull", "c IS NULL", lambda r: r[0] is None))
            preds.append(("eq_null", "c = NULL", lambda r: False))
            preds.append(("id_eq", f"id = {rng.randint(0, max(rid - 1, 0))}", None))
            projs = [("c, o, id", [0, 1, 2]), ("id, c", [2, 0]), ("id", [2]), ("o, o, id", [1, 1, 2]), ("count(*)", None), ("id, _rowid", "rowid")]
            steps = [{"sql": f"SET partitions TO {rng.choice([1, 2, 3])}", "out": "count"}]
            spec = []
            idv = None
            for (pname, psql, pfn) in preds:
                if pname.startswith("id_eq"):
                    idv = int(psql.split("=")[1])
                    pfn = (lambda r, v=idv: r[2] == v)
                projsql, pidx = rng.choice(projs)
                pname = f"{pname}#{len(spec)}"      # unique per predicate instance: pairs the on/off runs
                q = f"SELECT {projsql} FROM read_parquet('{path}') WHERE {psql}"
                for opt in ("true", "false"):
                    steps.append({"sql": f"SET enable_optimizer TO {opt}", "out": "count"})
                    steps.append({"sql": q})
                    spec.append((len(steps) - 1, pname, psql, pfn, pidx, opt))
                    if opt == "true":
                        steps.append({"sql": "SELECT operator_name, sum(rows_out) FROM execution_profile() WHERE operator_name = 'Scan' GROUP BY operator_name"})
                        spec.append((len(steps) - 1, "profile", None, None, None, None))
            c = {"id": f"c11-{fi}", "exec": {"kind": "det", "policy": "random", "seed": rng.randint(0, 1 << 30)}, "steps": steps, "max_rows": 50000}
            cases.append(c)
            meta[c["id"]] = ("push", col, st, allrows, spec, shape)
        # ---- multi-file
        nm = 150 if thorough else 24
        for mi in range(nm):
            sub = os.path.join(d, f"m{mi}")
            os.makedirs(os.path.join(sub, "deep", "er"), exist_ok=True)
            files = {}
            col = pq.Col("v", "INT32", None, optional=True)
            names = ["a1.parquet", "a2.parquet", "b1.parquet", "ab.parquet", "deep/a3.parquet", "deep/er/a4.parquet", "other.txt"][:rng.randint(3, 7)]
            for ni, nmf in enumerate(names):
                p = os.path.join(sub, nmf)
                if nmf.endswith(".txt"):
                    open(p, "w").write("not parquet")
                    continue
                rows = [(mi * 1000 + ni * 100 + j,) for j in range(rng.choice([0, 1, 5, 30]))]
                pq.write_file(p, [col], [rows] if rows else [[]])
                files[nmf] = rows
            import fnmatch, re

            def matches(pattern):
                # expected set per documented glob semantics (*, ? do not cross '/', ** crosses directories)
                out = []
                for f in files:
                    rx = ""
                    i = 0
                    pat = pattern
                    while i < len(pat):
                        ch = pat[i]
                        if pat.startswith("**/", i):
                            rx += "(?:.*/)?"
                            i += 3
                            continue
                        if ch == "*":
                            rx += "[^/]*"
                        elif ch == "?":
                            rx += "[^/]"
                        elif ch == "[":
                            j = pat.index("]", i)
                            rx += "[" + pat[i + 1:j] + "]"
                            i = j
                        elif ch == "{":
                            j = pat.index("}", i)
                            rx += "(?:" + "|".join(re.escape(x) for x in pat[i + 1:j].split(",")) + ")"
                            i = j
                        else:
                            rx += re.escape(ch)
                        i += 1
                    if re.fullmatch(rx, f):
                        out.append(f)
                return out
            pats = ["*.parquet", "a?.parquet", "a[12].parquet", "[ab]*.parquet", "**/*.parquet", "deep/*.parquet", "{a1,b1}.parquet", "nomatch*.parquet", "a*.parquet", "deep/**/*.parquet"]
            steps = []
            spec = []
            for pat in rng.sample(pats, 5):
                parts = rng.choice([1, 2, max(1, len(files)), len(files) + 1])
                steps.append({"sql": f"SET partitions TO {parts}", "out": "count"})
                steps.append({"sql": f"SELECT * FROM glob('{sub}/{pat}')"})
                spec.append((len(steps) - 1, "listing", pat, matches(pat), parts))
                steps.append({"sql": f"SELECT v FROM read_parquet('{sub}/{pat}')"})
                spec.append((len(steps) - 1, "glob", pat, matches(pat), parts))
                steps.append({"sql": f"SELECT _filename, count(*) FROM read_parquet('{sub}/{pat}') GROUP BY _filename"})
                spec.append((len(steps) - 1, "glob_files", pat, matches(pat), parts))
            lst = [f for f in files if rng.random() < 0.6] or list(files)[:1]
            if rng.random() < 0.4:
                lst.append(lst[0])       # the same file twice in a list is read twice
            steps.append({"sql": "SELECT v FROM read_parquet([" + ", ".join(f"'{sub}/{f}'" for f in lst) + "])"})
            spec.append((len(steps) - 1, "list", None, lst, None))
            steps.append({"sql": " UNION ALL ".join(f"SELECT v FROM read_parquet('{sub}/{f}')" for f in lst)})
            spec.append((len(steps) - 1, "union", None, lst, None))
            c = {"id": f"c11m-{mi}", "exec": {"kind": "det", "policy": "random", "seed": rng.randint(0, 1 << 30), "yield_p": 0.05}, "steps": steps, "max_rows": 50000}
            cases.append(c)
            meta[c["id"]] = ("multi", files, spec)
        results, m = vrun.run_sharded(cases, shards=16, wall_s=3000 if thorough else 900)
        pruned_cases = 0
        pred_cases = 0
        for c in cases:
            res = results.get(c["id"])
            mt = meta[c["id"]]
            if res is None or "not_run" in res or "fatal" in res:
                chk.inconc("case not run")
                continue
            if "died" in res:
                chk.violation(outcome_signature(res), f"process died: {json.dumps(res['died'])[:300]}", {"cases": [c]})
                continue
            steps = res["steps"]
            if mt[0] == "push":
                _, col, st_layout, allrows, spec, shape = mt
                last_on = None
                for (si, pname, psql, pfn, pidx, opt) in spec:
                    st = steps[si]
                    sql = c["steps"][si]["sql"]
                    what = f"{col.phys}/{col.logical} stats={st_layout} rg={shape} optimizer={opt} {psql}"
                    if st["outcome"] == "skipped":
                        break
                    if pname == "profile":
                        if st["outcome"] == "rows" and st["rows"] and last_on is not None:
                            from vf.vals import decode
                            out = decode(st["rows"][0][1])
                            pred_cases += 1
                            if out < len(allrows):
                                pruned_cases += 1
                                chk.count("scans_that_pruned")
                                last_on["pruned"] = True
                        continue
                    chk.evaluated()
                    if st["outcome"] == "panic":
                        chk.violation(outcome_signature(st), f"{what}: panic {st.get('panic_msg')} @ {st.get('panic_loc')}", {"cases": [c]})
                        break
                    if st["outcome"] == "error":
                        first = (st.get("error") or "").split("\n")[0]
                        # a type error of the predicate is acceptable if it also occurs without pushdown
                        other = next((steps[s2] for (s2, p2, q2, f2, i2, o2) in spec if p2 == pname and q2 == psql and o2 != opt and o2 is not None), None)
                        if other is not None and other["outcome"] == "error":
                            chk.count("both_error")
                            continue
                        import re
                        chk.violation({"kind": "unexpected-error", "message": re.sub(r"\d+", "N", first)[:80], "optimizer": opt}, f"{what}: {first}", {"cases": [c]})
                        continue
                    if st["outcome"] != "rows":
                        chk.violation({"kind": "outcome", "class": st["outcome"]}, f"{what}: {st['outcome']}", {"cases": [c]})
                        continue
                    want_rows = [r for r in allrows if pfn(r)]
                    if pidx is None:
                        want = [(len(want_rows),)]
                    elif pidx == "rowid":
                        want = [(r[2], r[2]) for r in want_rows]
                    else:
                        want = [tuple(json.dumps(pq.engine_value([col, None, None][i], r[i])) if i == 0 else r[i] for i in pidx) for r in want_rows]
                    got = []
                    for r in st["rows"]:
                        if pidx is None or pidx == "rowid":
                            got.append(tuple(r))
                        else:
                            got.append(tuple(json.dumps(v) if i == 0 else v for i, v in zip(pidx, r)))
                    if sorted(map(repr, got)) != sorted(map(repr, want)):
                        # who is wrong? The property compares with "reading everything and filtering afterwards", i.e. the
                        # unoptimized run of the same session; the engine's own comparison semantics (e.g. UBIGINT vs a BIGINT
                        # literal is compared in DOUBLE) belong to C05.
                        other = next((steps[s2] for (s2, p2, q2, f2, i2, o2) in spec if p2 == pname and q2 == psql and o2 not in (opt, None)), None)
                        same = False
                        if other is not None and other["outcome"] == "rows":
                            og = [tuple(r) if (pidx is None or pidx == "rowid") else tuple(json.dumps(v) if i == 0 else v for i, v in zip(pidx, r)) for r in other["rows"]]
                            same = sorted(map(repr, og)) == sorted(map(repr, got))
                        if same:
                            chk.count("on_and_off_agree_but_differ_from_exact_semantics")
                            continue
                        chk.violation({"kind": "pushdown-changes-rows", "optimizer": opt, "pred": pname.split("#")[0], "stats": st_layout, "type": f"{col.phys}/{col.logical}"},
                                      f"{what}: {len(got)} rows, expected {len(want)}: got {got[:4]} expected {want[:4]}\n{sql}", {"cases": [c]})
                        continue
                    rec = {"pruned": False}
                    if opt == "true":
                        last_on = rec
                    chk.nontrivial((col.phys, col.logical, st_layout, pname.split("#")[0], psql, opt, str(pidx)))
                if len(chk.samples) < 4:
                    chk.sample({"type": f"{col.phys}/{col.logical}", "stats": st_layout, "row_groups": shape, "example": c["steps"][2]["sql"]})
            else:
                _, files, spec = mt
                last_listing = None
                for (si, kind, pat, exp_files, parts) in spec:
                    st = steps[si]
                    sql = c["steps"][si]["sql"]
                    chk.evaluated()
                    what = f"multi-file {kind} pattern={pat} partitions={parts}"
                    if st["outcome"] == "skipped":
                        break
                    if st["outcome"] == "panic":
                        chk.violation(outcome_signature(st), f"{what}: panic {st.get('panic_msg')}", {"cases": [c]})
                        break
                    if kind == "listing":
                        listing = None
                        if st["outcome"] == "rows":
                            listing = [r[0].split(f"/m", 1)[-1].split("/", 1)[1] for r in st["rows"]]
                            if len(listing) != len(set(listing)):
                                chk.violation({"kind": "glob-result", "what": "duplicate-in-listing"}, f"{what}: glob() lists a file twice: {listing}", {"cases": [c]})
                            if "**" in pat:
                                # '**' semantics are undocumented (the engine matches one or more directories); the engine's own
                                # glob() listing defines "matching" there, but it must stay within the zero-or-more reading
                                if not set(listing) <= set(exp_files):
                                    chk.violation({"kind": "glob-result", "what": "listing-superset"}, f"{what}: glob() lists {listing}, not all match the pattern", {"cases": [c]})
                            elif sorted(listing) != sorted(exp_files):
                                chk.violation({"kind": "glob-result", "what": "listing"}, f"{what}: glob() lists {sorted(listing)}, expected {sorted(exp_files)}", {"cases": [c]})
                        last_listing = listing
                        continue
                    if kind in ("glob", "glob_files"):
                        if "**" in pat and last_listing is not None:
                            exp_files = [f for f in last_listing if f in files]
                        if not exp_files:
                            if st["outcome"] == "error":
                                chk.count("glob_no_match_error")
                            elif st["outcome"] == "rows" and not st["rows"]:
                                chk.count("glob_no_match_empty")
                            else:
                                chk.violation({"kind": "glob-result", "what": "no-match"}, f"{what}: expected no files but got {st['outcome']} {st.get('rows', [])[:3]}", {"cases": [c]})
                            continue
                        if st["outcome"] != "rows":
                            first = (st.get("error") or "").split("\n")[0]
                            chk.violation({"kind": "glob-result", "what": "error", "message": first[:60]}, f"{what}: {first}\n{sql}", {"cases": [c]})
                            continue
                        if kind == "glob":
                            want = sorted(v[0] for f in exp_files for v in files[f])
                            got = sorted(r[0] for r in st["rows"])
                            if got != want:
                                chk.violation({"kind": "glob-result", "what": "rows"}, f"{what}: {len(got)} rows vs {len(want)} expected (files {exp_files})\n{sql}", {"cases": [c]})
                            else:
                                chk.nontrivial(("glob", pat, parts, len(exp_files)))
                        else:
                            want = sorted((f, len(files[f])) for f in exp_files if files[f])
                            got = sorted((os.path.relpath(r[0], os.path.dirname(os.path.dirname(r[0]))) if False else r[0].split("/m", 1)[-1].split("/", 1)[1], r[1]) for r in st["rows"])
                            if got != want:
                                chk.violation({"kind": "glob-result", "what": "files"}, f"{what}: per-file counts {got} expected {want}\n{sql}", {"cases": [c]})
                        continue
                    if st["outcome"] != "rows":
                        first = (st.get("error") or "").split("\n")[0]
                        chk.violation({"kind": "list-scan", "what": "error", "message": first[:60]}, f"{what}: {first}\n{sql}", {"cases": [c]})
                        continue
                    got = sorted(r[0] for r in st["rows"])
                    want = sorted(v[0] for f in exp_files for v in files[f])
                    if got != want:
                        chk.violation({"kind": "list-scan", "what": kind}, f"{what}: {len(got)} rows vs {len(want)} (files {exp_files})\n{sql}", {"cases": [c]})
                    else:
                        chk.nontrivial(("list", kind, tuple(exp_files)))
        chk.extra["predicate_queries_profiled"] = pred_cases
        chk.extra["predicate_queries_that_pruned_rows"] = pruned_cases
        chk.floor(pred_cases == 0 or pruned_cases * 10 >= pred_cases, f"only {pruned_cases}/{pred_cases} predicate scans pruned anything")
    finally:
        shutil.rmtree(d, ignore_errors=True)
