"""Reference semantics for C20: string functions on Unicode code points, LIKE, and the regexp_* family.

Everything here works on Python `str` (sequences of code points) and never looks at the engine.
A reference function returns the LIST of acceptable results for one argument tuple; `ERR`
in that list means "an error is an acceptable outcome". More than one entry is used only where
the documentation (docs/sql/functions/string.md) and common SQL practice leave the behaviour open.
"""
import hashlib
import re

ERR = ("<error>",)   # sentinel: an error outcome is acceptable


# ---------------------------------------------------------------- LIKE --------------------------------------------------

def like_tokens(pattern, esc="\\"):
    """Pattern -> list of ('L', ch) | ('A',) any sequence | ('O',) exactly one character.
    The escape character makes the next character literal; a trailing escape character stands for
    itself (the engine's documented-in-code rule; PostgreSQL raises an error there)."""
    out = []
    i = 0
    n = len(pattern)
    while i < n:
        c = pattern[i]
        if esc is not None and c == esc:
            if i + 1 < n:
                out.append(("L", pattern[i + 1]))
                i += 2
            else:
                out.append(("L", c))
                i += 1
        elif c == "%":
            out.append(("A",))
            i += 1
        elif c == "_":
            out.append(("O",))
            i += 1
        else:
            out.append(("L", c))
            i += 1
    return out


def like_match_tokens(toks, s):
    """Classic two-pointer wildcard matcher with backtracking to the last '%'."""
    ti = si = 0
    star_t = -1
    star_s = 0
    nt, ns = len(toks), len(s)
    while si < ns:
        if ti < nt and toks[ti][0] == "A":
            star_t = ti
            star_s = si
            ti += 1
        elif ti < nt and (toks[ti][0] == "O" or (toks[ti][0] == "L" and toks[ti][1] == s[si])):
            ti += 1
            si += 1
        elif star_t >= 0:
            star_s += 1
            si = star_s
            ti = star_t + 1
        else:
            return False
    while ti < nt and toks[ti][0] == "A":
        ti += 1
    return ti == nt


def like(s, pattern, esc="\\"):
    if s is None or pattern is None:
        return None
    return like_match_tokens(like_tokens(pattern, esc), s)


def like_shape(pattern, esc="\\"):
    """Semantic shape of a pattern (independent of how the engine classifies it)."""
    toks = like_tokens(pattern, esc)
    kinds = "".join(t[0] for t in toks)
    if "O" in kinds:
        return "general"
    if "A" not in kinds:
        return "literal"
    if re.fullmatch(r"L*A+", kinds):
        return "prefix"
    if re.fullmatch(r"A+L+", kinds):
        return "suffix"
    if re.fullmatch(r"A+L+A+", kinds):
        return "contains"
    return "general"


# ---------------------------------------------------------------- scalar functions ------------------------------------------

def r_length(s):
    return [len(s)]


def r_byte_length(s):
    return [len(s.encode("utf-8"))]


def r_bit_length(s):
    return [8 * len(s.encode("utf-8"))]


def r_substring(s, start, count=None):
    """SQL standard / PostgreSQL: positions are 1-based, the window [start, start+count) is
    intersected with the string; a negative count is an error (some engines return '' or count
    backwards: all three accepted, but never characters *after* the window)."""
    lenient = [ERR] if start <= 0 else []      # "the index is 1-based": rejecting a non-positive index is acceptable too
    if count is None:
        return [s[max(start, 1) - 1:]] + lenient
    if count < 0:
        back = s[max(start + count, 1) - 1:max(start, 1) - 1]   # DuckDB-style backwards window
        return [ERR, "", back]
    end = start + count
    return [s[max(start, 1) - 1:max(end, 1) - 1]] + lenient


def r_left(s, n):
    if n >= 0:
        return [s[:n]]
    return [s[:max(len(s) + n, 0)]]


def r_right(s, n):
    if n >= 0:
        return [s[len(s) - n:] if n < len(s) else s]
    return [s[-n:] if -n < len(s) else ""]


def _pad(s, n, pad, left):
    if n < 0:
        outs = ["", ERR]          # PostgreSQL clamps a negative count to 0; rejecting it is as good
    elif len(s) >= n:
        outs = [s[:n]]
    elif pad == "":
        outs = [s]
    else:
        fill = (pad * (n // len(pad) + 1))[:n - len(s)]
        outs = [fill + s if left else s + fill]
    if pad == "" and s not in outs:
        outs.append(s)            # "nothing to pad with": whether the string is still cut to `count` is not documented
    return outs


def r_lpad(s, n, pad=" "):
    return _pad(s, n, pad, True)


def r_rpad(s, n, pad=" "):
    return _pad(s, n, pad, False)


def _strip(s, chars, left, right):
    i, j = 0, len(s)
    if left:
        while i < j and s[i] in chars:
            i += 1
    if right:
        while j > i and s[j - 1] in chars:
            j -= 1
    return s[i:j]


WS = " \t\n\r\x0b\x0c"


def _trim1(s, left, right):
    # one-argument form: docs say "whitespace" for rtrim and show spaces; PostgreSQL removes spaces only.
    outs = [_strip(s, " ", left, right)]
    w = _strip(s, WS, left, right)
    if w not in outs:
        outs.append(w)
    return outs


def r_trim(s, chars=None):
    return _trim1(s, True, True) if chars is None else [_strip(s, chars, True, True)]


def r_ltrim(s, chars=None):
    return _trim1(s, True, False) if chars is None else [_strip(s, chars, True, False)]


def r_rtrim(s, chars=None):
    return _trim1(s, False, True) if chars is None else [_strip(s, chars, False, True)]


def r_upper(s):
    return [s.upper()]


def r_lower(s):
    return [s.lower()]


def r_reverse(s):
    return [s[::-1]]


def r_repeat(s, n):
    return [s * max(n, 0)]


def r_replace(s, frm, to):
    if frm == "":
        return [s]
    return [s.replace(frm, to)]


def r_translate(s, frm, to):
    m = {}
    for i, c in enumerate(frm):
        if c not in m:
            m[c] = to[i] if i < len(to) else None
    out = []
    for c in s:
        if c in m:
            if m[c] is not None:
                out.append(m[c])
        else:
            out.append(c)
    return ["".join(out)]


def r_split_part(s, delim, n):
    if n == 0:
        return [ERR, ""]          # PostgreSQL: error; the docs only define n != 0
    if delim == "":
        parts = [s]
    else:
        parts = s.split(delim)
    if n > 0:
        return [parts[n - 1] if n <= len(parts) else ""]
    return [parts[n] if -n <= len(parts) else ""]


def r_strpos(s, sub):
    return [s.find(sub) + 1]


def _initcap(s, is_sep, title):
    out = []
    cap = True
    for c in s:
        if c.isalpha():
            if cap:
                out.append(c.title() if title else c.upper())
                cap = False
            else:
                out.append(c.lower())
        else:
            out.append(c)
            cap = is_sep(c)
    return "".join(out)


def r_initcap(s):
    """'Convert first letter of each word to uppercase' (rest lowercase, as in the doc example and
    PostgreSQL). What separates words is not documented: accepted are (a) whitespace and - _ . ,
    (b) any non-alphanumeric character (PostgreSQL). Digits continue a word in both readings.
    Upper-casing the first letter may use the upper-case or the title-case mapping."""
    outs = []
    for title in (False, True):
        for sep in (lambda c: c.isspace() or c in "-_.,", lambda c: not c.isalnum()):
            v = _initcap(s, sep, title)
            if v not in outs:
                outs.append(v)
    return outs


def r_concat(*xs):
    return ["".join(xs)]


def r_ascii(s):
    return [ord(s[0]) if s else 0]


def r_starts_with(s, p):
    return [s.startswith(p)]


def r_ends_with(s, p):
    return [s.endswith(p)]


def r_contains(s, p):
    return [p in s]


def r_like(s, p):
    return [like(s, p)]


def r_md5(s):
    return [hashlib.md5(s.encode("utf-8")).hexdigest()]


# ---------------------------------------------------------------- regular expressions ------------------------------------------
# Patterns are written in the syntax common to Rust `regex` and Python `re`; the one spelling
# difference (end of text) is translated here: Rust `$` == Python `\Z` (Python's `$` also matches
# before a trailing newline).  (rust_pattern, python_pattern, can_match_empty)

REGEX_PATTERNS = [
    ("a", "a", False), ("a|b", "a|b", False), ("[ae]", "[ae]", False), ("a+", "a+", False), ("ab*", "ab*", False),
    (".", ".", False), ("^a", "^a", False), ("b$", "b\\Z", False), ("(a)(b)", "(a)(b)", False),
    ("\u00e9", "\u00e9", False), ("[\u00e9\ud55c]", "[\u00e9\ud55c]", False), ("\\.", "\\.", False), ("a.b", "a.b", False),
    ("[^a]", "[^a]", False), ("\ud55c+", "\ud55c+", False), ("(ab)+", "(ab)+", False), ("a{2}", "a{2}", False),
    ("\\(", "\\(", False), ("\\[", "\\[", False), ("\\*", "\\*", False), ("\U0001F600", "\U0001F600", False),
    ("e\u0301", "e\u0301", False), ("\\\\", "\\\\", False), ("%", "%", False), ("_", "_", False), (" +", " +", False),
    ("\n", "\n", False), ("[a-b]B", "[a-b]B", False), ("(\u00e9|\u00df)(.)", "(\u00e9|\u00df)(.)", False), ("..", "..", False),
    (".\U0001F600", ".\U0001F600", False), ("\u01c6", "\u01c6", False), ("^.", "^.", False), (".$", ".\\Z", False),
    ("b*", "b*", True), (".*", ".*", True), ("", "", True), ("x?", "x?", True), ("^", "^", True), ("$", "\\Z", True), ("(a|)(b)", "(a|)(b)", False),
]
PY_OF = {r: p for (r, p, _) in REGEX_PATTERNS}
NULLABLE = {r for (r, _, e) in REGEX_PATTERNS if e}
_compiled = {}


def _rx(pat):
    c = _compiled.get(pat)
    if c is None:
        c = _compiled[pat] = re.compile(PY_OF[pat])
    return c


def r_regexp_like(s, pat):
    return [_rx(pat).search(s) is not None]


def r_regexp_count(s, pat):
    """Non-overlapping occurrences. For patterns that can match the empty string the iteration rule
    after an empty/adjacent match differs between regex engines: not judged (caller skips them)."""
    return [sum(1 for _ in _rx(pat).finditer(s))]


def r_regexp_instr(s, pat):
    """'Returns the starting position of the first match': 1-based, in characters like strpos; 0 if none."""
    m = _rx(pat).search(s)
    return [m.start() + 1 if m else 0]


def pg_replacement(rep, m):
    """PostgreSQL-style replacement text: \\N = group N, \\\\ = backslash, \\x = x, trailing \\ = itself."""
    out = []
    i = 0
    while i < len(rep):
        c = rep[i]
        if c == "\\":
            if i + 1 < len(rep):
                d = rep[i + 1]
                if d in "0123456789":
                    k = int(d)
                    if k <= (m.re.groups) and m.group(k) is not None:
                        out.append(m.group(k))
                else:
                    out.append(d)
                i += 2
            else:
                out.append("\\")
                i += 1
        else:
            out.append(c)
            i += 1
    return "".join(out)


def r_regexp_replace(s, pat, rep):
    """Replace the FIRST match (docs)."""
    m = _rx(pat).search(s)
    if not m:
        return [s]
    return [s[:m.start()] + pg_replacement(rep, m) + s[m.end():]]
