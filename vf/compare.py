"""Comparators between model rows and engine rows."""
import math
from fractions import Fraction
from vf.vals import decode
from vf.refsql import cmp_vals, sort_key_cmp, canon_val

REL_TOL = 1e-9


def set_exact(flag=True):
    """Checks whose subject is value fidelity (sorting, file readers, casts) compare floats exactly."""
    global REL_TOL
    REL_TOL = 0.0 if flag else 1e-9


def dec_row(r):
    out = []
    for v in r:
        d = decode(v)
        if isinstance(d, Fraction) and d.denominator == 1:
            d = int(d)
        out.append(d)
    return tuple(out)


def val_eq(a, b):
    if a is None or b is None:
        return a is None and b is None
    if isinstance(a, bool) or isinstance(b, bool):
        return isinstance(a, bool) and isinstance(b, bool) and a == b
    if isinstance(a, str) or isinstance(b, str):
        return isinstance(a, str) and isinstance(b, str) and a == b
    if isinstance(a, float) or isinstance(b, float):
        fa, fb = float(a), float(b)
        if fa != fa or fb != fb:
            return fa != fa and fb != fb
        if fa == fb:
            return True
        if fa in (float("inf"), float("-inf")) or fb in (float("inf"), float("-inf")):
            return False
        return abs(fa - fb) <= REL_TOL * max(abs(fa), abs(fb), 1e-300)
    return a == b


def row_eq(r1, r2):
    return len(r1) == len(r2) and all(val_eq(a, b) for a, b in zip(r1, r2))


def _sort_key(r):
    k = []
    for v in r:
        if v is None:
            k.append((0, 0))
        elif isinstance(v, bool):
            k.append((1, int(v)))
        elif isinstance(v, (int, float, Fraction)):
            f = float(v)
            if f != f:
                k.append((3, 0))
            else:
                # round to 8 significant digits so values within tolerance sort together
                k.append((2, float("%.8g" % f) if REL_TOL else f))
        elif isinstance(v, str):
            k.append((4, v))
        else:
            k.append((5, repr(v)))
    return tuple(k)


def bag_equal(a, b):
    """Bag equality with float tolerance. Returns (ok, explanation)."""
    if len(a) != len(b):
        return False, f"row count {len(b)} != expected {len(a)}"
    sa, sb = sorted(a, key=_sort_key), sorted(b, key=_sort_key)
    if all(row_eq(x, y) for x, y in zip(sa, sb)):
        return True, ""
    # fallback greedy matching (rounding boundaries may have permuted near-equal floats)
    rest = list(sb)
    for x in sa:
        for i, y in enumerate(rest):
            if row_eq(x, y):
                del rest[i]
                break
        else:
            return False, f"expected row {x} missing from engine result (engine-only rows e.g. {rest[:2]})"
    return True, ""


def sub_bag(small, big):
    rest = list(big)
    for x in small:
        for i, y in enumerate(rest):
            if row_eq(x, y):
                del rest[i]
                break
        else:
            return False, x
    return True, None


def is_sorted(rows, order):
    cmp = sort_key_cmp(order)
    for i in range(len(rows) - 1):
        if cmp(rows[i], rows[i + 1]) > 0:
            return False, i
    return True, None


def admissible_slice(engine_rows, full_rows, order, limit, offset):
    """engine_rows must be a sorted sub-bag of full_rows of the right size containing every row sorting strictly
    before the cut-offs and none sorting strictly after. full_rows: model's complete (unsliced) result."""
    import functools
    off = offset or 0
    n = len(full_rows)
    want = max(0, min(limit, n - off)) if limit is not None else max(0, n - off)
    if len(engine_rows) != want:
        return False, f"slice has {len(engine_rows)} rows, expected {want}"
    ok, bad = sub_bag(engine_rows, full_rows)
    if not ok:
        return False, f"row {bad} is not among the input rows (or is duplicated)"
    if not order:
        return True, ""
    ok, i = is_sorted(engine_rows, order)
    if not ok:
        return False, f"rows {i},{i+1} out of order"
    if want == 0:
        return True, ""
    cmp = sort_key_cmp(order)
    srt = sorted(full_rows, key=functools.cmp_to_key(cmp))
    lo_row, hi_row = srt[off], srt[off + want - 1]
    # every engine row must lie within [lo_row, hi_row] by key, and counts strictly inside must match
    for r in engine_rows:
        if cmp(r, lo_row) < 0 or cmp(r, hi_row) > 0:
            return False, f"row {r} sorts outside the slice bounds"
    strictly_inside = [r for r in srt if cmp(r, lo_row) > 0 and cmp(r, hi_row) < 0]
    ok, bad = sub_bag(strictly_inside, engine_rows)
    if not ok:
        return False, f"row {bad} sorts strictly inside the slice but is missing"
    return True, ""
