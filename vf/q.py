"""ad-hoc: python3 -m vf.q "sql" ["sql"...]  -> compact outcome per statement (one session)"""
import sys, json
from vf import run
def show(st):
    o = st.get("outcome")
    if o == "rows":
        return f"rows {st.get('schema')} {json.dumps(st.get('rows'))[:600]}"
    if o == "error":
        return "error " + st.get("error", "")[:300]
    if o == "panic":
        return "PANIC " + st.get("panic_msg", "") + " @ " + st.get("panic_frame", "")[:200]
    return json.dumps(st)[:300]
if __name__ == "__main__":
    kind = "det"
    args = sys.argv[1:]
    cases = [{"id": f"q{i}", "steps": [{"sql": a}]} for i, a in enumerate(args)] if "--sep" in args else [{"id": "q", "steps": [{"sql": a} for a in args]}]
    if "--sep" in args:
        cases = [c for c in cases if c["steps"][0]["sql"] != "--sep"]
    res, _ = run.run_cases(cases)
    for cid, r in res.items():
        if "died" in r:
            print(cid, "DIED", json.dumps(r["died"])[:500]); continue
        for st, c in zip(r["steps"], [s["sql"] for s in next(x for x in cases if x["id"] == cid)["steps"]]):
            print(c[:100], "=>", show(st))
