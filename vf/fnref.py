"""Python reference implementations of GlareDB scalar operators/functions (used by C05).

Values are the decoded Python values of vf.vals.decode: None (NULL), bool, int,
float (f32 values are held as the double with the same value), Fraction
(decimals), str, ('date', days), ('ts', unit, v).

A reference returns an *expectation*:
  Exact(v)            the value, bit-exact for floats (any NaN matches NaN; the
                      sign of a zero is only compared when zsign=True)
  Approx(v, ulps)     float within `ulps` units in the last place of the result type
  Real(fr, ulps)      float within `ulps` of the correctly rounded real number `fr`
  OneOf(e1, e2, ..)   any of the expectations
  ANY                 no reference (behaviour unspecified): contexts must agree
"""
import math, struct, datetime
from fractions import Fraction

NAN = float("nan")
INF = float("inf")


class Exact:
    __slots__ = ("v", "zsign")

    def __init__(self, v, zsign=False):
        self.v = v
        self.zsign = zsign

    def __repr__(self):
        return f"Exact({self.v!r})"


class Approx:
    __slots__ = ("v", "ulps")

    def __init__(self, v, ulps=2):
        self.v = v
        self.ulps = ulps

    def __repr__(self):
        return f"Approx({self.v!r},{self.ulps}ulp)"


class Real:
    __slots__ = ("fr", "ulps")

    def __init__(self, fr, ulps=0):
        self.fr = fr
        self.ulps = ulps

    def __repr__(self):
        return f"Real({self.fr},{self.ulps}ulp)"


class OneOf:
    __slots__ = ("alts",)

    def __init__(self, *alts):
        self.alts = alts

    def __repr__(self):
        return "OneOf(" + ", ".join(map(repr, self.alts)) + ")"


class _Any:
    def __repr__(self):
        return "ANY"


ANY = _Any()
NULL = Exact(None)


# ---- float helpers -----------------------------------------------------------

def f32r(x):
    """Round a double to the nearest float32 (as a double)."""
    if x != x or x in (INF, -INF):
        return x
    try:
        return struct.unpack("<f", struct.pack("<f", x))[0]
    except OverflowError:
        return INF if x > 0 else -INF


def _ord64(x):
    b = struct.unpack("<q", struct.pack("<d", x))[0]
    return b if b >= 0 else -(b & 0x7FFFFFFFFFFFFFFF)


def _ord32(x):
    b = struct.unpack("<i", struct.pack("<f", x))[0]
    return b if b >= 0 else -(b & 0x7FFFFFFF)


def ulp_dist(a, b, is32):
    if a != a or b != b:
        return 0 if (a != a and b != b) else 1 << 62
    if a in (INF, -INF) or b in (INF, -INF):
        if a == b:
            return 0
        # an overflow to inf vs the largest finite value is one step
    try:
        return abs(_ord32(a) - _ord32(b)) if is32 else abs(_ord64(a) - _ord64(b))
    except (OverflowError, struct.error):
        return 1 << 62


def isneg0(x):
    return x == 0 and math.copysign(1.0, x) < 0


def is_float_raw(raw):
    return isinstance(raw, dict) and ("f64" in raw or "f32" in raw)


def matches(exp, raw, got):
    """Does the engine value (raw encoding, decoded `got`) satisfy expectation exp?"""
    if exp is ANY:
        return True
    if isinstance(exp, OneOf):
        return any(matches(e, raw, got) for e in exp.alts)
    is32 = isinstance(raw, dict) and "f32" in raw
    if isinstance(exp, Exact):
        v = exp.v
        if v is None or got is None:
            return v is None and got is None
        if isinstance(v, bool) or isinstance(got, bool):
            return isinstance(v, bool) and isinstance(got, bool) and v == got
        if isinstance(v, float):
            if not isinstance(got, float):
                # exact integer / decimal result announced where a float was expected: must be the same number
                if isinstance(got, (int, Fraction)) and v == v and abs(v) != INF:
                    return Fraction(v) == got
                return False
            if is32:
                v = f32r(v)
            if v != v:
                return got != got
            if got != v:
                return False
            if exp.zsign and v == 0:
                return isneg0(v) == isneg0(got)
            return True
        if isinstance(v, (int, Fraction)):
            if isinstance(got, float):
                if got != got or abs(got) == INF:
                    return False
                # float result for an exact reference: the correctly rounded value (1 ulp is granted to the
                # decimal -> float conversion, which is C13's subject)
                try:
                    w = float(Fraction(v))
                except OverflowError:
                    return False
                if is32:
                    w = f32r(w)
                return ulp_dist(w, got, is32) <= 1
            return isinstance(got, (int, Fraction)) and got == v
        return got == v
    if isinstance(exp, Approx):
        if not isinstance(got, float):
            return False
        v = f32r(exp.v) if is32 else exp.v
        if v != v:
            return got != got
        return ulp_dist(v, got, is32) <= exp.ulps
    if isinstance(exp, Real):
        if not isinstance(got, float):
            return isinstance(got, (int, Fraction)) and got == exp.fr
        try:
            v = float(exp.fr)
        except OverflowError:
            v = INF if exp.fr > 0 else -INF
        if is32:
            v = f32r(v)
        return ulp_dist(v, got, is32) <= exp.ulps
    raise TypeError(exp)


# ---- three-valued logic ---------------------------------------------------------

def and3(*xs):
    if any(x is False for x in xs):
        return False
    if any(x is None for x in xs):
        return None
    return True


def or3(*xs):
    if any(x is True for x in xs):
        return True
    if any(x is None for x in xs):
        return None
    return False


def not3(x):
    return None if x is None else (not x)


# ---- comparisons ----------------------------------------------------------------

def _num(x):
    """Exact rational value of a numeric operand, or the float itself when not finite."""
    if isinstance(x, float):
        if x != x or abs(x) == INF:
            return x
        return Fraction(x)
    if isinstance(x, bool):
        return int(x)
    if isinstance(x, (int, Fraction)):
        return Fraction(x)
    return x


def key_of(x):
    """Comparable key for same-type operands."""
    if isinstance(x, tuple):
        return x[-1]
    if isinstance(x, str):
        return x.encode("utf-8")
    return x


def cmp_exact(op, a, b):
    """Mathematically exact comparison; None if a NaN is involved (unspecified)."""
    if a is None or b is None:
        return None
    if isinstance(a, float) and a != a or isinstance(b, float) and b != b:
        return "nan"
    if isinstance(a, (int, float, Fraction)) and not isinstance(a, bool):
        x, y = _num(a), _num(b)
    else:
        x, y = key_of(a), key_of(b)
    return {"=": x == y, "<>": x != y, "<": x < y, "<=": x <= y, ">": x > y, ">=": x >= y}[op]


def _to_float_like(x, other_is32):
    try:
        f = float(x)
    except OverflowError:
        f = INF if x > 0 else -INF
    return f32r(f) if other_is32 else f


def cmp_ref(op, a, b, f32a=False, f32b=False):
    """Expectation for `a op b`. Mixed exact/float operands may be compared either exactly or after
    converting the exact operand to the float type (both are accepted)."""
    if a is None or b is None:
        return NULL
    e = cmp_exact(op, a, b)
    if e == "nan":
        return ANY
    alts = [Exact(e)]
    fa, fb = isinstance(a, float), isinstance(b, float)
    if fa != fb and not isinstance(a, (bool, str, tuple)) and not isinstance(b, (bool, str, tuple)):
        if fa:
            for is32 in {f32a, False}:
                alts.append(Exact(cmp_exact(op, a, _to_float_like(b, is32))))
        else:
            for is32 in {f32b, False}:
                alts.append(Exact(cmp_exact(op, _to_float_like(a, is32), b)))
    elif fa and fb and f32a != f32b:
        pass  # f32 -> f64 widening is exact
    return alts[0] if len(alts) == 1 else OneOf(*alts)


def _val_of(exp):
    """truth value(s) an expectation allows, as a set; None element = NULL; 'any' = unspecified"""
    if exp is ANY:
        return {"any"}
    if isinstance(exp, OneOf):
        s = set()
        for e in exp.alts:
            s |= _val_of(e)
        return s
    return {exp.v}


def combine3(fn, *exps):
    """Lift a 3VL function over expectations (which may be OneOf/ANY)."""
    import itertools
    sets = [_val_of(e) for e in exps]
    if any("any" in s for s in sets):
        # determined anyway?
        outs = set()
        for combo in itertools.product(*[(s - {"any"}) | ({True, False, None} if "any" in s else set()) for s in sets]):
            outs.add(fn(*combo))
        if len(outs) == 1:
            return Exact(outs.pop())
        return ANY
    outs = set()
    for combo in itertools.product(*sets):
        outs.add(fn(*combo))
    if len(outs) == 1:
        return Exact(outs.pop())
    return OneOf(*[Exact(o) for o in outs])


def distinct_ref(neg, a, b, **kw):
    """a IS [NOT] DISTINCT FROM b (neg=True for IS NOT DISTINCT FROM)."""
    if a is None and b is None:
        return Exact(neg)
    if a is None or b is None:
        return Exact(not neg)
    e = cmp_ref("=" if neg else "<>", a, b, **kw)
    return e


def between_ref(neg, x, lo, hi, **kw):
    e = combine3(and3, cmp_ref(">=", x, lo), cmp_ref("<=", x, hi))
    return combine3(not3, e) if neg else e


def in_ref(neg, x, items):
    e = combine3(or3, *[cmp_ref("=", x, it) for it in items])
    return combine3(not3, e) if neg else e


# ---- arithmetic --------------------------------------------------------------------

def trunc_div(a, b):
    q = abs(a) // abs(b)
    return q if (a >= 0) == (b >= 0) else -q


def fdiv(a, b):
    """IEEE double division."""
    if a != a or b != b:
        return NAN
    if b == 0:
        if a == 0 or a != a:
            return NAN
        neg = (math.copysign(1.0, a) < 0) != (math.copysign(1.0, b) < 0)
        return -INF if neg else INF
    if abs(a) == INF and abs(b) == INF:
        return NAN
    try:
        return a / b
    except OverflowError:
        return INF if (a > 0) == (b > 0) else -INF


def fmod(a, b):
    if a != a or b != b or abs(a) == INF or b == 0:
        return NAN
    return math.fmod(a, b)


def fmul(a, b):
    if a != a or b != b:
        return NAN
    if (a == 0 and abs(b) == INF) or (b == 0 and abs(a) == INF):
        return NAN
    return a * b


def fadd(a, b):
    if a != a or b != b:
        return NAN
    if abs(a) == INF and abs(b) == INF and a != b:
        return NAN
    return a + b


def float_arith(op, a, b, is32):
    """IEEE result of a op b in the float type (f32 operands are exact doubles; double rounding is innocuous)."""
    if op == "+":
        r = fadd(a, b)
    elif op == "-":
        r = fadd(a, -b)
    elif op == "*":
        r = fmul(a, b)
    elif op == "/":
        r = fdiv(a, b)
    else:
        r = fmod(a, b)
    return f32r(r) if is32 else r


def arith_ref(op, a, b, raw=None, f32a=False, f32b=False):
    """Expectation for a op b. `raw` is the engine's encoded result (used only to learn the announced
    result class: float vs exact), since the result type of mixed operands is dialect specific."""
    if a is None or b is None:
        return NULL
    fa, fb = isinstance(a, float), isinstance(b, float)
    if fa or fb:
        is32 = (f32a or not fa) and (f32b or not fb)
        if fa and fb:
            return Exact(float_arith(op, a, b, is32), zsign=True)
        # mixed: the exact operand is converted to a float first (to f32 or f64: both accepted)
        alts = []
        for c32 in (True, False):
            x = a if fa else _to_float_like(a, c32)
            y = b if fb else _to_float_like(b, c32)
            alts.append(Exact(float_arith(op, x, y, c32 and is32), zsign=False))
            alts.append(Exact(float_arith(op, x, y, False), zsign=False))
        return OneOf(*alts)
    ints = isinstance(a, int) and isinstance(b, int)
    if op == "+":
        return Exact(a + b)
    if op == "-":
        return Exact(a - b)
    if op == "*":
        return Exact(a * b)
    if ints:
        if b == 0:
            return ANY
        q = trunc_div(a, b)
        return Exact(q if op == "/" else a - b * q)
    # decimal / and %: DOUBLE results
    x, y = Fraction(a), Fraction(b)
    fx, fy = float(x), float(y)
    if op == "/":
        if y == 0:
            return OneOf(Exact(fdiv(fx, fy)), ANY) if False else Exact(fdiv(fx, fy))
        return OneOf(Real(x / y, 2), Approx(fdiv(fx, fy), 1))
    if y == 0:
        return Exact(NAN)
    q = trunc_div(x.numerator * y.denominator, y.numerator * x.denominator)
    alts = [Real(x - y * q, 1)]
    # fmod of the operands converted to DOUBLE (each conversion may be off by one ulp)
    for ax in (fx, math.nextafter(fx, INF), math.nextafter(fx, -INF)):
        for by in (fy, math.nextafter(fy, INF), math.nextafter(fy, -INF)):
            alts.append(Approx(fmod(ax, by), 1))
    return OneOf(*alts)


def neg_ref(a, is32=False):
    if a is None:
        return NULL
    if isinstance(a, float):
        return Exact(-a, zsign=True)
    return Exact(-a)   # decimals: a DOUBLE result must be the correctly rounded value (see matches)


# ---- numeric functions ---------------------------------------------------------------

def _f(x):
    """argument as the double the engine sees (exact numerics are cast to DOUBLE)."""
    if isinstance(x, float):
        return x
    try:
        return float(x)
    except OverflowError:
        return INF if x > 0 else -INF


def _safe(fn, *xs, dom=NAN):
    try:
        return fn(*xs)
    except ValueError:
        return dom
    except OverflowError:
        return None


def round_half_away(x):
    if x != x or abs(x) == INF or abs(x) >= 2.0 ** 52:
        return x
    fl = math.floor(x)
    d = x - fl
    if d > 0.5:
        r = fl + 1.0
    elif d < 0.5:
        r = float(fl)
    else:
        r = fl + 1.0 if x > 0 else float(fl)
    r = float(r)
    if r == 0:
        return math.copysign(0.0, x)
    return r


def round_half_even(x):
    if x != x or abs(x) == INF or abs(x) >= 2.0 ** 52:
        return x
    r = float(round(x))
    return math.copysign(0.0, x) if r == 0 else r


def _floor(x):
    if x != x or abs(x) == INF:
        return x
    r = float(math.floor(x))
    return math.copysign(0.0, x) if r == 0 and x <= 0 and isneg0(x) else r


def _ceil(x):
    if x != x or abs(x) == INF:
        return x
    r = float(math.ceil(x))
    return -0.0 if r == 0 and x < 0 else r


def _trunc(x):
    if x != x or abs(x) == INF:
        return x
    r = float(math.trunc(x))
    return math.copysign(0.0, x) if r == 0 else r


def _cbrt(x):
    if x != x or abs(x) == INF or x == 0:
        return x
    # (math.cbrt of the C library was observed 3 ulp off; use exact integer arithmetic instead)
    # correctly rounded cube root via integer arithmetic on the exact rational
    fr = Fraction(abs(x))
    # scale so that the integer cube root has > 60 significant bits
    k = 0
    n, d = fr.numerator, fr.denominator
    # value = n/d ; want r = cbrt(n/d) ; r ~ icbrt(n * 2^(3k) * d^2) / (d * 2^k)
    target_bits = 200
    cur = (n * d * d).bit_length()
    k = max(0, (target_bits - cur + 2) // 3)
    m = n * d * d << (3 * k)
    r = _icbrt(m)
    val = Fraction(r, d << k)
    f = float(val)
    return math.copysign(f, x)


def _icbrt(n):
    if n == 0:
        return 0
    x = 1 << ((n.bit_length() + 2) // 3)
    while True:
        y = (2 * x + n // (x * x)) // 3
        if y >= x:
            return x
        x = y


def _pow(a, b):
    # IEEE 754 / C99 pow special cases
    if b == 0:
        return 1.0
    if a == 1:
        return 1.0
    if a != a or b != b:
        return NAN
    try:
        return math.pow(a, b)
    except ValueError:
        if a == 0:          # 0 ** negative
            odd = abs(b) < 2.0 ** 53 and float(b).is_integer() and int(b) % 2 == 1
            return math.copysign(INF, a) if odd else INF
        return NAN          # negative base, non-integer exponent
    except OverflowError:
        neg = a < 0 and float(b).is_integer() and abs(b) < 2.0 ** 53 and int(b) % 2 == 1
        return -INF if neg else INF


def _exp(x):
    if x != x:
        return x
    try:
        return math.exp(x)
    except OverflowError:
        return INF


def _log(fn):
    def g(x):
        if x != x:
            return x
        if x == 0:
            return -INF
        if x < 0:
            return NAN
        if x == INF:
            return INF
        return fn(x)
    return g


def _trig(fn):
    def g(x):
        if x != x or abs(x) == INF:
            return NAN
        return fn(x)
    return g


def _dom11(fn):
    def g(x):
        if x != x or abs(x) > 1:
            return NAN
        return fn(x)
    return g


def _cosh(x):
    try:
        return math.cosh(x)
    except OverflowError:
        return INF


def _sinh(x):
    try:
        return math.sinh(x)
    except OverflowError:
        return math.copysign(INF, x)


def _acosh(x):
    if x != x or x < 1:
        return NAN
    return math.acosh(x) if x != INF else INF


def _atanh(x):
    if x != x or abs(x) > 1:
        return NAN
    if abs(x) == 1:
        return math.copysign(INF, x)
    return math.atanh(x)


def _sqrt(x):
    if x != x:
        return x
    if x < 0:
        return NAN
    if x == INF or x == 0:
        return x
    return math.sqrt(x)


def _sign(x):
    if x != x:
        return None   # unspecified
    return 0.0 if x == 0 else (1.0 if x > 0 else -1.0)


def _cot(x):
    if x != x or abs(x) == INF:
        return NAN
    t = math.tan(x)
    return INF if t == 0 else 1.0 / t


# name -> (python fn over a double, tolerance in ulps or 0 for exact)
UNARY_FLOAT = {
    "abs": (lambda x: abs(x), 0),
    "ceil": (_ceil, 0),
    "ceiling": (_ceil, 0),
    "floor": (_floor, 0),
    "trunc": (_trunc, 0),
    "sqrt": (_sqrt, 0),
    "cbrt": (_cbrt, 2),
    "exp": (_exp, 2),
    "ln": (_log(math.log), 2),
    "log": (_log(math.log10), 2),
    "log10": (_log(math.log10), 2),
    "log2": (_log(math.log2), 2),
    "sin": (_trig(math.sin), 2),
    "cos": (_trig(math.cos), 2),
    "tan": (_trig(math.tan), 2),
    "cot": (_cot, 4),
    "asin": (_dom11(math.asin), 2),
    "acos": (_dom11(math.acos), 2),
    "atan": (lambda x: math.atan(x), 2),
    "sinh": (_sinh, 2),
    "cosh": (_cosh, 2),
    "tanh": (lambda x: math.tanh(x), 2),
    "asinh": (lambda x: math.asinh(x), 2),
    "acosh": (_acosh, 2),
    "atanh": (_atanh, 2),
    "degrees": (lambda x: x if x != x or abs(x) == INF else _safe(lambda: x * (180.0 / math.pi)), 2),
    "radians": (lambda x: x if x != x or abs(x) == INF else x * (math.pi / 180.0), 2),
}


def unary_float_ref(name, a, is32=False):
    """Expectation for name(a) where the function is defined on floats (exact numerics are cast to DOUBLE; the
    conversion of a DECIMAL may be off by one ulp, which is C13's subject, so the neighbours are accepted too)."""
    if a is None:
        return NULL
    x = _f(a)
    if isinstance(a, Fraction) and Fraction(x) != a and x == x and abs(x) != INF:
        return OneOf(*[_unary_float_ref1(name, y, is32) for y in (x, math.nextafter(x, INF), math.nextafter(x, -INF))])
    return _unary_float_ref1(name, x, is32)


def _unary_float_ref1(name, x, is32=False):
    if name == "sign":
        s = _sign(x)
        return ANY if s is None else Exact(s)
    if name == "round":
        # ties: "nearest whole value" does not fix the rule -> both accepted
        return OneOf(Exact(round_half_away(x)), Exact(round_half_even(x)))
    if name == "isnan":
        return Exact(x != x)
    if name == "isinf":
        return Exact(abs(x) == INF)
    if name == "isfinite":
        return Exact(x == x and abs(x) != INF)
    fn, tol = UNARY_FLOAT[name]
    v = fn(x)
    if v is None:
        return ANY
    if is32 and tol and x == x and abs(x) != INF:
        # an f32 implementation sees the same argument; result rounded to f32 -> tolerance in f32 ulps
        pass
    if tol == 0:
        return Exact(v)
    # near overflow / subnormal results of transcendental functions: allow the tolerance in ulps
    return Approx(v, tol)


def binary_float_ref(name, a, b):
    if a is None or b is None:
        return NULL
    x, y = _f(a), _f(b)
    if name in ("pow", "power"):
        return Approx(_pow(x, y), 2)
    if name == "atan2":
        return Approx(math.atan2(x, y), 2)
    raise KeyError(name)


def round_dec_ref(a, scale_in, n=None):
    """round(decimal(p,s) [, n]) -> decimal rounded half away from zero at scale min(n, s) (n >= 0)."""
    if a is None:
        return NULL
    n = 0 if n is None else n
    n = min(n, scale_in)
    if n < 0:
        return ANY
    q = Fraction(a) * 10 ** n
    fl = q.numerator // q.denominator
    d = q - fl
    if d > Fraction(1, 2) or (d == Fraction(1, 2) and q > 0):
        fl += 1
    return Exact(Fraction(fl, 10 ** n))


def gcd_ref(a, b, bits=None):
    if a is None or b is None:
        return NULL
    g = math.gcd(a, b)
    if bits and g >= 2 ** (bits - 1):
        return ANY    # not representable (|MIN|): error/overflow class, C12's subject
    return Exact(g)


def lcm_ref(a, b, bits=None):
    if a is None or b is None:
        return NULL
    if a == 0 or b == 0:
        return Exact(0)
    l = abs(a * b) // math.gcd(a, b)
    if bits and l >= 2 ** (bits - 1):
        return ANY
    return Exact(l)


def factorial_ref(n):
    if n is None:
        return NULL
    if n < 0 or n > 33:
        return ANY   # docs do not say; the engine returns NULL (contexts must agree)
    return Exact(math.factorial(n))


def wrap(v, bits, signed):
    v &= (1 << bits) - 1
    if signed and v >= 1 << (bits - 1):
        v -= 1 << bits
    return v


def shl_ref(a, n, bits, signed):
    if a is None or n is None:
        return NULL
    if n < 0 or n >= bits:
        return ANY
    return Exact(wrap(a << n, bits, signed))


def shr_ref(a, n, bits, signed):
    if a is None or n is None:
        return NULL
    if n < 0 or n >= bits:
        return ANY
    return Exact(a >> n)     # arithmetic shift for signed, logical for unsigned (a >= 0)


def xor_ref(a, b, bits, signed):
    if a is None or b is None:
        return NULL
    return Exact(wrap((a & ((1 << bits) - 1)) ^ (b & ((1 << bits) - 1)), bits, signed))


# ---- date / time ------------------------------------------------------------------------

EPOCH_ORD = datetime.date(1970, 1, 1).toordinal()
MIN_DAYS = datetime.date(1, 1, 1).toordinal() - EPOCH_ORD
MAX_DAYS = datetime.date(9999, 12, 31).toordinal() - EPOCH_ORD
US_PER_DAY = 86400 * 10 ** 6

IMPLEMENTED_PARTS = ("year", "month", "day", "quarter", "dow", "isodow", "minute", "second", "milliseconds", "microseconds")
ALL_PARTS = ("century", "day", "decade", "dow", "doy", "epoch", "hour", "isodow", "isoyear", "julian", "microseconds",
             "millenium", "milliseconds", "minute", "month", "quarter", "second", "timezone", "timezone_hour",
             "timezone_minute", "week", "year")


def date_part_us(part, us):
    """date_part(part, timestamp) for a timestamp given as microseconds since the epoch (UTC), PostgreSQL
    conventions. Returns Fraction/int or None when outside years 1..9999 / not modelled."""
    days, rem = divmod(us, US_PER_DAY)
    if not (MIN_DAYS <= days <= MAX_DAYS):
        return None
    d = datetime.date.fromordinal(days + EPOCH_ORD)
    hour, rem2 = divmod(rem, 3600 * 10 ** 6)
    minute, rem3 = divmod(rem2, 60 * 10 ** 6)   # rem3 = seconds field in microseconds
    if part == "year":
        return d.year
    if part == "month":
        return d.month
    if part == "day":
        return d.day
    if part == "quarter":
        return (d.month - 1) // 3 + 1
    if part == "dow":
        return d.isoweekday() % 7
    if part == "isodow":
        return d.isoweekday()
    if part == "doy":
        return d.timetuple().tm_yday
    if part == "hour":
        return hour
    if part == "minute":
        return minute
    if part == "second":
        return Fraction(rem3, 10 ** 6)
    if part == "milliseconds":
        return Fraction(rem3, 10 ** 3)
    if part == "microseconds":
        return rem3
    if part == "week":
        return d.isocalendar()[1]
    if part == "isoyear":
        return d.isocalendar()[0]
    if part == "decade":
        return d.year // 10
    if part == "century":
        return (d.year + 99) // 100
    if part == "millenium":
        return (d.year + 999) // 1000
    if part == "epoch":
        return Fraction(us, 10 ** 6)
    if part == "julian":
        return Fraction(days + 2440588) + Fraction(rem, US_PER_DAY)
    return None


def date_part_ref(part, arg):
    """arg: ('date', days) | ('ts', unit, v) | None"""
    if arg is None:
        return NULL
    if arg[0] == "date":
        us = arg[1] * US_PER_DAY
    else:
        unit, v = arg[1], arg[2]
        mul = {"s": 10 ** 6, "ms": 10 ** 3, "us": 1, "μs": 1, "ns": None}.get(unit)
        if mul is None:
            return ANY
        us = v * mul
    if part in ("timezone", "timezone_hour", "timezone_minute"):
        return ANY
    r = date_part_us(part, us)
    if r is None:
        return ANY
    return Exact(Fraction(r))


TRUNC_US = {"microseconds": 1, "milliseconds": 10 ** 3, "second": 10 ** 6, "minute": 60 * 10 ** 6,
            "hour": 3600 * 10 ** 6, "day": US_PER_DAY}
TRUNC_FIELDS = ("microseconds", "milliseconds", "second", "minute", "hour", "day", "week", "month", "quarter", "year",
                "decade", "century", "millennium")


def date_trunc_ref(field, arg):
    if arg is None:
        return NULL
    if arg[0] != "ts" or arg[1] not in ("us", "μs"):
        return ANY
    us = arg[2]
    unit = arg[1]
    if field in TRUNC_US:
        return Exact(("ts", unit, (us // TRUNC_US[field]) * TRUNC_US[field]))
    days, _ = divmod(us, US_PER_DAY)
    if not (MIN_DAYS <= days <= MAX_DAYS):
        return ANY
    d = datetime.date.fromordinal(days + EPOCH_ORD)
    if field == "week":
        d2 = d - datetime.timedelta(days=d.isoweekday() - 1)
    elif field == "month":
        d2 = d.replace(day=1)
    elif field == "quarter":
        d2 = d.replace(month=(d.month - 1) // 3 * 3 + 1, day=1)
    elif field == "year":
        d2 = d.replace(month=1, day=1)
    else:
        return ANY
    if d2.year < 1:
        return ANY
    return Exact(("ts", unit, (d2.toordinal() - EPOCH_ORD) * US_PER_DAY))
