"""refsql — a deliberately naive reference interpreter for the generated SQL subset.

Values: int, float, str, bool, None. Rows: tuples. Relations: lists (bags).
Three-valued logic: True / False / None.
Anything the model refuses to predict raises Unspecified(reason).
Evaluation events that matter for known-deviation switches are recorded in
`Model.triggers`.
"""
import itertools, math
from vf.sqlast import E, Sel, Q, F


class Unspecified(Exception):
    pass


class EvalError(Exception):
    """The statement must fail with an error (e.g. scalar subquery with >1 row)."""


class Env:
    __slots__ = ("b", "parent")

    def __init__(self, bindings, parent=None):
        self.b = bindings      # {alias: {col: value}}
        self.parent = parent

    def lookup(self, alias, name):
        e = self
        while e is not None:
            if alias is not None:
                if alias in e.b and name in e.b[alias]:
                    return e.b[alias][name]
            else:
                hits = [cols[name] for cols in e.b.values() if name in cols]
                if len(hits) == 1:
                    return hits[0]
                if len(hits) > 1:
                    raise Unspecified("ambiguous column " + name)
            e = e.parent
        raise KeyError((alias, name))


def is_num(v):
    return isinstance(v, (int, float)) and not isinstance(v, bool)


def cmp_vals(a, b):
    """-1/0/1 for non-NULL comparable values."""
    if isinstance(a, str) and isinstance(b, str):
        ab, bb = a.encode(), b.encode()
        return (ab > bb) - (ab < bb)
    if isinstance(a, float) or isinstance(b, float):
        fa, fb = float(a), float(b)
        na, nb = fa != fa, fb != fb
        if na or nb:
            return (na > nb) - (na < nb)   # NaN above every number
        return (fa > fb) - (fa < fb)
    return (a > b) - (a < b)


def trunc_div(a, b):
    q = abs(a) // abs(b)
    return q if (a >= 0) == (b >= 0) else -q


INT_LIMITS = {"int": (-2**31, 2**31 - 1), "bigint": (-2**63, 2**63 - 1)}


class Model:
    def __init__(self, tables, switches=()):
        """tables: {name: ([(col, type)], [row tuples])}"""
        self.tables = tables
        self.switches = set(switches)
        self.triggers = set()
        self.views = {}

    # ------------------------------------------------------------------ expressions
    def ev(self, e, env, grp=None):
        """grp: None or dict(rows=[Env...], keys={id-struct: value}, nullify=set(...)) for grouped evaluation."""
        k, a = e.k, e.a
        if grp is not None and k not in ("agg", "grouping", "lit"):
            sk = struct_key(e)
            if sk in grp["null_keys"]:
                return None
            if sk in grp["key_vals"]:
                return grp["key_vals"][sk]
        if k == "col":
            alias, name, _ = a
            return env.lookup(alias, name)
        if k == "lit":
            return a[0]
        if k == "aliasref":
            return env.lookup("\0items", a[0])
        if k == "bin":
            op, l, r = a
            if op == "and":
                x = self.ev(l, env, grp)
                y = self.ev(r, env, grp)
                if x is False or y is False:
                    return False
                if x is None or y is None:
                    return None
                return True
            if op == "or":
                x = self.ev(l, env, grp)
                y = self.ev(r, env, grp)
                if x is True or y is True:
                    return True
                if x is None or y is None:
                    return None
                return False
            x = self.ev(l, env, grp)
            y = self.ev(r, env, grp)
            if x is None or y is None:
                return None
            if op in ("=", "<>", "<", "<=", ">", ">="):
                c = cmp_vals(x, y)
                return {"=": c == 0, "<>": c != 0, "<": c < 0, "<=": c <= 0, ">": c > 0, ">=": c >= 0}[op]
            if op == "||":
                return x + y
            return self.arith(op, x, y, e.t)
        if k == "not":
            x = self.ev(a[0], env, grp)
            return None if x is None else (not x)
        if k == "neg":
            x = self.ev(a[0], env, grp)
            return None if x is None else self.range_check(-x, e.t)
        if k == "isnull":
            x = self.ev(a[0], env, grp)
            return (x is not None) if a[1] else (x is None)
        if k == "isdistinct":
            x = self.ev(a[0], env, grp)
            y = self.ev(a[1], env, grp)
            if x is None or y is None:
                d = not (x is None and y is None)
            else:
                d = cmp_vals(x, y) != 0
            return (not d) if a[2] else d
        if k == "between":
            x = self.ev(a[0], env, grp)
            lo = self.ev(a[1], env, grp)
            hi = self.ev(a[2], env, grp)
            ge = None if (x is None or lo is None) else cmp_vals(x, lo) >= 0
            le = None if (x is None or hi is None) else cmp_vals(x, hi) <= 0
            if ge is False or le is False:
                r = False
            elif ge is None or le is None:
                r = None
            else:
                r = True
            if a[3]:
                return None if r is None else (not r)
            return r
        if k == "inlist":
            x = self.ev(a[0], env, grp)
            vals = [self.ev(i, env, grp) for i in a[1]]
            r = self.in_semantics(x, vals)
            if a[2]:
                return None if r is None else (not r)
            return r
        if k == "case":
            whens, els = a
            for c, v in whens:
                if self.ev(c, env, grp) is True:
                    return self.ev(v, env, grp)
            return None if els is None else self.ev(els, env, grp)
        if k == "coalesce":
            for i in a[0]:
                v = self.ev(i, env, grp)
                if v is not None:
                    return v
            return None
        if k == "fn":
            return self.fn(a[0], [self.ev(x, env, grp) for x in a[1]], e)
        if k == "cast":
            return self.cast(self.ev(a[0], env, grp), a[0].t, a[1])
        if k == "like":
            x = self.ev(a[0], env, grp)
            if x is None:
                return None
            r = like_match(x, a[1])
            return (not r) if a[2] else r
        if k == "agg":
            if grp is None:
                raise Unspecified("aggregate outside grouped context")
            return self.aggregate(e, grp)
        if k == "grouping":
            if grp is None:
                raise Unspecified("grouping outside grouped context")
            bits = 0
            for x in a[0]:
                bits = (bits << 1) | (1 if struct_key(x) in grp["null_keys"] else 0)
            return bits
        if k == "subq":
            return self.subquery(e, env, grp)
        raise Unspecified("expr kind " + k)

    def range_check(self, v, t):
        if t in INT_LIMITS and isinstance(v, int) and not isinstance(v, bool):
            lo, hi = INT_LIMITS[t]
            if not (lo <= v <= hi):
                self.triggers.add("int_overflow")
                raise EvalError("integer overflow")
        return v

    def arith(self, op, x, y, t):
        fl = isinstance(x, float) or isinstance(y, float)
        if op == "+":
            r = x + y
        elif op == "-":
            r = x - y
        elif op == "*":
            r = x * y
        elif op == "/":
            if fl:
                if y == 0:
                    raise Unspecified("float division by zero")
                r = float(x) / float(y)
            else:
                if y == 0:
                    self.triggers.add("int_div_zero")
                    raise EvalError("division by zero")
                r = trunc_div(x, y)
        elif op == "%":
            if fl:
                raise Unspecified("float modulo")
            if y == 0:
                self.triggers.add("int_div_zero")
                raise EvalError("division by zero")
            r = x - y * trunc_div(x, y)
        else:
            raise Unspecified("op " + op)
        if fl:
            return float(r)
        return self.range_check(r, t)

    def in_semantics(self, x, vals):
        """Three-valued IN."""
        if x is None:
            return None if vals else False
        saw_null = False
        for v in vals:
            if v is None:
                saw_null = True
            elif cmp_vals(x, v) == 0:
                return True
        return None if saw_null else False

    def fn(self, name, args, e):
        if name == "grouping":
            raise Unspecified("grouping")
        if any(x is None for x in args):
            return None
        if name == "upper":
            return args[0].upper() if args[0].isascii() else unspecified("upper non-ascii")
        if name == "lower":
            return args[0].lower() if args[0].isascii() else unspecified("lower non-ascii")
        if name == "length":
            return len(args[0])
        if name == "abs":
            return float(abs(args[0]))
        raise Unspecified("fn " + name)

    def cast(self, v, src, dst):
        if v is None:
            return None
        if dst == "text":
            if src in ("int", "bigint"):
                return str(v)
            if src == "bool":
                return "true" if v else "false"
            if src == "text":
                return v
            raise Unspecified("cast to text from " + str(src))
        if dst in ("int", "bigint"):
            if src in ("int", "bigint"):
                lo, hi = INT_LIMITS[dst]
                if not (lo <= v <= hi):
                    raise EvalError("cast out of range")
                return v
            if src == "bool":
                return 1 if v else 0
            raise Unspecified("cast to int from " + str(src))
        if dst == "double":
            if src in ("int", "bigint", "double"):
                return float(v)
        raise Unspecified(f"cast {src}->{dst}")

    # ------------------------------------------------------------------ aggregates
    def aggregate(self, e, grp):
        name, arg, distinct, filt = e.a
        rows = grp["rows"]
        if filt is not None:
            rows = [r for r in rows if self.ev(filt, r) is True]
        if arg is None:
            return len(rows)
        vals = [self.ev(arg, r) for r in rows]
        vals = [v for v in vals if v is not None]
        if distinct:
            seen = []
            for v in vals:
                if not any(type_eq(v, s) for s in seen):
                    seen.append(v)
            vals = seen
        if name == "count":
            return len(vals)
        if not vals:
            return None
        if name == "sum":
            s = sum(vals)
            if isinstance(s, float):
                return s
            if not (-2**63 <= s <= 2**63 - 1):
                raise EvalError("sum overflow")
            return s
        if name == "avg":
            return _avg(vals)
        if name == "min":
            m = vals[0]
            for v in vals[1:]:
                if cmp_vals(v, m) < 0:
                    m = v
            return m
        if name == "max":
            m = vals[0]
            for v in vals[1:]:
                if cmp_vals(v, m) > 0:
                    m = v
            return m
        if name == "bool_and":
            return all(vals)
        if name == "bool_or":
            return any(vals)
        raise Unspecified("agg " + name)

    # ------------------------------------------------------------------ subqueries
    def subquery(self, e, env, grp):
        kind, q, lhs, op = e.a
        if grp is not None:
            # subqueries inside grouped context: evaluate against the group's first row
            env = grp["rows"][0] if grp["rows"] else env
        cols, rows = self.query(q, env)
        refs = outer_refs(q)
        if refs:
            null_corr = False
            for al, nm in refs:
                try:
                    if env.lookup(al, nm) is None:
                        null_corr = True
                except (KeyError, Unspecified):
                    pass
            if null_corr:
                # the subquery is correlated on a value that is NULL for this outer row
                self.triggers.add("null_correlation")
                if "null_correlation_empty_set" in self.switches:
                    rows = []
        if kind == "scalar":
            if len(rows) > 1:
                self.triggers.add("scalar_subquery_multi_row")
                raise EvalError("scalar subquery returned more than one row")
            if not rows:
                self.triggers.add("scalar_subquery_empty")
                return None
            v = rows[0][0]
            if v == 0 and not isinstance(v, bool) and q_is_ungrouped_count(q) and is_correlated(q):
                # COUNT over an empty correlated set
                self.triggers.add("scalar_count_zero")
                if "scalar_count_null_on_empty" in self.switches:
                    return None
            return v
        if kind == "exists":
            r = len(rows) > 0
            return (not r) if op else r
        x = self.ev(lhs, env, None)
        vals = [r[0] for r in rows]
        if kind == "in":
            r = self.in_semantics(x, vals)
            if r is None:
                self.triggers.add("in_null")
            if "in_two_valued" in self.switches and r is None:
                r = False
            if op:
                return None if r is None else (not r)
            return r
        if kind in ("any", "all"):
            res = []
            for v in vals:
                if x is None or v is None:
                    res.append(None)
                else:
                    c = cmp_vals(x, v)
                    res.append({"=": c == 0, "<>": c != 0, "<": c < 0, "<=": c <= 0, ">": c > 0, ">=": c >= 0}[op])
            if kind == "any":
                if any(r is True for r in res):
                    return True
                r = None if any(r is None for r in res) else False
            else:
                if any(r is False for r in res):
                    return False
                r = None if any(r is None for r in res) else True
            if r is None:
                self.triggers.add("in_null")
                if "in_two_valued" in self.switches:
                    r = (kind == "all")
            return r
        raise Unspecified("subquery kind " + kind)

    # ------------------------------------------------------------------ FROM
    def from_rows(self, f, env):
        """-> list of binding dicts {alias: {col: val}}"""
        k = f.k
        if k == "table":
            if f.name in self.cte_stack_lookup(env):
                cols, rows = self.cte_stack_lookup(env)[f.name]
            elif f.name in self.tables:
                coldefs, rows = self.tables[f.name]
                cols = [c for c, _ in coldefs]
            else:
                raise Unspecified("unknown table " + f.name)
            return [{f.alias: dict(zip(cols, r))} for r in rows]
        if k == "sub":
            cols, rows = self.query(f.q, env_parent_only(env))
            names = f.colnames or cols
            return [{f.alias: dict(zip(names, r))} for r in rows]
        if k == "values":
            return [{f.alias: dict(zip(f.colnames, r))} for r in f.rows]
        if k == "series":
            return [{f.alias: {f.col: i}} for i in range(f.lo, f.hi + 1)]
        if k == "lateral":
            raise Unspecified("lateral outside join")
        if k == "join":
            left = self.from_rows(f.left, env)
            kind = f.kind
            if f.right.k == "lateral":
                out = []
                refs = outer_refs(f.right.q)
                for lb in left:
                    null_corr = any(al in lb and nm in lb[al] and lb[al][nm] is None for al, nm in refs)
                    if null_corr:
                        # correlation value is NULL for this outer row
                        self.triggers.add("null_correlation")
                        if "null_correlation_empty_set" in self.switches:
                            continue
                    cols, rows = self.query(f.right.q, Env(lb, env))
                    for r in rows:
                        nb = dict(lb)
                        nb[f.right.alias] = dict(zip(cols, r))
                        out.append(nb)
                return out
            right = self.from_rows(f.right, env)
            if len(left) * max(len(right), 1) > 60000:
                raise Unspecified("intermediate result too large for the model")
            if kind in ("comma", "cross"):
                return [merge(l, r) for l in left for r in right]

            def cond(l, r):
                b = merge(l, r)
                if f.using:
                    la = first_alias_with(l, f.using)
                    for c in f.using:
                        lv = find_col(l, c)
                        rv = find_col(r, c)
                        if lv is None or rv is None or cmp_vals(lv, rv) != 0:
                            return False
                    return True
                return self.ev(f.on, Env(b, env)) is True
            out = []
            if kind == "inner":
                return [merge(l, r) for l in left for r in right if cond(l, r)]
            if kind == "left":
                rnull = null_bindings(f.right, self)
                for l in left:
                    m = [merge(l, r) for r in right if cond(l, r)]
                    out += m if m else [merge(l, rnull)]
                return out
            if kind == "right":
                lnull = null_bindings(f.left, self)
                for r in right:
                    m = [merge(l, r) for l in left if cond(l, r)]
                    out += m if m else [merge(lnull, r)]
                return out
            if kind == "semi":
                return [l for l in left if any(cond(l, r) for r in right)]
            if kind == "anti":
                return [l for l in left if not any(cond(l, r) for r in right)]
        raise Unspecified("from kind " + k)

    def cte_stack_lookup(self, env):
        return getattr(self, "_ctes", {})

    # ------------------------------------------------------------------ SELECT
    def select(self, s, env):
        if s.frm is None:
            binds = [{}]
        else:
            binds = self.from_rows(s.frm, env)
        envs = [Env(b, env) for b in binds]
        if s.where is not None:
            envs = [e for e in envs if self.ev(s.where, e) is True]
        has_agg = any(contains_agg(e) for e, _ in s.items) or (s.having is not None and contains_agg(s.having))
        out = []
        if s.group is not None or has_agg:
            mode, gexprs = s.group if s.group is not None else ("plain", [])
            n = len(gexprs)
            if mode == "plain":
                sets = [tuple(range(n))]
            elif mode == "rollup":
                sets = [tuple(range(i)) for i in range(n, -1, -1)]
            else:
                sets = [tuple(i for i in range(n) if (mask >> (n - 1 - i)) & 1) for mask in range((1 << n) - 1, -1, -1)]
            gkeys = [struct_key(g) for g in gexprs]
            for gs in sets:
                groups = {}
                order = []
                for e in envs:
                    kv = tuple(canon_val(self.ev(gexprs[i], e)) for i in gs)
                    if kv not in groups:
                        groups[kv] = []
                        order.append(kv)
                    groups[kv].append(e)
                if not gs and not envs and (s.group is None or mode != "plain" or n == 0):
                    if s.group is not None and mode != "plain":
                        # SQL gives the empty grouping set one row even over empty input; GlareDB documents no
                        # rule for ROLLUP/CUBE over empty input, so the model does not predict this case
                        raise Unspecified("ROLLUP/CUBE over empty input")
                    # ungrouped aggregate over empty input produces one row
                    groups[()] = []
                    order.append(())
                for kv in order:
                    rows = groups[kv]
                    key_vals = {}
                    if rows:
                        for i in gs:
                            key_vals[gkeys[i]] = self.ev(gexprs[i], rows[0])
                    grp = {"rows": rows, "key_vals": key_vals,
                           # (an expression listed twice, ROLLUP (k, k), is grouped in a set as soon as one of its positions is)
                           "null_keys": set(gkeys[i] for i in range(n) if i not in gs) - set(gkeys[i] for i in gs)}
                    base = rows[0] if rows else Env({}, env)
                    if s.having is not None and self.ev(s.having, base, grp) is not True:
                        continue
                    out.append(self.project(s, base, grp))
        else:
            for e in envs:
                out.append(self.project(s, e, None))
        if s.distinct:
            out = distinct_rows(out)
        return out

    def project(self, s, env, grp):
        vals = []
        items = {}
        e2 = Env({"\0items": items}, env)
        # lateral alias references see earlier items
        for expr, alias in s.items:
            v = self.ev(expr, e2, grp)
            vals.append(v)
            if alias:
                items[alias] = v
        return tuple(vals)

    # ------------------------------------------------------------------ query
    def query(self, q, env=None):
        """-> (column names, rows). Raises EvalError / Unspecified."""
        saved = getattr(self, "_ctes", {})
        if q.ctes:
            self._ctes = dict(saved)
            for name, cq, _m in q.ctes:
                cols, rows = self.query(cq, env_parent_only(env))
                self._ctes[name] = (cols, rows)
        try:
            rows = self.body(q.body, env)
        finally:
            ctes_after = getattr(self, "_ctes", {})
            self._ctes = saved
        cols = [n for n, _ in q.out]
        if q.order:
            rows = sort_rows(rows, q.order)
        if q.limit is not None:
            off = q.offset or 0
            if not order_is_total(rows, q.order):
                raise Unspecified("LIMIT over ties or without ORDER BY")
            rows = rows[off:off + q.limit]
        return cols, rows

    def body(self, b, env):
        if isinstance(b, Sel):
            return self.select(b, env)
        _, all_, l, r = b
        _, lr = self.query(l, env)
        _, rr = self.query(r, env)
        rows = lr + rr
        return rows if all_ else distinct_rows(rows)


def unspecified(reason):
    raise Unspecified(reason)


def _avg(vals):
    if any(isinstance(v, float) for v in vals):
        return math.fsum(float(v) for v in vals) / len(vals)
    from fractions import Fraction
    return float(Fraction(sum(vals), len(vals)))


def env_parent_only(env):
    return env


def merge(a, b):
    d = dict(a)
    d.update(b)
    return d


def find_col(bind, col):
    for cols in bind.values():
        if col in cols:
            return cols[col]
    raise KeyError(col)


def first_alias_with(bind, cols):
    for al, c in bind.items():
        if cols[0] in c:
            return al
    return None


def f_aliases(f, model):
    """[(alias, [cols])] produced by a FROM item."""
    k = f.k
    if k == "table":
        if f.name in getattr(model, "_ctes", {}):
            return [(f.alias, list(model._ctes[f.name][0]))]
        return [(f.alias, [c for c, _ in model.tables[f.name][0]])]
    if k in ("sub", "lateral"):
        return [(f.alias, list(getattr(f, "colnames", None) or [n for n, _ in f.q.out]))]
    if k == "values":
        return [(f.alias, list(f.colnames))]
    if k == "series":
        return [(f.alias, [f.col])]
    if k == "join":
        l = f_aliases(f.left, model)
        if f.kind in ("semi", "anti"):
            return l
        return l + f_aliases(f.right, model)
    raise Unspecified("aliases of " + k)


def null_bindings(f, model):
    return {al: {c: None for c in cols} for al, cols in f_aliases(f, model)}


def contains_agg(e):
    if e is None:
        return False
    if e.k in ("agg", "grouping"):
        return True
    if e.k == "subq":
        return e.a[2] is not None and contains_agg(e.a[2])
    for x in e.a:
        if isinstance(x, E) and contains_agg(x):
            return True
        if isinstance(x, (list, tuple)):
            for y in x:
                if isinstance(y, E) and contains_agg(y):
                    return True
                if isinstance(y, tuple):
                    for z in y:
                        if isinstance(z, E) and contains_agg(z):
                            return True
    return False


def struct_key(e):
    """Structural identity of an expression (ignores identifier rendering style)."""
    if not isinstance(e, E):
        if isinstance(e, (list, tuple)):
            return tuple(struct_key(x) for x in e)
        if isinstance(e, Q):
            return ("Q", id(e))
        return e
    if e.k == "col":
        return ("col", e.a[0], e.a[1])
    return (e.k,) + tuple(struct_key(x) for x in e.a)


def _walk_exprs(e, fn):
    if isinstance(e, E):
        fn(e)
        for x in e.a:
            _walk_exprs(x, fn)
    elif isinstance(e, (list, tuple)):
        for x in e:
            _walk_exprs(x, fn)
    elif isinstance(e, Q):
        _walk_query(e, fn)


def _walk_from(f, fn, aliases):
    if f is None:
        return
    if f.k == "join":
        _walk_from(f.left, fn, aliases)
        _walk_from(f.right, fn, aliases)
        if f.on is not None:
            _walk_exprs(f.on, fn)
    else:
        aliases.add(f.alias)
        if f.k in ("sub", "lateral"):
            _walk_query(f.q, fn, aliases)


def _walk_query(q, fn, aliases=None):
    aliases = aliases if aliases is not None else set()
    for _, cq, _m in q.ctes:
        _walk_query(cq, fn, aliases)
    bodies = [q.body]
    while bodies:
        b = bodies.pop()
        if isinstance(b, Sel):
            _walk_from(b.frm, fn, aliases)
            for e, _ in b.items:
                _walk_exprs(e, fn)
            _walk_exprs(b.where, fn)
            _walk_exprs(b.having, fn)
            if b.group:
                _walk_exprs(b.group[1], fn)
        else:
            _walk_query(b[2], fn, aliases)
            _walk_query(b[3], fn, aliases)
    return aliases


def outer_refs(q):
    """(alias, column) references in q to aliases q does not define."""
    used = set()

    def fn(e):
        if e.k == "col" and e.a[0] is not None:
            used.add((e.a[0], e.a[1]))
    defined = _walk_query(q, fn)
    return {(al, nm) for al, nm in used if al not in defined}


def is_correlated(q):
    """Does q reference a table alias that it does not define itself?"""
    used = set()

    def fn(e):
        if e.k == "col" and e.a[0] is not None:
            used.add(e.a[0])
    defined = _walk_query(q, fn)
    return bool(used - defined)


def q_is_ungrouped_count(q):
    b = q.body
    if not isinstance(b, Sel) or b.group is not None or len(b.items) != 1:
        return False
    e = b.items[0][0]
    return e.k == "agg" and e.a[0] == "count"


def canon_val(v):
    """Grouping/distinct identity: NULLs equal, -0.0 == 0.0, ints and equal floats distinct types kept apart by column typing."""
    if isinstance(v, bool):
        return ("b", v)
    if isinstance(v, float):
        if v != v:
            return ("f", "nan")
        return ("n", v + 0.0)
    if isinstance(v, int):
        return ("n", v)
    return v


def type_eq(a, b):
    return canon_val(a) == canon_val(b)


def distinct_rows(rows):
    seen = set()
    out = []
    for r in rows:
        k = tuple(canon_val(v) for v in r)
        if k not in seen:
            seen.add(k)
            out.append(r)
    return out


def sort_key_cmp(order):
    import functools

    def cmp(r1, r2):
        for (ordn, desc, nulls, _style) in order:
            a, b = r1[ordn - 1], r2[ordn - 1]
            d = bool(desc)
            # default: NULLs are largest -> ASC: last, DESC: first
            nulls_first = (nulls == "first") if nulls else d
            if a is None or b is None:
                if a is None and b is None:
                    continue
                if a is None:
                    return -1 if nulls_first else 1
                return 1 if nulls_first else -1
            c = cmp_vals(a, b)
            if c:
                return -c if d else c
        return 0
    return cmp


def sort_rows(rows, order):
    import functools
    return sorted(rows, key=functools.cmp_to_key(sort_key_cmp(order)))


def order_is_total(rows, order):
    """True if no two adjacent (sorted) rows tie on the sort keys while differing elsewhere."""
    if not order:
        return len(distinct_rows(rows)) <= 1
    cmp = sort_key_cmp(order)
    for i in range(len(rows) - 1):
        if cmp(rows[i], rows[i + 1]) == 0 and tuple(canon_val(v) for v in rows[i]) != tuple(canon_val(v) for v in rows[i + 1]):
            return False
    return True


def like_match(s, pat):
    """SQL LIKE with backslash escape, on code points."""
    # tokenise
    toks = []
    i = 0
    while i < len(pat):
        c = pat[i]
        if c == "\\" and i + 1 < len(pat):
            toks.append(("c", pat[i + 1]))
            i += 2
            continue
        if c == "%":
            toks.append(("%",))
        elif c == "_":
            toks.append(("_",))
        else:
            toks.append(("c", c))
        i += 1

    from functools import lru_cache

    @lru_cache(None)
    def m(si, ti):
        if ti == len(toks):
            return si == len(s)
        t = toks[ti]
        if t[0] == "%":
            return any(m(k, ti + 1) for k in range(si, len(s) + 1))
        if si >= len(s):
            return False
        if t[0] == "_":
            return m(si + 1, ti + 1)
        return s[si] == t[1] and m(si + 1, ti + 1)
    return m(0, 0)
