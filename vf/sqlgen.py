"""Type-directed random generator of queries (AST from vf.sqlast) and of small databases."""
import random
from vf.sqlast import E, Sel, Q, F

INTS = ("int", "bigint")
NUM = ("int", "bigint", "double")
TYPES = ("int", "bigint", "text", "bool", "double")

WORDS = ["", "a", "b", "ab", "abc", "B", "x%y", "x_y", "zz", "hello world!", "héllo", "日本", "longer than twelve bytes", "longer than twelve bytez", "0", "-1", " sp ", "ONeil"]


def gen_value(rng, t, null_p=0.15, skew=None):
    if rng.random() < null_p:
        return None
    if t == "int":
        if skew == "few":
            return rng.choice([0, 1, 2])
        if skew == "hot" and rng.random() < 0.7:
            return 7
        return rng.choice([rng.randint(-5, 5), rng.randint(-100, 100), rng.randint(0, 10)])
    if t == "bigint":
        if skew == "few":
            return rng.choice([10, 20])
        return rng.choice([rng.randint(-5, 5), rng.randint(-1000, 1000), rng.randint(0, 3)])
    if t == "text":
        if skew == "few":
            return rng.choice(["a", "b", "longer than twelve bytes"])
        return rng.choice(WORDS)
    if t == "bool":
        return rng.random() < 0.5
    if t == "double":
        return rng.randint(-80, 80) / 8.0
    raise ValueError(t)


def gen_database(rng, ntables=None, max_rows=60):
    """-> {name: ([(col,type)], [rows])}"""
    ntables = ntables or rng.choice([1, 2, 2, 3, 3, 4])
    db = {}
    for i in range(ntables):
        name = f"t{i}"
        ncols = rng.randint(1, 5)
        cols = []
        # first column: a join-friendly int key shared across tables
        cols.append(("k", "int"))
        for j in range(ncols - 1):
            t = rng.choice(TYPES)
            cols.append((f"{'abcdefgh'[j]}{i}" if rng.random() < 0.7 else f"{'abcdefgh'[j]}", t))
        # de-duplicate column names within the table
        seen = set()
        cols2 = []
        for c, t in cols:
            while c in seen:
                c += "x"
            seen.add(c)
            cols2.append((c, t))
        cols = cols2
        nrows = rng.choice([0, 1, 2, 3, 5, 8, 13, 17, 33, max_rows])
        null_p = rng.choice([0.0, 0.1, 0.3, 0.6])
        skew = rng.choice([None, None, "few", "hot"])
        rows = []
        for _ in range(nrows):
            rows.append(tuple(gen_value(rng, t, null_p if ci else null_p / 2, skew) for ci, (c, t) in enumerate(cols)))
        if rows and rng.random() < 0.3:
            rows += [rng.choice(rows) for _ in range(rng.randint(1, 4))]  # exact duplicates
        db[name] = (cols, rows)
    return db


def load_steps(db):
    """SQL statements creating and loading the database (first VALUES row explicitly typed)."""
    from vf.sqlast import lit_sql, sql_type
    steps = []
    for name, (cols, rows) in db.items():
        steps.append(f"CREATE TEMP TABLE {name} ({', '.join(f'{c} {sql_type(t)}' for c, t in cols)})")
        for i in range(0, len(rows), 200):
            chunk = rows[i:i + 200]
            vals = []
            for ri, r in enumerate(chunk):
                if ri == 0:
                    # explicit types in the first VALUES row (VALUES takes its column types from it); identity casts
                    # of TEXT/BOOLEAN literals are rejected by the engine, so those are cast only when NULL
                    vals.append("(" + ", ".join((lit_sql(v, t) if (v is not None and t in ("text", "bool")) else f"CAST({lit_sql(v, t) if v is not None else 'NULL'} AS {sql_type(t)})") for v, (c, t) in zip(r, cols)) + ")")
                else:
                    vals.append("(" + ", ".join(lit_sql(v, t) if v is not None else "NULL" for v, (c, t) in zip(r, cols)) + ")")
            steps.append(f"INSERT INTO {name} VALUES {', '.join(vals)}")
    return steps


class Gen:
    def __init__(self, rng, db, weights=None, max_depth=3):
        self.rng = rng
        self.db = db
        self.schema = {n: cols for n, (cols, rows) in db.items()}
        self.sizes = {n: len(rows) for n, (cols, rows) in db.items()}
        self.max_depth = max_depth
        self.n = 0
        self.tags = set()
        self.w = dict(subquery=0.25, join=0.5, group=0.35, agg=0.15, distinct=0.12, union=0.1, cte=0.15,
                      order=0.5, limit=0.3, derived=0.15, where=0.6, lateral=0.05, rollup=0.15,
                      corr=0.6, star=0.08, semi=0.1, aliasref=0.15)
        if weights:
            self.w.update(weights)
        self.ctes = {}   # visible CTE name -> [(col,type)]

    def p(self, key):
        return self.rng.random() < self.w.get(key, 0)

    def fresh(self, prefix="x"):
        self.n += 1
        return f"{prefix}{self.n}"

    # ------------------------------------------------------------------ expressions
    def cols_of(self, scope, types):
        return [(al, c, t) for al, cols in scope for c, t in cols if t in types]

    def colref(self, al, c, t, scopes):
        # unqualified only if the name is unique across every visible scope
        count = sum(1 for sc in scopes for _, cols in sc for cc, _ in cols if cc == c)
        style = 0
        r = self.rng.random()
        if count == 1 and r < 0.3:
            style |= 4
        if self.rng.random() < 0.08:
            style |= 1          # quoted column
        elif self.rng.random() < 0.05:
            style |= 2          # upper-case column
        if self.rng.random() < 0.05:
            style |= (2 << 3)   # upper-case alias
        return E("col", al, c, style, t=t)

    def lit(self, t):
        rng = self.rng
        if t == "int":
            return E("lit", rng.choice([0, 1, 2, 3, 5, 7, 10, -1, -3, rng.randint(-100, 100)]), t="int")
        if t == "bigint":
            return E("lit", rng.choice([0, 1, 2, 10, 20, -5, rng.randint(-1000, 1000)]), t="bigint")
        if t == "text":
            return E("lit", rng.choice(WORDS), t="text")
        if t == "bool":
            return E("lit", rng.random() < 0.5, t="bool")
        if t == "double":
            return E("lit", rng.randint(-40, 40) / 8.0, t="double")
        raise ValueError(t)

    def expr(self, t, scope, outer, depth, agg_ok=False, subq_ok=True):
        """Random expression of type t over `scope` (list of (alias, cols)); outer = enclosing scopes."""
        rng = self.rng
        scopes = [scope] + outer
        if t == "bool":
            return self.boolean(scope, outer, depth, subq_ok)
        cands = self.cols_of(scope, (t,) if t not in INTS else (t,))
        if depth <= 0 or rng.random() < 0.45:
            if cands and rng.random() < 0.8:
                return self.colref(*rng.choice(cands), scopes)
            oc = [x for sc in outer for x in self.cols_of(sc, (t,))]
            if oc and rng.random() < 0.3:
                self.tags.add("correlated_ref")
                return self.colref(*rng.choice(oc), scopes)
            if cands:
                return self.colref(*rng.choice(cands), scopes)
            return self.lit(t)
        r = rng.random()
        if t in INTS:
            if r < 0.3:
                op = rng.choice(["+", "-", "*", "+", "-"])
                l = self.expr(t, scope, outer, depth - 1, subq_ok=subq_ok)
                rr = self.expr(rng.choice(INTS) if t == "bigint" else "int", scope, outer, depth - 1, subq_ok=subq_ok)
                if op == "*":
                    rr = self.lit("int")
                return E("bin", op, l, rr, t=t)
            if r < 0.4:
                op = rng.choice(["/", "%"])
                return E("bin", op, self.expr(t, scope, outer, depth - 1, subq_ok=subq_ok), E("lit", rng.choice([2, 3, 7, -2]), t="int"), t=t)
            if r < 0.5:
                return self.case(t, scope, outer, depth, subq_ok)
            if r < 0.58:
                return E("coalesce", [self.expr(t, scope, outer, depth - 1, subq_ok=subq_ok), self.lit(t)], t=t)
            if r < 0.64 and t == "bigint":
                self.tags.add("fn_length")
                return E("fn", "length", [self.expr("text", scope, outer, depth - 1, subq_ok=subq_ok)], t="bigint")
            if r < 0.7:
                return E("neg", self.expr(t, scope, outer, depth - 1, subq_ok=subq_ok), t=t)
            if r < 0.76 and t == "bigint":
                return E("cast", self.expr("int", scope, outer, depth - 1, subq_ok=subq_ok), "bigint", t="bigint")
            if r < 0.9 and subq_ok and self.p("subquery"):
                return self.scalar_subquery(t, scope, outer, depth)
            return self.expr(t, scope, outer, 0)
        if t == "text":
            if r < 0.25:
                self.tags.add("concat")
                return E("bin", "||", self.expr("text", scope, outer, depth - 1, subq_ok=subq_ok), self.expr("text", scope, outer, depth - 1, subq_ok=subq_ok), t="text")
            if r < 0.4:
                self.tags.add("fn_case")
                return E("fn", rng.choice(["upper", "lower"]), [self.ascii_text(scope, outer, depth - 1)], t="text")
            if r < 0.5:
                return self.case(t, scope, outer, depth, subq_ok)
            if r < 0.6:
                return E("coalesce", [self.expr(t, scope, outer, depth - 1, subq_ok=subq_ok), self.lit(t)], t=t)
            if r < 0.7:
                self.tags.add("cast_to_text")
                return E("cast", self.expr(rng.choice(INTS), scope, outer, depth - 1, subq_ok=subq_ok), "text", t="text")
            if r < 0.85 and subq_ok and self.p("subquery"):
                return self.scalar_subquery(t, scope, outer, depth)
            return self.expr(t, scope, outer, 0)
        if t == "double":
            if r < 0.3:
                return E("bin", rng.choice(["+", "-"]), self.expr("double", scope, outer, depth - 1, subq_ok=subq_ok), self.expr("double", scope, outer, depth - 1, subq_ok=subq_ok), t="double")
            if r < 0.4:
                return E("cast", self.expr("int", scope, outer, depth - 1, subq_ok=subq_ok), "double", t="double")
            if r < 0.5:
                return self.case(t, scope, outer, depth, subq_ok)
            if r < 0.6:
                return E("coalesce", [self.expr(t, scope, outer, depth - 1, subq_ok=subq_ok), self.lit(t)], t=t)
            if r < 0.7:
                return E("bin", "*", self.expr("double", scope, outer, depth - 1, subq_ok=subq_ok), E("lit", rng.choice([0.5, 2.0, -1.0, 0.25]), t="double"), t="double")
            return self.expr(t, scope, outer, 0)
        raise ValueError(t)

    def ascii_text(self, scope, outer, depth):
        # upper/lower are only modelled on ASCII: wrap in a guard-free literal/column of ascii words
        return E("lit", self.rng.choice(["a", "Ab", "xyz", "MiXed", ""]), t="text") if self.rng.random() < 0.5 else E("cast", self.expr("int", scope, outer, max(depth, 0)), "text", t="text")

    def case(self, t, scope, outer, depth, subq_ok):
        self.tags.add("case")
        n = self.rng.randint(1, 2)
        whens = [(self.boolean(scope, outer, depth - 1, subq_ok), self.expr(t, scope, outer, depth - 1, subq_ok=subq_ok)) for _ in range(n)]
        els = self.expr(t, scope, outer, depth - 1, subq_ok=subq_ok) if self.rng.random() < 0.6 else None
        return E("case", whens, els, t=t)

    def boolean(self, scope, outer, depth, subq_ok=True):
        rng = self.rng
        scopes = [scope] + outer
        r = rng.random()
        if depth > 0 and r < 0.2:
            return E("bin", rng.choice(["and", "or"]), self.boolean(scope, outer, depth - 1, subq_ok), self.boolean(scope, outer, depth - 1, subq_ok), t="bool")
        if depth > 0 and r < 0.27:
            return E("not", self.boolean(scope, outer, depth - 1, subq_ok), t="bool")
        if depth > 0 and r < 0.45 and subq_ok and self.p("subquery"):
            return self.bool_subquery(scope, outer, depth)
        if r < 0.5:
            bc = self.cols_of(scope, ("bool",))
            if bc:
                return self.colref(*rng.choice(bc), scopes)
        t = rng.choice(["int", "int", "bigint", "text", "double"])
        d = max(depth - 1, 0)
        r2 = rng.random()
        if r2 < 0.5:
            op = rng.choice(["=", "=", "<>", "<", "<=", ">", ">="])
            l = self.expr(t, scope, outer, d, subq_ok=subq_ok)
            t2 = t if t not in NUM else rng.choice([t, t, "int"])
            rr = self.expr(t2, scope, outer, d, subq_ok=subq_ok) if rng.random() < 0.6 else self.lit(t2)
            return E("bin", op, l, rr, t="bool")
        if r2 < 0.62:
            return E("isnull", self.expr(t, scope, outer, d, subq_ok=subq_ok), rng.random() < 0.5, t="bool")
        if r2 < 0.72:
            self.tags.add("between")
            return E("between", self.expr(t, scope, outer, d, subq_ok=subq_ok), self.lit(t), self.lit(t), rng.random() < 0.3, t="bool")
        if r2 < 0.84:
            self.tags.add("inlist")
            items = [self.lit(t) for _ in range(rng.randint(1, 4))]
            if rng.random() < 0.2:
                items.append(E("lit", None, t=t))
            return E("inlist", self.expr(t, scope, outer, d, subq_ok=subq_ok), items, rng.random() < 0.3, t="bool")
        if r2 < 0.92:
            self.tags.add("isdistinct")
            return E("isdistinct", self.expr(t, scope, outer, d, subq_ok=subq_ok), self.expr(t, scope, outer, d, subq_ok=subq_ok), rng.random() < 0.5, t="bool")
        self.tags.add("like")
        pat = rng.choice(["a%", "%b", "%a%", "_", "a_c", "%", "long%", "x\\%y", "%12%", "ab"])
        return E("like", self.expr("text", scope, outer, d, subq_ok=subq_ok), pat, rng.random() < 0.3, t="bool")

    # ------------------------------------------------------------------ subqueries
    def inner_table(self):
        names = list(self.schema)
        # prefer small tables inside subqueries
        return self.rng.choice(names)

    def corr_pred(self, inner_scope, scope, outer, depth):
        """Predicate linking the inner table to the enclosing scope."""
        rng = self.rng
        enclosing = [scope] + outer
        for _ in range(4):
            ic = self.cols_of(inner_scope, TYPES)
            al, c, t = rng.choice(ic)
            oc = [x for sc in enclosing[:1] for x in self.cols_of(sc, (t,) if t not in NUM else NUM)]
            if not oc and len(enclosing) > 1:
                oc = [x for sc in enclosing[1:] for x in self.cols_of(sc, (t,) if t not in NUM else NUM)]
            if oc:
                o = rng.choice(oc)
                self.tags.add("correlated")
                op = rng.choice(["=", "=", "=", "<", ">=", "<>"])
                return E("bin", op, self.colref(al, c, t, [inner_scope] + enclosing), self.colref(*o, [inner_scope] + enclosing), t="bool")
        return None

    def simple_subselect(self, out_type, scope, outer, depth, agg=None, corr=True):
        """SELECT <expr of out_type | agg> FROM table [WHERE corr AND pred]  -> Q"""
        rng = self.rng
        tname = self.inner_table()
        al = self.fresh("s")
        inner_scope = [(al, self.schema_of(tname))]
        s = Sel()
        s.frm = F("table", name=tname, alias=al)
        enclosing = [scope] + outer
        preds = []
        if corr and self.p("corr"):
            cp = self.corr_pred(inner_scope, scope, outer, depth)
            if cp is not None:
                preds.append(cp)
        if rng.random() < 0.4:
            preds.append(self.boolean(inner_scope, enclosing, max(depth - 2, 0), subq_ok=False))
        if preds:
            w = preds[0]
            for p_ in preds[1:]:
                w = E("bin", "and", w, p_, t="bool")
            s.where = w
        q = Q()
        if agg:
            if agg == "count*":
                item = E("agg", "count", None, False, None, t="bigint")
            else:
                argt = out_type if agg in ("min", "max") else ("int" if out_type in INTS else out_type)
                cands = self.cols_of(inner_scope, (argt,))
                if not cands:
                    arg = self.lit(argt)
                else:
                    arg = self.colref(*rng.choice(cands), [inner_scope] + enclosing)
                    if rng.random() < 0.2 and argt in NUM:
                        oc = [x for x in self.cols_of(scope, (argt,))]
                        if oc:
                            self.tags.add("correlated_in_aggregate")
                            arg = E("bin", "+", arg, self.colref(*rng.choice(oc), [inner_scope] + enclosing), t=argt)
                item = E("agg", agg, arg, False, None, t=("bigint" if agg in ("sum", "count") else out_type))
            nm = self.fresh("z")
            s.items = [(item, nm)]
            q.out = [(nm, item.t)]
        else:
            item = self.expr(out_type, inner_scope, enclosing, max(depth - 2, 0), subq_ok=False)
            nm = self.fresh("z")
            s.items = [(item, nm)]
            q.out = [(nm, out_type)]
        q.body = s
        return q

    def schema_of(self, tname):
        if tname in self.ctes:
            return self.ctes[tname]
        return self.schema[tname]

    def scalar_subquery(self, t, scope, outer, depth):
        self.tags.add("scalar_subquery")
        rng = self.rng
        if t in INTS:
            agg = rng.choice(["count*", "sum", "min", "max", "count"]) if t == "bigint" else rng.choice(["min", "max"])
        elif t == "text":
            agg = rng.choice(["min", "max"])
        else:
            agg = rng.choice(["min", "max", "sum"])
        if agg in ("count*", "count"):
            self.tags.add("scalar_count_subquery")
        q = self.simple_subselect(t, scope, outer, depth, agg=agg)
        return E("subq", "scalar", q, None, None, t=t)

    def bool_subquery(self, scope, outer, depth):
        rng = self.rng
        kind = rng.choice(["exists", "exists", "in", "in", "any", "all"])
        self.tags.add("subq_" + kind)
        if kind == "exists":
            q = self.simple_subselect("int", scope, outer, depth)
            q.body.items = [(E("lit", 1, t="int"), q.out[0][0])]
            neg = rng.random() < 0.35
            if neg:
                self.tags.add("not_exists")
            return E("subq", "exists", q, None, neg, t="bool")
        t = rng.choice(["int", "int", "bigint", "text"])
        lhs = self.expr(t, scope, outer, max(depth - 2, 0), subq_ok=False)
        q = self.simple_subselect(t, scope, outer, depth, corr=rng.random() < 0.4)
        if kind == "in":
            neg = rng.random() < 0.3
            if neg:
                self.tags.add("not_in")
            return E("subq", "in", q, lhs, neg, t="bool")
        op = rng.choice(["=", "<>", "<", "<=", ">", ">="])
        return E("subq", kind, q, lhs, op, t="bool")

    # ------------------------------------------------------------------ FROM
    def from_item(self, depth, outer):
        """-> (F, scope entries [(alias, cols)])"""
        rng = self.rng
        r = rng.random()
        if depth > 0 and r < self.w["derived"]:
            self.tags.add("derived_table")
            q = self.query(depth - 1, outer=[], top=False, force_alias=True)
            al = self.fresh("d")
            return F("sub", q=q, alias=al, colnames=None), [(al, list(q.out))]
        if r < self.w["derived"] + 0.04:
            self.tags.add("values")
            al = self.fresh("v")
            types = [rng.choice(["int", "text", "int"]) for _ in range(rng.randint(1, 2))]
            rows = [tuple(gen_value(rng, t, 0.1 if i else 0.0) for t in types) for i in range(rng.randint(1, 4))]
            names = [self.fresh("vc") for _ in types]
            return F("values", rows=rows, alias=al, colnames=names, types=types), [(al, list(zip(names, types)))]
        if r < self.w["derived"] + 0.08:
            self.tags.add("generate_series")
            al = self.fresh("g")
            col = self.fresh("gs")
            lo = rng.randint(-2, 3)
            return F("series", lo=lo, hi=lo + rng.randint(-1, 6), alias=al, col=col), [(al, [(col, "bigint")])]
        names = list(self.schema) + list(self.ctes)
        t = rng.choice(names)
        if t in self.ctes:
            self.tags.add("cte_ref")
        al = self.fresh("t")
        return F("table", name=t, alias=al), [(al, list(self.schema_of(t)))]

    def join_cond(self, lscope, rscope, outer, depth):
        rng = self.rng
        scopes = [lscope + rscope] + outer
        pairs = []
        for la, lc, lt in self.cols_of(lscope, TYPES):
            for ra, rc, rt in self.cols_of(rscope, TYPES):
                if lt == rt or (lt in INTS and rt in INTS):
                    pairs.append(((la, lc, lt), (ra, rc, rt)))
        if not pairs:
            return E("lit", True, t="bool"), "none"
        shape = rng.choice(["eq", "eq", "eq", "eq2", "eq_ineq", "ineq", "expr"])
        (l, r_) = rng.choice([p for p in pairs if p[0][1] == "k" and p[1][1] == "k"] or pairs) if rng.random() < 0.6 else rng.choice(pairs)
        le, re_ = self.colref(*l, scopes), self.colref(*r_, scopes)
        if shape == "eq":
            return E("bin", "=", le, re_, t="bool"), shape
        if shape == "eq2":
            (l2, r2) = rng.choice(pairs)
            return E("bin", "and", E("bin", "=", le, re_, t="bool"), E("bin", "=", self.colref(*l2, scopes), self.colref(*r2, scopes), t="bool"), t="bool"), shape
        if shape == "eq_ineq":
            (l2, r2) = rng.choice(pairs)
            return E("bin", "and", E("bin", "=", le, re_, t="bool"), E("bin", rng.choice(["<", ">=", "<>"]), self.colref(*l2, scopes), self.colref(*r2, scopes), t="bool"), t="bool"), shape
        if shape == "ineq":
            return E("bin", rng.choice(["<", "<=", ">", "<>"]), le, re_, t="bool"), shape
        if l[2] in INTS and r_[2] in INTS:
            return E("bin", "=", E("bin", "+", le, E("lit", 1, t="int"), t=l[2]), re_, t="bool"), shape
        return E("bin", "=", le, re_, t="bool"), "eq"

    def from_clause(self, depth, outer):
        rng = self.rng
        f, scope = self.from_item(depth, outer)
        njoins = 0
        while njoins < 2 and self.p("join"):
            njoins += 1
            if depth > 0 and self.p("lateral"):
                # lateral derived table referencing the left side
                self.tags.add("lateral")
                q = self.simple_subselect(rng.choice(["int", "bigint", "text"]), scope, outer, depth, agg=None)
                al = self.fresh("l")
                rf = F("lateral", q=q, alias=al)
                f = F("join", kind="comma", left=f, right=rf, on=None, using=None)
                scope = scope + [(al, list(q.out))]
                break
            rf, rscope = self.from_item(depth, outer)
            kind = rng.choice(["inner", "inner", "left", "left", "right", "comma", "cross", "semi" if self.p("semi") else "inner"])
            if kind in ("comma", "cross"):
                self.tags.add("join_" + kind)
                f = F("join", kind=kind, left=f, right=rf, on=None, using=None)
                scope = scope + rscope
                continue
            on, shape = self.join_cond(scope, rscope, outer, depth)
            using = None
            if kind != "semi" and rng.random() < 0.12 and rf.k == "table" and f.k == "table":
                # USING on the shared key column (both sides have k:int); later references stay qualified
                if any(c == "k" for c, _ in scope[0][1]) and any(c == "k" for c, _ in rscope[0][1]):
                    using = ["k"]
                    self.tags.add("join_using")
            self.tags.add("join_" + kind)
            self.tags.add("joincond_" + (shape if not using else "using"))
            f = F("join", kind=kind, left=f, right=rf, on=None if using else on, using=using)
            if kind != "semi":
                scope = scope + rscope
        return f, scope

    # ------------------------------------------------------------------ SELECT
    def select(self, depth, outer, want_types=None, force_alias=False):
        rng = self.rng
        s = Sel()
        f, scope = self.from_clause(depth, outer)
        s.frm = f
        if self.p("where"):
            s.where = self.boolean(scope, outer, min(depth, 2))
        mode = "plain"
        if want_types is None or True:
            r = rng.random()
            if r < self.w["group"]:
                mode = "group"
            elif r < self.w["group"] + self.w["agg"]:
                mode = "agg"
        out = []
        if mode == "plain":
            n = len(want_types) if want_types else rng.randint(1, 4)
            for i in range(n):
                t = want_types[i] if want_types else rng.choice(TYPES)
                e = self.expr(t, scope, outer, min(depth, 2))
                alias = None
                if e.k == "col" and not force_alias and rng.random() < 0.6:
                    name = e.a[1]
                else:
                    alias = self.fresh("z")
                    name = alias
                s.items.append((e, alias))
                out.append((name, t))
            # lateral alias reference to an earlier aliased integer item
            ints = [(al, t) for (e, al), (_, t) in zip(s.items, out) if al and t in INTS]
            if ints and not want_types and rng.random() < self.w["aliasref"]:
                al, t = rng.choice(ints)
                self.tags.add("lateral_alias_ref")
                alias = self.fresh("z")
                s.items.append((E("bin", "+", E("aliasref", al, t=t), E("lit", 1, t="int"), t=t), alias))
                out.append((alias, t))
            if not want_types and self.p("distinct"):
                s.distinct = True
                self.tags.add("distinct")
        else:
            self.tags.add("aggregate")
            gexprs = []
            if mode == "group":
                self.tags.add("group_by")
                for _ in range(rng.randint(1, 2)):
                    t = rng.choice(["int", "int", "text", "bool", "bigint"])
                    cands = self.cols_of(scope, (t,))
                    if cands and rng.random() < 0.75:
                        g = self.colref(*rng.choice(cands), [scope] + outer)
                        g = E("col", g.a[0], g.a[1], 0, t=g.t)  # canonical rendering so re-use renders identically
                    elif t in INTS and self.cols_of(scope, (t,)):
                        c = rng.choice(self.cols_of(scope, (t,)))
                        g = E("bin", "%", E("col", c[0], c[1], 0, t=t), E("lit", rng.choice([2, 3]), t="int"), t=t)
                        self.tags.add("group_by_expr")
                    else:
                        continue
                    if not any(struct_eq(g, x) for x in gexprs):
                        gexprs.append(g)
                if not gexprs:
                    mode = "agg"
            gmode = "plain"
            if gexprs and self.p("rollup"):
                gmode = rng.choice(["rollup", "cube"])
                self.tags.add(gmode)
            if mode == "group":
                s.group = (gmode, gexprs)
            n = len(want_types) if want_types else rng.randint(1, 4)
            for i in range(n):
                wt = want_types[i] if want_types else None
                gc = [g for g in gexprs if wt is None or g.t == wt]
                if gc and rng.random() < 0.45:
                    e = rng.choice(gc)
                    t = e.t
                else:
                    e = self.agg_expr(wt, scope, outer, depth)
                    t = e.t
                    if wt is not None and t != wt:
                        e = self.agg_expr(wt, scope, outer, depth, strict=True)
                        t = e.t
                alias = self.fresh("z")
                s.items.append((e, alias))
                out.append((alias, t))
            if gmode != "plain" and not want_types and rng.random() < 0.5:
                self.tags.add("grouping_fn")
                args = rng.sample(gexprs, rng.randint(1, len(gexprs)))
                alias = self.fresh("z")
                s.items.append((E("grouping", args, t="bigint"), alias))
                out.append((alias, "bigint"))
            if rng.random() < 0.3:
                self.tags.add("having")
                a = self.agg_expr("bigint", scope, outer, depth, strict=True)
                s.having = E("bin", rng.choice([">", ">=", "<", "<>"]), a, E("lit", rng.choice([0, 1, 2, 5]), t="int"), t="bool")
        return s, out

    def agg_expr(self, want, scope, outer, depth, strict=False):
        rng = self.rng
        scopes = [scope] + outer
        if want in (None, "bigint"):
            choice = rng.choice(["count*", "count", "sum", "count_distinct", "sum", "min", "max"] if want is None else ["count*", "count", "sum", "count_distinct", "sum_distinct"])
        elif want == "int":
            choice = rng.choice(["min", "max"])
        elif want == "text":
            choice = rng.choice(["min", "max"])
        elif want == "bool":
            choice = rng.choice(["bool_and", "bool_or"])
        elif want == "double":
            choice = rng.choice(["avg", "sum", "min", "max"])
        else:
            choice = "count*"
        filt = None
        if rng.random() < 0.03:
            self.tags.add("agg_filter")
            filt = self.boolean(scope, outer, 1, subq_ok=False)
        if choice == "count*":
            return E("agg", "count", None, False, filt, t="bigint")
        if choice in ("count", "count_distinct"):
            t = rng.choice(TYPES)
            arg = self.expr(t, scope, outer, 1, subq_ok=False)
            if choice == "count_distinct":
                self.tags.add("agg_distinct")
            return E("agg", "count", arg, choice == "count_distinct", filt, t="bigint")
        if choice in ("sum", "sum_distinct"):
            t = "double" if want == "double" else rng.choice(INTS)
            arg = self.expr(t, scope, outer, 1, subq_ok=False)
            if choice == "sum_distinct":
                self.tags.add("agg_distinct")
            return E("agg", "sum", arg, choice == "sum_distinct", filt, t=("double" if t == "double" else "bigint"))
        if choice == "avg":
            t = rng.choice(["int", "double", "bigint"])
            return E("agg", "avg", self.expr(t, scope, outer, 1, subq_ok=False), False, filt, t="double")
        if choice in ("min", "max"):
            t = want or rng.choice(["int", "text", "double", "bigint"])
            return E("agg", choice, self.expr(t, scope, outer, 1, subq_ok=False), False, filt, t=t)
        if choice in ("bool_and", "bool_or"):
            return E("agg", choice, self.boolean(scope, outer, 1, subq_ok=False), False, filt, t="bool")
        raise ValueError(choice)

    # ------------------------------------------------------------------ query
    def query(self, depth, outer=None, top=False, want_types=None, force_alias=False):
        rng = self.rng
        outer = outer or []
        q = Q()
        saved_ctes = dict(self.ctes)
        if depth > 0 and self.p("cte") and not want_types:
            for _ in range(rng.randint(1, 2)):
                cq = self.query(depth - 1, outer=[], force_alias=True)
                name = self.fresh("cte")
                mat = rng.random() < 0.4
                self.tags.add("cte_materialized" if mat else "cte")
                q.ctes.append((name, cq, mat))
                self.ctes[name] = list(cq.out)
        if depth > 0 and self.p("union") and not want_types:
            self.tags.add("union")
            s1, out1 = self.select(depth - 1, outer, force_alias=True)
            lq = Q(); lq.body = s1; lq.out = out1
            types = [t for _, t in out1]
            s2, out2 = self.select(depth - 1, outer, want_types=types, force_alias=True)
            rq = Q(); rq.body = s2; rq.out = out2
            all_ = rng.random() < 0.5
            self.tags.add("union_all" if all_ else "union_distinct")
            q.body = ("union", all_, lq, rq)
            q.out = out1
        else:
            s, out = self.select(depth, outer, want_types=want_types, force_alias=force_alias)
            q.body = s
            q.out = out
        self.ctes = saved_ctes
        is_setop = not isinstance(q.body, Sel)
        if top:
            if self.p("order") and not is_setop:
                self.add_order(q, total=False)
            if self.p("limit"):
                self.tags.add("limit")
                if not q.order and rng.random() < 0.5 and not is_setop:
                    self.add_order(q, total=rng.random() < 0.5)
                q.limit = rng.choice([0, 1, 2, 3, 5, 10, 100])
                if rng.random() < 0.4:
                    q.offset = rng.choice([0, 1, 2, 7])
                    self.tags.add("offset")
        else:
            if rng.random() < 0.12 and not is_setop:
                # inner LIMIT only over a total order so the kept bag is determined
                self.tags.add("inner_limit")
                self.add_order(q, total=True)
                q.limit = rng.choice([1, 2, 3, 5])
        return q

    def add_order(self, q, total):
        rng = self.rng
        n = len(q.out)
        idx = list(range(1, n + 1))
        rng.shuffle(idx)
        keys = idx if total else idx[:rng.randint(1, min(n, 2))]
        self.tags.add("order_by")
        q.order = []
        names = [nm for nm, _ in q.out]
        for k in keys:
            desc = rng.choice([None, False, True, True])
            nulls = rng.choice([None, None, "first", "last"])
            style = "ord"
            import re as _re
            if names.count(names[k - 1]) == 1 and _re.match(r"^z\d+$", names[k - 1]) and rng.random() < 0.4:
                style = "name"
            if nulls:
                self.tags.add("nulls_" + nulls)
            q.order.append((k, desc, nulls, style))


def struct_eq(a, b):
    from vf.refsql import struct_key
    return struct_key(a) == struct_key(b)
