"""Fixed reproductions of recorded genuine defects (known_cases.json).

Each case is run on every check of the properties it belongs to. If the engine now gives the expected (correct)
answer nothing is printed; if it reproduces the recorded wrong behaviour exactly, the matching open entry of
known_findings.jsonl (signature {"kind":"fixed-case","case":id}) is counted as KNOWN-FINDING; any third behaviour
is a VIOLATION.
"""
import json, os
from vf import run as vrun
from vf import compare

PATH = os.path.join(os.path.dirname(os.path.dirname(os.path.abspath(__file__))), "known_cases.json")


def load():
    with open(PATH) as f:
        return json.load(f)


def _rows(step):
    return [compare.dec_row(r) for r in step.get("rows", [])]


def _same(step, want):
    """want: {"outcome":..., "rows":[...]} | {"outcome":"error","contains":...} | {"outcome":"deadlock",...}"""
    if step.get("outcome") != want.get("outcome") and not (want.get("outcome") == "rows" and step.get("outcome") == "rows"):
        return False
    o = want["outcome"]
    if o == "rows":
        ok, _ = compare.bag_equal([tuple(r) for r in want["rows"]], _rows(step))
        return ok
    if o == "error":
        return want.get("contains", "") in step.get("error", "")
    if o == "panic":
        return want.get("contains", "") in step.get("panic_msg", "")
    if o == "deadlock":
        return step.get("deadlock_kind") == want.get("deadlock_kind") and step.get("parked_ops") == want.get("parked_ops")
    return True


def run_known_cases(chk, props=None):
    props = set(props or [chk.prop])
    entries = [c for c in load() if (c["property"] in props or props & set(c.get("also", [])))]
    if not entries:
        return
    cases = []
    for c in entries:
        steps = [{"sql": s, "out": "count"} for s in c.get("setup", [])] + [{"sql": c["sql"]}]
        cases.append({"id": c["id"], "exec": c.get("exec", {"kind": "det", "policy": "fifo", "partitions": 1}), "steps": steps})
    results, _ = vrun.run_sharded(cases, shards=min(8, len(cases)), wall_s=300)
    for c, case in zip(entries, cases):
        res = results.get(c["id"])
        chk.evaluated()
        if res is None or "steps" not in res:
            if res is not None and "died" in res and any(o.get("outcome") == "died" for o in (c["observed"] if isinstance(c["observed"], list) else [c["observed"]])):
                chk.violation({"kind": "fixed-case", "case": c["id"]}, f"known case {c['id']} reproduces (process death)", {"cases": [case]})
                continue
            chk.inconc("known case could not be run")
            continue
        st = res["steps"][-1]
        if any(s["outcome"] not in ("rows", "empty") for s in res["steps"][:-1]):
            chk.inconc("known case setup failed")
            continue
        if _same(st, c["expected"]):
            chk.count("known_case_no_longer_reproduces")
            continue
        observed = c["observed"] if isinstance(c["observed"], list) else [c["observed"]]    # a defect may show in more than one recorded way
        if any(_same(st, o) for o in observed):
            chk.violation({"kind": "fixed-case", "case": c["id"]}, f"known case {c['id']} reproduces: {c['sql']}", {"cases": [case]})
            chk.nontrivial(("known-case", c["id"]))
            continue
        brief = {k: v for k, v in st.items() if k in ("outcome", "rows", "error", "panic_msg", "deadlock_kind", "parked_ops")}
        chk.violation({"kind": "known-case-changed", "case": c["id"]},
                      f"known case {c['id']} now behaves in a third way: {c['sql']}\nexpected {c['expected']}\nrecorded {c['observed']}\nnow {json.dumps(brief)[:500]}",
                      {"cases": [case]})
