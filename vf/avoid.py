"""Predicates recognising query shapes that run into *recorded* genuine defects (known_findings.jsonl).

The random workloads skip such queries (counted per finding id in the evidence) so that the bulk of the volume has no
known defect to hide behind; each recorded defect is re-checked on its own fixed case by vf/knowncases.py.
"""
from vf.sqlast import E, Sel, Q, F
from vf.refsql import struct_key, _walk_query, _walk_exprs


def is_constant(e):
    hit = []

    def fn(x):
        if x.k in ("col", "subq", "agg", "grouping", "aliasref"):
            hit.append(1)
    _walk_exprs(e, fn)
    return not hit


def conj_terms(e, op):
    if isinstance(e, E) and is_constant(e):
        return [e]   # folded to one literal before the rewrite rules run
    if isinstance(e, E) and e.k == "bin" and e.a[0] == op:
        return conj_terms(e.a[1], op) + conj_terms(e.a[2], op)
    # the binder expands x NOT IN (a, b) into x <> a AND x <> b, and x IN (a, b) into x = a OR x = b
    if isinstance(e, E) and e.k == "inlist" and ((op == "and" and e.a[2]) or (op == "or" and not e.a[2])):
        return [E("bin", "<>" if e.a[2] else "=", e.a[0], item, t="bool") for item in e.a[1]]
    if isinstance(e, E) and e.k == "between" and op == "and" and not e.a[3]:
        return [E("bin", ">=", e.a[0], e.a[1], t="bool"), E("bin", "<=", e.a[0], e.a[2], t="bool")]
    return [e]


def aliases_in(e):
    out = set()

    def fn(x):
        if x.k == "col" and x.a[0] is not None:
            out.add(x.a[0])
    _walk_exprs(e, fn)
    return out


def term_key(t):
    """Structural key of a conjunct; constant terms are keyed by their value (the optimizer folds them first)."""
    if is_constant(t):
        try:
            from vf.refsql import Model, Env
            return ("const", Model({}).ev(t, Env({})))
        except Exception:
            pass
    return struct_key(t)


def or_absorption(e):
    """(X AND A) OR (A): an OR child whose conjuncts are all common to every child (distributive-OR rewrite drops it)."""
    hit = []

    def fn(x):
        if x.k == "bin" and x.a[0] == "or":
            kids = conj_terms(x, "or")
            sets = [set(term_key(t) for t in conj_terms(k, "and")) for k in kids]
            common = set.intersection(*sets)
            if common and any(s <= common for s in sets):
                hit.append(1)
    _walk_exprs(e, fn)
    return bool(hit)


def distinct_from_across_tables(e):
    hit = []

    def fn(x):
        if x.k == "isdistinct":
            def has_subq(e):
                h = []
                _walk_exprs(e, lambda y: h.append(1) if y.k == "subq" else None)
                return bool(h)
            # a subquery operand is planned as a join as well
            if len(aliases_in(x.a[0]) | aliases_in(x.a[1])) >= 2 or has_subq(x.a[0]) or has_subq(x.a[1]):
                hit.append(1)
    _walk_exprs(e, fn)
    return bool(hit)


def has_outer_join(q):
    """LEFT/RIGHT joins, or subquery expressions (which decorrelate into left/mark joins), anywhere in q."""
    hit = []

    def es(x):
        if x.k == "subq":
            hit.append(1)
    _walk_query(q, es)

    def vf(f):
        if f is None:
            return
        if f.k == "join":
            if f.kind in ("left", "right"):
                hit.append(1)
            vf(f.left)
            vf(f.right)
        elif f.k in ("sub", "lateral"):
            vq(f.q)

    def vq(qq):
        for _, cq, _m in qq.ctes:
            vq(cq)
        b = qq.body
        if isinstance(b, Sel):
            vf(b.frm)
        else:
            vq(b[2])
            vq(b[3])
    vq(q)
    return bool(hit)


def limit_over_outer_join(q):
    """Some query level with LIMIT has a LEFT/RIGHT join somewhere beneath it."""
    hit = []

    def vq(qq):
        if qq.limit is not None and has_outer_join(qq):
            hit.append(1)
        for _, cq, _m in qq.ctes:
            vq(cq)
        b = qq.body
        if isinstance(b, Sel):
            vf(b.frm)
        else:
            vq(b[2])
            vq(b[3])

    def vf(f):
        if f is None:
            return
        if f.k == "join":
            vf(f.left)
            vf(f.right)
        elif f.k in ("sub", "lateral"):
            vq(f.q)
    vq(q)

    def es(x):
        if x.k == "subq":
            vq(x.a[1])
    _walk_query(q, es)
    return bool(hit)


def limit_over_distinct_aggregate(q):
    """Some query level with LIMIT has an aggregate function with DISTINCT somewhere beneath it."""
    hit = []

    def has_distinct_agg(qq):
        found = []

        def es(x):
            if x.k == "agg" and x.a[2]:
                found.append(1)
        _walk_query(qq, es)
        return bool(found)

    def vq(qq):
        if qq.limit is not None and has_distinct_agg(qq):
            hit.append(1)
        for _, cq, _m in qq.ctes:
            vq(cq)
        b = qq.body
        if isinstance(b, Sel):
            vf(b.frm)
        else:
            vq(b[2])
            vq(b[3])

    def vf(f):
        if f is None:
            return
        if f.k == "join":
            vf(f.left)
            vf(f.right)
        elif f.k in ("sub", "lateral"):
            vq(f.q)
    vq(q)

    def es2(x):
        if x.k == "subq":
            vq(x.a[1])
    _walk_query(q, es2)
    return bool(hit)


def aliasref_to_subquery_item(q):
    """Some select list references (by alias) an earlier item whose expression contains a subquery."""
    hit = []

    def has_subq(e):
        f = []

        def fn(x):
            if x.k == "subq":
                f.append(1)
        _walk_exprs(e, fn)
        return bool(f)

    def refs(e):
        out = set()

        def fn(x):
            if x.k == "aliasref":
                out.add(x.a[0])
        _walk_exprs(e, fn)
        return out

    def vsel(b):
        withsub = {al for e, al in b.items if al and has_subq(e)}
        for e, al in b.items:
            if refs(e) & withsub:
                hit.append(1)

    def vq(qq):
        for _, cq, _m in qq.ctes:
            vq(cq)
        b = qq.body
        if isinstance(b, Sel):
            vsel(b)
            vf(b.frm)
        else:
            vq(b[2])
            vq(b[3])

    def vf(f):
        if f is None:
            return
        if f.k == "join":
            vf(f.left)
            vf(f.right)
        elif f.k in ("sub", "lateral"):
            vq(f.q)
    vq(q)

    def es(x):
        if x.k == "subq":
            vq(x.a[1])
    _walk_query(q, es)
    return bool(hit)


def cte_joined_with_itself(q):
    """Some FROM clause (through joins and derived tables, not expression subqueries) scans one CTE twice."""
    hit = []

    def from_tables(f, names):
        if f is None:
            return
        if f.k == "join":
            from_tables(f.left, names)
            from_tables(f.right, names)
        elif f.k == "table":
            names.append(f.name)
        elif f.k in ("sub", "lateral"):
            q_tables(f.q, names)

    def q_tables(qq, names):
        b = qq.body
        for _, cq, _m in qq.ctes:
            vq(cq)
        if isinstance(b, Sel):
            from_tables(b.frm, names)
        else:
            q_tables(b[2], names)
            q_tables(b[3], names)

    def vq(qq):
        names = []
        q_tables(qq, names)
        ctes = [n for n in names if n.startswith("cte")]
        if len(ctes) != len(set(ctes)):
            hit.append(1)
    vq(q)

    def es(x):
        if x.k == "subq":
            vq(x.a[1])
    _walk_query(q, es)
    return bool(hit)


def query_avoid_reasons(q, partitions=2):
    """-> set of finding ids this query would run into."""
    reasons = set()
    if cte_joined_with_itself(q):
        reasons.add("optimizer-cte-self-join")
    if partitions > 1 and limit_over_outer_join(q):
        reasons.add("left-join-limit-hang")
    if aliasref_to_subquery_item(q):
        reasons.add("alias-ref-to-subquery-item-duplicates-rows")
    if partitions > 1 and limit_over_distinct_aggregate(q):
        reasons.add("distinct-aggregate-union-limit-hang")

    def n_from_items(f):
        if f is None:
            return 0
        if f.k == "join":
            return n_from_items(f.left) + n_from_items(f.right)
        return 1

    def has_semi_join(f):
        if f is None or f.k != "join":
            return False
        return f.kind in ("semi", "anti") or has_semi_join(f.left) or has_semi_join(f.right)

    def has_bool_subq(e):
        hit = []

        def fn(x):
            if x.k == "subq" and x.a[0] in ("in", "any", "all", "exists"):
                hit.append(1)
        _walk_exprs(e, fn)
        return bool(hit)

    def const_operand_bool_subq(e):
        """an uncorrelated IN/ANY/ALL subquery whose left operand references no column: the semi join has no outer column"""
        hit = []

        def fn(x):
            if x.k == "subq" and x.a[0] in ("in", "any", "all") and x.a[2] is not None and is_constant(x.a[2]):
                hit.append(1)
        _walk_exprs(e, fn)
        return bool(hit)

    def dependent_grouping_keys(s):
        """ROLLUP/CUBE whose key list holds an expression over columns that are (part of) another key of the list"""
        if s.group is None or s.group[0] == "plain":
            return False
        keys = s.group[1]
        cols = []
        for g in keys:
            c = set()

            def fn(x, c=c):
                if x.k == "col":
                    c.add((x.a[0], x.a[1]))
            _walk_exprs(g, fn)
            cols.append(c)
        for i, g in enumerate(keys):
            for j, h in enumerate(keys):
                if i != j and g.k != "col" and cols[i] & cols[j] and struct_key(g) != struct_key(h):
                    return True
        return False

    def visit_sel(s):
        if dependent_grouping_keys(s):
            reasons.add("rollup-dependent-key-not-nulled")
        if s.group is not None:
            gkeys = [struct_key(g) for g in s.group[1]]
            for e, _ in s.items:
                def fn(x):
                    if x.k == "grouping":
                        args = [struct_key(a) for a in x.a[0]]
                        if args != gkeys[:len(args)] or len(args) != len(gkeys) or any(a.k != "col" for a in x.a[0]):
                            reasons.add("grouping-function-argument-order")
                _walk_exprs(e, fn)
        if s.where is not None and n_from_items(s.frm) >= 3 and has_bool_subq(s.where):
            reasons.add("optimizer-semi-join-reorder-loses-rows")
        if n_from_items(s.frm) >= 3 and has_semi_join(s.frm):
            # the same reordering defect through the explicit SEMI / ANTI JOIN syntax
            reasons.add("optimizer-semi-join-reorder-loses-rows")
        if s.where is not None and const_operand_bool_subq(s.where):
            reasons.add("optimizer-semi-join-constant-operand-loses-rows")
        for e in [s.where, s.having] + [x for x, _ in s.items]:
            if e is None:
                continue
            if or_absorption(e):
                reasons.add("optimizer-distributive-or-absorption")
            if distinct_from_across_tables(e):
                reasons.add("optimizer-is-distinct-from-join-condition")
        visit_from(s.frm)

    def visit_from(f):
        if f is None:
            return
        if f.k == "join":
            visit_from(f.left)
            visit_from(f.right)
            if f.on is not None:
                if or_absorption(f.on):
                    reasons.add("optimizer-distributive-or-absorption")
                if distinct_from_across_tables(f.on):
                    reasons.add("optimizer-is-distinct-from-join-condition")
        elif f.k in ("sub", "lateral"):
            visit_q(f.q)

    def visit_q(qq):
        for _, cq, _m in qq.ctes:
            visit_q(cq)
        b = qq.body
        if isinstance(b, Sel):
            visit_sel(b)
        else:
            visit_q(b[2])
            visit_q(b[3])

    def expr_subqueries(x):
        if x.k == "subq":
            visit_q(x.a[1])
    visit_q(q)
    _walk_query(q, expr_subqueries)
    return reasons
