"""AST shared by the query generator (renders SQL text) and the reference model (evaluates it).

Nodes are plain objects with a kind tag; no parser exists on the model side, so
the text sent to the engine and the tree the model evaluates come from one source.
"""


class E:
    """Expression node. k = kind, a = args tuple, t = static type name."""
    __slots__ = ("k", "a", "t")

    def __init__(self, k, *a, t=None):
        self.k = k
        self.a = a
        self.t = t

    def __repr__(self):
        return f"E({self.k},{self.a})"


class Sel:
    """SELECT block."""
    def __init__(self):
        self.distinct = False
        self.items = []        # [(E, alias or None)]
        self.frm = None        # F or None
        self.where = None
        self.group = None      # None | (mode, [E])  mode in plain|rollup|cube
        self.having = None
        self.star = None       # None | '*' : render the select list as * (items still explicit for the model)


class Q:
    """Query expression: WITH + body + ORDER BY/LIMIT."""
    def __init__(self):
        self.ctes = []         # [(name, Q, materialized: bool)]
        self.body = None       # Sel | ('union', all: bool, Q, Q)
        self.order = []        # [(ordinal (1-based) , desc: bool, nulls: None|'first'|'last', style)]
        self.limit = None
        self.offset = None
        self.out = []          # [(name, type)] output columns


class F:
    """FROM item. k in table|sub|join|values|series|lateral"""
    def __init__(self, k, **kw):
        self.k = k
        self.__dict__.update(kw)


# ---------------------------------------------------------------------------
# rendering

def qident(name, style=0):
    if style == 1:
        return '"' + name + '"'
    if style == 2:
        return name.upper()
    return name


def lit_sql(v, t):
    if v is None:
        return "NULL" if t is None else f"CAST(NULL AS {sql_type(t)})"
    if t == "bool":
        return "true" if v else "false"
    if t in ("int", "bigint"):
        s = str(v)
        if t == "bigint":
            return f"({s})::bigint" if v < 0 else f"{s}::bigint"
        return f"({s})" if v < 0 else s
    if t == "double":
        # dyadic rationals print exactly with repr
        s = repr(float(v))
        if "e" in s or "inf" in s or "nan" in s:
            return f"'{s}'::double"
        return f"({s})::double" if v < 0 else f"{s}::double"
    if t == "text":
        return "'" + v.replace("'", "''") + "'"
    if t == "date":
        return f"DATE '{v}'"
    raise ValueError(t)


def sql_type(t):
    return {"int": "INT", "bigint": "BIGINT", "text": "TEXT", "bool": "BOOLEAN", "double": "DOUBLE", "date": "DATE"}[t]


BINPREC = {"or": 1, "and": 2, "=": 4, "<>": 4, "<": 4, "<=": 4, ">": 4, ">=": 4, "||": 6, "+": 7, "-": 7, "*": 8, "/": 8, "%": 8}


def esql(e):
    k, a = e.k, e.a
    if k == "col":
        alias, name, style = a
        n = qident(name, style & 3)
        if alias is None or (style & 4):
            return n
        return f"{qident(alias, (style >> 3) & 3)}.{n}"
    if k == "lit":
        return lit_sql(a[0], e.t)
    if k == "bin":
        op, l, r = a
        return f"({esql(l)} {op.upper() if op in ('and', 'or') else op} {esql(r)})"
    if k == "not":
        return f"(NOT {esql(a[0])})"
    if k == "neg":
        return f"(-{esql(a[0])})"
    if k == "isnull":
        return f"({esql(a[0])} IS {'NOT ' if a[1] else ''}NULL)"
    if k == "isdistinct":
        return f"({esql(a[0])} IS {'NOT ' if a[2] else ''}DISTINCT FROM {esql(a[1])})"
    if k == "between":
        return f"({esql(a[0])} {'NOT ' if a[3] else ''}BETWEEN {esql(a[1])} AND {esql(a[2])})"
    if k == "inlist":
        return f"({esql(a[0])} {'NOT ' if a[2] else ''}IN ({', '.join(esql(x) for x in a[1])}))"
    if k == "case":
        whens, els = a
        s = "CASE " + " ".join(f"WHEN {esql(c)} THEN {esql(v)}" for c, v in whens)
        if els is not None:
            s += f" ELSE {esql(els)}"
        return "(" + s + " END)"
    if k == "coalesce":
        return f"coalesce({', '.join(esql(x) for x in a[0])})"
    if k == "fn":
        return f"{a[0]}({', '.join(esql(x) for x in a[1])})"
    if k == "cast":
        return f"CAST({esql(a[0])} AS {sql_type(a[1])})"
    if k == "like":
        return f"({esql(a[0])} {'NOT ' if a[2] else ''}LIKE {lit_sql(a[1], 'text')})"
    if k == "agg":
        name, arg, distinct, filt = a
        inner = "*" if arg is None else (("DISTINCT " if distinct else "") + esql(arg))
        s = f"{name}({inner})"
        if filt is not None:
            s += f" FILTER (WHERE {esql(filt)})"
        return s
    if k == "grouping":
        return f"grouping({', '.join(esql(x) for x in a[0])})"
    if k == "aliasref":
        return a[0]
    if k == "subq":
        kind, q, lhs, op = a
        if kind == "scalar":
            return f"({qsql(q)})"
        if kind == "exists":
            return f"({'NOT ' if op else ''}EXISTS ({qsql(q)}))"
        if kind == "in":
            return f"({esql(lhs)} {'NOT ' if op else ''}IN ({qsql(q)}))"
        if kind in ("any", "all"):
            return f"({esql(lhs)} {op} {kind.upper()} ({qsql(q)}))"
    raise ValueError(k)


def _decomma(f):
    if f.k == "join":
        if f.kind == "comma" and f.right.k != "lateral":
            f.kind = "cross"
        _decomma(f.left)


def fsql(f):
    k = f.k
    if k == "table":
        return f.name if f.alias == f.name else f"{f.name} AS {f.alias}"
    if k == "sub":
        return f"({qsql(f.q)}) AS {f.alias}" + (f"({', '.join(f.colnames)})" if f.colnames else "")
    if k == "lateral":
        return f"LATERAL ({qsql(f.q)}) AS {f.alias}"
    if k == "values":
        rows = ", ".join("(" + ", ".join(lit_sql(v, t) for v, t in zip(r, f.types)) + ")" for r in f.rows)
        return f"(VALUES {rows}) AS {f.alias}({', '.join(f.colnames)})"
    if k == "series":
        return f"generate_series({f.lo}, {f.hi}) AS {f.alias}({f.col})"
    if k == "join":
        kind = f.kind
        if kind != "comma":
            # `a, b JOIN c` parses as a, (b JOIN c): keep the tree's left-deep meaning by spelling every comma
            # below an explicit JOIN as CROSS JOIN
            _decomma(f.left)
        l, r = fsql(f.left), fsql(f.right)
        if kind == "comma":
            return f"{l}, {r}"
        if kind == "cross":
            return f"{l} CROSS JOIN {r}"
        kw = {"inner": "INNER JOIN", "left": "LEFT JOIN", "right": "RIGHT JOIN", "semi": "SEMI JOIN", "anti": "ANTI JOIN"}[kind]
        if f.using:
            return f"{l} {kw} {r} USING ({', '.join(f.using)})"
        return f"{l} {kw} {r} ON {esql(f.on)}"
    raise ValueError(k)


def ssql(s):
    parts = ["SELECT"]
    if s.distinct:
        parts.append("DISTINCT")
    if s.star:
        parts.append(s.star)
    else:
        parts.append(", ".join(esql(e) + (f" AS {al}" if al else "") for e, al in s.items))
    if s.frm is not None:
        parts.append("FROM " + fsql(s.frm))
    if s.where is not None:
        parts.append("WHERE " + esql(s.where))
    if s.group is not None:
        mode, exprs = s.group
        inner = ", ".join(esql(e) for e in exprs)
        parts.append("GROUP BY " + (inner if mode == "plain" else f"{mode.upper()} ({inner})"))
    if s.having is not None:
        parts.append("HAVING " + esql(s.having))
    return " ".join(parts)


def bsql(b):
    if isinstance(b, Sel):
        return ssql(b)
    _, all_, l, r = b
    return f"{bsql_q(l)} UNION {'ALL ' if all_ else ''}{bsql_q(r)}"


def bsql_q(q):
    # operand of a set operation: parenthesise when it has its own modifiers
    if q.ctes or q.order or q.limit is not None:
        return f"({qsql(q)})"
    return bsql(q.body)


def qsql(q):
    parts = []
    if q.ctes:
        parts.append("WITH " + ", ".join(f"{n} AS {'MATERIALIZED ' if m else ''}({qsql(cq)})" for n, cq, m in q.ctes))
    parts.append(bsql(q.body))
    if q.order:
        keys = []
        for (ordn, desc, nulls, style) in q.order:
            s = str(ordn) if style != "name" else q.out[ordn - 1][0]
            if desc is not None:
                s += " DESC" if desc else " ASC"
            if nulls:
                s += f" NULLS {nulls.upper()}"
            keys.append(s)
        parts.append("ORDER BY " + ", ".join(keys))
    if q.limit is not None:
        parts.append(f"LIMIT {q.limit}")
        if q.offset is not None:
            parts.append(f"OFFSET {q.offset}")
    return " ".join(parts)
