"""Supervisor for vdrive: build variants, run scripts of cases, attribute deaths.

A *case* is a dict (see harness/src/main.rs):
  {id, exec:{kind,policy,seed,...}, sessions, out, max_rows, steps:[{s,sql,out,exec,cancel_after}]}
Results are dicts keyed by case id:
  {id, steps:[{outcome, schema, rows, ...}], op_counts}            normal
  {id, died:{signal|exit, panic_hook?, stderr_tail}}               process death
"""
import json, os, subprocess, sys, time, signal, resource, shutil, tempfile, hashlib

VERIF = os.path.dirname(os.path.dirname(os.path.abspath(__file__)))
HARNESS = os.path.join(VERIF, "harness")
TARGET = os.path.join(VERIF, "target")
TMPROOT = os.path.join(TARGET, "tmp")

VARIANTS = {
    # name: (cargo args, env, binary path relative to TARGET)
    "plain": (["build"], {}, "plain/debug/vdrive"),
    "asan": (["+nightly", "build", "--target", "x86_64-unknown-linux-gnu"],
             {"RUSTFLAGS": "-Zsanitizer=address -Cforce-frame-pointers=yes"},
             "asan/x86_64-unknown-linux-gnu/debug/vdrive"),
    "tsan": (["+nightly", "build", "-Zbuild-std", "--target", "x86_64-unknown-linux-gnu"],
             {"RUSTFLAGS": "-Zsanitizer=thread -Cforce-frame-pointers=yes"},
             "tsan/x86_64-unknown-linux-gnu/debug/vdrive"),
}


class BuildFailed(Exception):
    pass


def build(variant="plain", quiet=True):
    """(Re)build vdrive for a variant from /repo's working tree. Returns binary path."""
    args, env, rel = VARIANTS[variant]
    e = dict(os.environ)
    e.update(env)
    e["CARGO_NET_OFFLINE"] = "true"
    e["CARGO_TARGET_DIR"] = os.path.join(TARGET, variant)
    # keep the lock file in sync with the repository's
    src_lock = "/repo/Cargo.lock"
    dst_lock = os.path.join(HARNESS, "Cargo.lock")
    if not os.path.exists(dst_lock):
        shutil.copy(src_lock, dst_lock)
    t0 = time.time()
    p = subprocess.run(["cargo"] + args, cwd=HARNESS, env=e,
                       stdout=subprocess.PIPE, stderr=subprocess.STDOUT, text=True)
    if p.returncode != 0:
        tail = "\n".join(p.stdout.splitlines()[-40:])
        raise BuildFailed(f"cargo {' '.join(args)} failed ({variant}):\n{tail}")
    if not quiet:
        print(f"[build {variant}] ok in {time.time()-t0:.1f}s", flush=True)
    return os.path.join(TARGET, rel)


def tmpdir(prefix="run"):
    os.makedirs(TMPROOT, exist_ok=True)
    return tempfile.mkdtemp(prefix=prefix + "-", dir=TMPROOT)


def _limits(cpu_s, as_bytes):
    def f():
        if cpu_s:
            resource.setrlimit(resource.RLIMIT_CPU, (int(cpu_s), int(cpu_s) + 5))
        if as_bytes:
            resource.setrlimit(resource.RLIMIT_AS, (int(as_bytes), int(as_bytes)))
        resource.setrlimit(resource.RLIMIT_CORE, (0, 0))
    return f


def run_cases(cases, variant="plain", binary=None, cpu_s=None, as_bytes=None,
              wall_s=600, env=None, stack_mb=None, keep=False, wrapper=None):
    """Run cases in one vdrive process, restarting after a death.

    Returns (results: dict id -> result, meta) . A case during which the
    process died gets {"died": {...}}; cases not run because of a wall-clock
    watchdog get {"not_run": reason}.
    """
    if binary is None:
        binary = os.path.join(TARGET, VARIANTS[variant][2])
    if as_bytes is None and variant == "plain":
        as_bytes = 8 << 30   # a runaway allocation must kill the driver, not the machine
    d = tmpdir("vd")
    results = {}
    remaining = list(cases)
    restarts = 0
    deadline = time.time() + wall_s
    e = dict(os.environ)
    e.setdefault("RUST_BACKTRACE", "0")
    # DbError captures a backtrace per error when RUST_BACKTRACE is set (2-8 ms .. seconds of CPU per error under load);
    # panic and allocation-failure backtraces (used for attribution) are governed by RUST_BACKTRACE and stay on
    e["RUST_LIB_BACKTRACE"] = "0"
    if stack_mb:
        e["VDRIVE_STACK_MB"] = str(stack_mb)
    if env:
        e.update(env)
    rnd = 0
    try:
        while remaining:
            rnd += 1
            script = os.path.join(d, f"s{rnd}.jsonl")
            out = os.path.join(d, f"o{rnd}.jsonl")
            with open(script, "w") as f:
                for c in remaining:
                    f.write(json.dumps(c) + "\n")
            left = deadline - time.time()
            if left <= 0:
                for c in remaining:
                    results[c["id"]] = {"id": c["id"], "not_run": "wall-clock watchdog"}
                break
            cmd = [binary, "run", script, out]
            if wrapper:
                cmd = wrapper + cmd
            errp = os.path.join(d, f"e{rnd}.txt")
            with open(errp, "w") as ef:
                try:
                    p = subprocess.run(cmd, stdout=ef, stderr=subprocess.STDOUT, env=e,
                                       timeout=left, preexec_fn=_limits(cpu_s, as_bytes))
                    rc = p.returncode
                    timed_out = False
                except subprocess.TimeoutExpired:
                    rc = None
                    timed_out = True
            started = None
            hook = None
            cur_step = None
            done_ids = set()
            finished = False
            if os.path.exists(out):
                with open(out) as f:
                    for line in f:
                        try:
                            v = json.loads(line)
                        except Exception:
                            continue
                        if "start" in v:
                            started = v["start"]
                            hook = None
                            cur_step = None
                        elif "step" in v:
                            cur_step = v["step"]
                        elif "panic_hook" in v:
                            hook = v["panic_hook"]
                        elif "finished" in v:
                            finished = True
                        elif "id" in v:
                            results[v["id"]] = v
                            done_ids.add(v["id"])
                            if v["id"] == started:
                                started = None
            if finished and rc == 0:
                break
            # the process died (or was killed by the watchdog) during `started`
            with open(errp, errors="replace") as ef:
                whole = ef.read()
                tail = whole[-3000:]
                head = whole[:600]
                import re as _re
                m = _re.search(r"at /repo/crates/([^:\s]+)", whole)
                first_repo_frame = m.group(1) if m else ""
            if started is None and not timed_out and rc == 0:
                break
            if started is not None:
                died = {"stderr_tail": tail, "stderr_head": head, "first_repo_frame": first_repo_frame}
                if cur_step is not None:
                    died["step"] = cur_step      # cases with "journal_steps": true
                if timed_out:
                    died["watchdog"] = True
                elif rc is not None and rc < 0:
                    died["signal"] = -rc
                else:
                    died["exit"] = rc
                if hook:
                    died["panic_hook"] = hook
                results[started] = {"id": started, "died": died}
                done_ids.add(started)
            if timed_out:
                for c in remaining:
                    if c["id"] not in done_ids:
                        results[c["id"]] = {"id": c["id"], "not_run": "wall-clock watchdog"}
                break
            new_remaining = [c for c in remaining if c["id"] not in done_ids]
            if len(new_remaining) == len(remaining):
                # no progress at all: give up rather than loop
                for c in new_remaining:
                    results[c["id"]] = {"id": c["id"], "not_run": f"vdrive failed rc={rc}: {tail[-300:]}"}
                break
            remaining = new_remaining
            restarts += 1
    finally:
        if not keep:
            shutil.rmtree(d, ignore_errors=True)
    return results, {"restarts": restarts, "dir": d if keep else None}


def run_sharded(cases, shards=16, **kw):
    """Split cases over `shards` parallel vdrive processes."""
    from concurrent.futures import ThreadPoolExecutor
    shards = max(1, min(shards, len(cases)))
    parts = [cases[i::shards] for i in range(shards)]
    results = {}
    restarts = 0
    with ThreadPoolExecutor(max_workers=shards) as ex:
        for r, m in ex.map(lambda p: run_cases(p, **kw), parts):
            results.update(r)
            restarts += m["restarts"]
    return results, {"restarts": restarts}


def sql_lit(s):
    return "'" + s.replace("'", "''") + "'"


if __name__ == "__main__":
    # tiny CLI: python3 -m vf.run "select 1"
    build("plain", quiet=False)
    cases = [{"id": "cli", "steps": [{"sql": a} for a in sys.argv[1:]]}]
    res, meta = run_cases(cases)
    print(json.dumps(res, indent=1)[:4000])
