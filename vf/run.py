"""Supervisor for vdrive: build variants, run scripts of cases, attribute deaths.

A *case* is a dict (see harness/src/main.rs):
  {id, exec:{kind,policy,seed,...}, sessions, out, max_rows, steps:[{s,sql,out,exec,cancel_after}]}
Results are dicts keyed by case id:
  {id, steps:[{outcome, schema, rows, ...}], op_counts}            normal
  {id, died:{signal|exit, panic_hook?, stderr_tail}}               process death
"""
import json, os, subprocess, sys, time, signal, resource, shutil, tempfile, hashlib

VERIF = os.path.dirname(os.path.dirname(os.path.abspath(__file__)))
HARNESS = os.path.join(VERIF, "harness")
TARGET = os.path.join(VERIF, "target")
TMPROOT = os.path.join(TARGET, "tmp")

VARIANTS = {
    # name: (cargo args, env, binary path relative to TARGET)
    "plain": (["build"], {}, "plain/debug/vdrive"),
    "asan": (["+nightly", "build", "--target", "x86_64-unknown-linux-gnu"],
             {"RUSTFLAGS": "-Zsanitizer=address -Cforce-frame-pointers=yes"},
             "asan/x86_64-unknown-linux-gnu/debug/vdrive"),
    "tsan": (["+nightly", "build", "-Zbuild-std", "--target", "x86_64-unknown-linux-gnu"],
             {"RUSTFLAGS": "-Zsanitizer=thread -Cforce-frame-pointers=yes"},
             "tsan/x86_64-unknown-linux-gnu/debug/vdrive"),
    # interpreted: `cargo +nightly miri run` in the harness directory (no binary)
    "miri": (["+nightly", "miri", "setup"], {}, None),
}
SANITIZER_ENV = {
    "asan": {"ASAN_OPTIONS": "detect_leaks=0:abort_on_error=1:halt_on_error=1:symbolize=1:detect_stack_use_after_return=0"},
    "tsan": {"TSAN_OPTIONS": "halt_on_error=0:second_deadlock_stack=1:report_signal_unsafe=0:exitcode=66"},
    "miri": {"MIRIFLAGS": "-Zmiri-disable-isolation -Zmiri-permissive-provenance -Zmiri-ignore-leaks"},
}
# Set by C16 while it re-runs the workloads of other checks under an instrumented build:
#   variant: build to use instead of the caller's; max_cases: run at most that many cases of every call (the others are
#   reported as not_run "sampled out"); observer(cases, results, reports): called after every run_cases call;
#   wrapper: command prefix (valgrind); env: extra environment
OVERRIDE = {"variant": None, "max_cases": None, "observer": None, "wrapper": None, "env": None, "salt": "", "wall_s": None}
REPORT_RE = None


class BuildFailed(Exception):
    pass


def build(variant="plain", quiet=True):
    """(Re)build vdrive for a variant from /repo's working tree. Returns binary path."""
    args, env, rel = VARIANTS[variant]
    e = dict(os.environ)
    e.update(env)
    e["CARGO_NET_OFFLINE"] = "true"
    e["CARGO_TARGET_DIR"] = os.path.join(TARGET, variant)
    # keep the lock file in sync with the repository's
    src_lock = "/repo/Cargo.lock"
    dst_lock = os.path.join(HARNESS, "Cargo.lock")
    if not os.path.exists(dst_lock):
        shutil.copy(src_lock, dst_lock)
    t0 = time.time()
    p = subprocess.run(["cargo"] + args, cwd=HARNESS, env=e,
                       stdout=subprocess.PIPE, stderr=subprocess.STDOUT, text=True)
    if p.returncode != 0:
        tail = "\n".join(p.stdout.splitlines()[-40:])
        raise BuildFailed(f"cargo {' '.join(args)} failed ({variant}):\n{tail}")
    if not quiet:
        print(f"[build {variant}] ok in {time.time()-t0:.1f}s", flush=True)
    return os.path.join(TARGET, rel) if rel else None


def tmpdir(prefix="run"):
    os.makedirs(TMPROOT, exist_ok=True)
    return tempfile.mkdtemp(prefix=prefix + "-", dir=TMPROOT)


def _limits(cpu_s, as_bytes):
    def f():
        if cpu_s:
            resource.setrlimit(resource.RLIMIT_CPU, (int(cpu_s), int(cpu_s) + 5))
        if as_bytes:
            resource.setrlimit(resource.RLIMIT_AS, (int(as_bytes), int(as_bytes)))
        resource.setrlimit(resource.RLIMIT_CORE, (0, 0))
    return f


def run_cases(cases, variant="plain", binary=None, cpu_s=None, as_bytes=None,
              wall_s=600, env=None, stack_mb=None, keep=False, wrapper=None, _sharded=False):
    """Run cases in one vdrive process, restarting after a death.

    Returns (results: dict id -> result, meta) . A case during which the
    process died gets {"died": {...}}; cases not run because of a wall-clock
    watchdog get {"not_run": reason}.
    """
    ov = OVERRIDE
    all_cases = cases
    sampled_out = []
    if ov["variant"] and binary is None:
        variant = ov["variant"]
        if variant != "plain":
            as_bytes = None          # sanitizer shadow memory / the interpreter need the address space
            cpu_s = None
        if ov["wall_s"]:
            wall_s = ov["wall_s"]
        if ov["max_cases"] is not None and len(cases) > ov["max_cases"] and not _sharded:
            key = lambda c: hashlib.md5((ov["salt"] + str(c.get("id"))).encode()).hexdigest()
            keep = set(id(c) for c in sorted(cases, key=key)[:ov["max_cases"]])
            sampled_out = [c for c in cases if id(c) not in keep]
            cases = [c for c in cases if id(c) in keep]
        wrapper = ov["wrapper"] or wrapper
        env = dict(env or {})
        env.update(ov["env"] or {})
    if binary is None and VARIANTS[variant][2]:
        binary = os.path.join(TARGET, VARIANTS[variant][2])
    if as_bytes is None and variant == "plain" and not wrapper:
        as_bytes = 8 << 30   # a runaway allocation must kill the driver, not the machine
    d = tmpdir("vd")
    results = {c["id"]: {"id": c["id"], "not_run": "sampled out"} for c in sampled_out}
    reports = []
    remaining = list(cases)
    restarts = 0
    deadline = time.time() + wall_s
    e = dict(os.environ)
    e.setdefault("RUST_BACKTRACE", "0")
    # DbError captures a backtrace per error when RUST_BACKTRACE is set (2-8 ms .. seconds of CPU per error under load);
    # panic and allocation-failure backtraces (used for attribution) are governed by RUST_BACKTRACE and stay on
    e["RUST_LIB_BACKTRACE"] = "0"
    # glibc reserves 64 MiB of address space per malloc arena and creates up to 8 x cores arenas for busy threads: with 16
    # worker threads that alone exhausts the 8 GiB address-space cap (seen as tiny allocations "failing")
    e.setdefault("MALLOC_ARENA_MAX", "8")
    if stack_mb:
        e["VDRIVE_STACK_MB"] = str(stack_mb)
    e.update(SANITIZER_ENV.get(variant, {}))
    if env:
        e.update(env)
    rnd = 0
    try:
        while remaining:
            rnd += 1
            script = os.path.join(d, f"s{rnd}.jsonl")
            out = os.path.join(d, f"o{rnd}.jsonl")
            with open(script, "w") as f:
                for c in remaining:
                    f.write(json.dumps(c) + "\n")
            left = deadline - time.time()
            if left <= 0:
                for c in remaining:
                    results[c["id"]] = {"id": c["id"], "not_run": "wall-clock watchdog"}
                break
            cwd = None
            if variant == "miri":
                cmd = ["cargo", "+nightly", "miri", "run", "-q", "--", "run", script, out]
                cwd = HARNESS
                e["CARGO_TARGET_DIR"] = os.path.join(TARGET, "miri")
                e["CARGO_NET_OFFLINE"] = "true"
            else:
                cmd = [binary, "run", script, out]
            if wrapper:
                cmd = wrapper + cmd
            errp = os.path.join(d, f"e{rnd}.txt")
            with open(errp, "w") as ef:
                try:
                    p = subprocess.run(cmd, stdout=ef, stderr=subprocess.STDOUT, env=e, cwd=cwd,
                                       timeout=left, preexec_fn=_limits(cpu_s, as_bytes))
                    rc = p.returncode
                    timed_out = False
                except subprocess.TimeoutExpired:
                    rc = None
                    timed_out = True
            started = None
            hook = None
            cur_step = None
            done_ids = set()
            finished = False
            if os.path.exists(out):
                with open(out) as f:
                    for line in f:
                        try:
                            v = json.loads(line)
                        except Exception:
                            continue
                        if "start" in v:
                            started = v["start"]
                            hook = None
                            cur_step = None
                        elif "step" in v:
                            cur_step = v["step"]
                        elif "panic_hook" in v:
                            hook = v["panic_hook"]
                        elif "finished" in v:
                            finished = True
                        elif "id" in v:
                            results[v["id"]] = v
                            done_ids.add(v["id"])
                            if v["id"] == started:
                                started = None
            with open(errp, errors="replace") as ef:
                whole = ef.read()
            reports += sanitizer_reports(whole, started)
            if finished and (rc == 0 or started is None):
                break
            # the process died (or was killed by the watchdog) during `started`
            if True:
                tail = whole[-3000:]
                head = whole[:600]
                import re as _re
                m = _re.search(r"at /repo/crates/([^:\s]+)", whole)
                first_repo_frame = m.group(1) if m else ""
            if started is None and not timed_out and rc == 0:
                break
            if started is not None:
                died = {"stderr_tail": tail, "stderr_head": head, "first_repo_frame": first_repo_frame}
                sr = sanitizer_reports(whole, started)
                if sr:
                    died["sanitizer"] = sr[-1]
                if cur_step is not None:
                    died["step"] = cur_step      # cases with "journal_steps": true
                if timed_out:
                    died["watchdog"] = True
                elif rc is not None and rc < 0:
                    died["signal"] = -rc
                else:
                    died["exit"] = rc
                if hook:
                    died["panic_hook"] = hook
                results[started] = {"id": started, "died": died}
                done_ids.add(started)
            if timed_out:
                for c in remaining:
                    if c["id"] not in done_ids:
                        results[c["id"]] = {"id": c["id"], "not_run": "wall-clock watchdog"}
                break
            new_remaining = [c for c in remaining if c["id"] not in done_ids]
            if len(new_remaining) == len(remaining):
                # no progress at all: give up rather than loop
                for c in new_remaining:
                    results[c["id"]] = {"id": c["id"], "not_run": f"vdrive failed rc={rc}: {tail[-300:]}"}
                break
            remaining = new_remaining
            restarts += 1
    finally:
        if not keep:
            shutil.rmtree(d, ignore_errors=True)
    if ov["observer"]:
        ov["observer"](all_cases, results, reports, variant)
    return results, {"restarts": restarts, "dir": d if keep else None, "reports": reports}


def sanitizer_reports(text, case_id=None):
    """Report blocks of ASan / TSan / memcheck / Miri found in a process' stderr -> [{tool, kind, frames, text, case}]"""
    import re as _re
    out = []
    def frames(block):
        """in-repo frames of a report, innermost first: 'function @ file' (ASan/TSan/Miri) or 'function' (memcheck prints base names only)"""
        fr = []
        for line in block.splitlines():
            m = (_re.search(r"#\d+ 0x[0-9a-f]+ in (\S+)(?: (\S+))?", line)                     # ASan:  #0 0x55.. in func /path/file.rs:1:2
                 or _re.search(r"#\d+ (\S+) (/\S+):\d+", line)                                  # TSan:  #0 func /path/file.rs:12 (mod+0x..)
                 or _re.search(r"(?:at|by) 0x[0-9A-Fa-f]+: (\S+) \(([^)]*)\)", line)                # memcheck: at 0x..: func (file.rs:12)
                 or _re.search(r"inside `([^`]+)` at (/\S+?):\d+", line))                        # Miri backtrace
            if not m:
                m2 = _re.search(r"--> (/repo/crates/[^\s:]+):\d+", line)                         # Miri primary span
                if m2:
                    fr.append(m2.group(1).split("/repo/crates/", 1)[1])
                continue
            fn, where = m.group(1), (m.group(2) or "")
            fn = _re.sub(r"::h[0-9a-f]{16}$", "", fn)
            if "/repo/crates/" in where:
                fr.append(fn + " @ " + where.split("/repo/crates/", 1)[1].split(":")[0])
            elif "glaredb" in fn or "vdrive" in fn:
                fr.append(fn)
        return fr[:6]
    for m in _re.finditer(r"==\d+==ERROR: AddressSanitizer: (\S+).*?(?:SUMMARY: AddressSanitizer[^\n]*|\Z)", text, _re.S):
        out.append({"tool": "asan", "kind": m.group(1), "frames": frames(m.group(0)), "text": m.group(0)[:3000], "case": case_id})
    for m in _re.finditer(r"WARNING: ThreadSanitizer: ([^\n(]+).*?(?:SUMMARY: ThreadSanitizer[^\n]*|\Z)", text, _re.S):
        out.append({"tool": "tsan", "kind": m.group(1).strip(), "frames": frames(m.group(0)), "text": m.group(0)[:3000], "case": case_id})
    for m in _re.finditer(r"==\d+== ((?:Invalid (?:read|write|free)|Conditional jump or move depends on uninitialised|Use of uninitialised value|Mismatched free|Source and destination overlap|Syscall param [^\n]*uninitialised)[^\n]*)\n(?:==\d+== [^\n]*\n){0,30}", text):
        out.append({"tool": "memcheck", "kind": m.group(1).split(" of size")[0], "frames": frames(m.group(0)), "text": m.group(0)[:3000], "case": case_id})
    for m in _re.finditer(r"error: Undefined Behavior: ([^\n]+).*?(?:note: some details are omitted|\Z)", text, _re.S):
        out.append({"tool": "miri", "kind": _re.sub(r"0x[0-9a-f]+|alloc\d+|<\d+>|\d+", "N", m.group(1))[:160], "frames": frames(m.group(0)), "text": m.group(0)[:3000], "case": case_id})
    for m in _re.finditer(r"error: (?:unsupported operation|memory leaked|deadlock|the evaluated program [^\n]*|abnormal termination)[^\n]*", text):
        out.append({"tool": "miri-other", "kind": m.group(0)[:160], "frames": [], "text": m.group(0)[:500], "case": case_id})
    return out


def run_sharded(cases, shards=16, **kw):
    """Split cases over `shards` parallel vdrive processes."""
    from concurrent.futures import ThreadPoolExecutor
    results = {}
    ov = OVERRIDE
    if ov["variant"] and ov["max_cases"] is not None and len(cases) > ov["max_cases"]:
        key = lambda c: hashlib.md5((ov["salt"] + str(c.get("id"))).encode()).hexdigest()
        keep = set(id(c) for c in sorted(cases, key=key)[:ov["max_cases"]])
        for c in cases:
            if id(c) not in keep:
                results[c["id"]] = {"id": c["id"], "not_run": "sampled out"}
        cases = [c for c in cases if id(c) in keep]
    if not cases:
        return results, {"restarts": 0, "reports": []}
    shards = max(1, min(shards, len(cases)))
    parts = [cases[i::shards] for i in range(shards)]
    restarts = 0
    reports = []
    with ThreadPoolExecutor(max_workers=shards) as ex:
        for r, m in ex.map(lambda p: run_cases(p, _sharded=True, **kw), parts):
            results.update(r)
            restarts += m["restarts"]
            reports += m.get("reports", [])
    return results, {"restarts": restarts, "reports": reports}


def sql_lit(s):
    return "'" + s.replace("'", "''") + "'"


if __name__ == "__main__":
    # tiny CLI: python3 -m vf.run "select 1"
    build("plain", quiet=False)
    cases = [{"id": "cli", "steps": [{"sql": a} for a in sys.argv[1:]]}]
    res, meta = run_cases(cases)
    print(json.dumps(res, indent=1)[:4000])
