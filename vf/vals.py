"""Helpers for the canonical value encoding produced by vdrive and SQL literal rendering."""
import struct, math
from fractions import Fraction

INT_TYPES = {
    "tinyint": (-2**7, 2**7 - 1, "Int8"), "smallint": (-2**15, 2**15 - 1, "Int16"),
    "int": (-2**31, 2**31 - 1, "Int32"), "bigint": (-2**63, 2**63 - 1, "Int64"),
    "utinyint": (0, 2**8 - 1, "UInt8"), "usmallint": (0, 2**16 - 1, "UInt16"),
    "uint": (0, 2**32 - 1, "UInt32"), "ubigint": (0, 2**64 - 1, "UInt64"),
}
ENGINE_INT = {v[2]: k for k, v in INT_TYPES.items()}


def int_range(t):
    lo, hi, _ = INT_TYPES[t]
    return lo, hi


def sql_int(v, t):
    """Literal of integer type t. Negative literals are parenthesised; the most
    negative value is written without a positive literal that would overflow."""
    lo, hi = int_range(t)
    if v == lo and lo < 0:
        # e.g. (-127 - 1) would need arithmetic; cast from text instead
        return f"('{v}')::{t}"
    if v > 2**63 - 1:
        return f"('{v}')::{t}"
    if v < 0:
        return f"({v})::{t}"
    return f"{v}::{t}"


def big(v):
    if isinstance(v, dict) and "big" in v:
        return int(v["big"])
    return v


def dec_unscaled(val):
    """{"d":[u,p,s]} -> (u,p,s) with big ints decoded; None passes through."""
    if val is None:
        return None
    u, p, s = val["d"]
    return (big(u), p, s)


def f64_bits(x):
    return struct.unpack("<Q", struct.pack("<d", x))[0]


def bits_f64(b):
    return struct.unpack("<d", struct.pack("<Q", b))[0]


def f32_bits(x):
    return struct.unpack("<I", struct.pack("<f", x))[0]


def bits_f32(b):
    return struct.unpack("<f", struct.pack("<I", b))[0]


def bits_f16(b):
    return struct.unpack("<e", struct.pack("<H", b))[0]


def decode(val):
    """Engine value -> Python value for comparison purposes:
    ints -> int, floats -> float, decimals -> Fraction, date -> ('date',d), text -> str, bool, None."""
    if val is None or isinstance(val, (bool, int, str)):
        return val
    if isinstance(val, dict):
        if "big" in val:
            return int(val["big"])
        if "f64" in val:
            return bits_f64(val["f64"])
        if "f32" in val:
            return bits_f32(val["f32"])
        if "f16" in val:
            return bits_f16(val["f16"])
        if "d" in val:
            u, p, s = dec_unscaled(val)
            return Fraction(u, 10 ** s)
        if "date" in val:
            return ("date", val["date"])
        if "ts" in val:
            return ("ts", val["ts"][0], val["ts"][1])
        if "iv" in val:
            return ("iv",) + tuple(val["iv"])
        if "b" in val:
            return bytes.fromhex(val["b"])
        if "badutf8" in val:
            return ("badutf8", val["badutf8"])
        if "l" in val:
            return ("list",) + tuple(decode(x) for x in val["l"])
        if "st" in val:
            return ("struct",) + tuple(decode(x) for x in val["st"])
    return val


def sql_str(s):
    return "'" + s.replace("'", "''") + "'"
