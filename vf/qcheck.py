"""Shared machinery for model-backed query checks (C01, C02, C03, C06, C07, C09)."""
import copy, json, random
from vf import run as vrun
from vf import sqlgen, refsql, compare, avoid
from vf.sqlast import qsql, Q, Sel
from vf.core import outcome_signature

TYPE_NAMES = {"int": "Int32", "bigint": "Int64", "text": "Utf8", "bool": "Boolean", "double": "Float64"}

# deviation switches: model variants reproducing *recorded* genuine defects; each is tied to a trigger that the
# specification run must have hit, and to the id of the open known finding it stands for
SWITCHES = {
    "in_two_valued": ("in_null", "in-any-all-two-valued"),
    "scalar_count_null_on_empty": ("scalar_count_zero", "correlated-count-null-on-empty"),
    "null_correlation_empty_set": ("null_correlation", "null-correlation-treated-as-empty-set"),
}

UNSUPPORTED_MARKERS = ("Not yet implemented", "not yet supported", "not implemented", "Not implemented")


def model_eval(db, q, switches=()):
    """-> dict(kind='rows'|'error'|'unspecified', rows, full_rows, triggers)"""
    m = refsql.Model(db, switches)
    try:
        q2 = copy.copy(q)
        q2.limit = None
        q2.offset = None
        cols, full = m.query(q2)
        res = {"kind": "rows", "full_rows": full, "triggers": set(m.triggers)}
        return res
    except refsql.EvalError as e:
        return {"kind": "error", "error": str(e), "triggers": set(m.triggers)}
    except refsql.Unspecified as e:
        return {"kind": "unspecified", "reason": str(e), "triggers": set(m.triggers)}
    except RecursionError:
        return {"kind": "unspecified", "reason": "model recursion", "triggers": set()}


def compare_rows(q, full_rows, engine_rows):
    """Engine rows vs. the model's complete (unsliced) rows under the query's ORDER BY / LIMIT."""
    erows = [compare.dec_row(r) for r in engine_rows]
    if q.limit is not None:
        return compare.admissible_slice(erows, full_rows, q.order, q.limit, q.offset)
    ok, why = compare.bag_equal(full_rows, erows)
    if not ok:
        return ok, why
    if q.order:
        ok, i = compare.is_sorted(erows, q.order)
        if not ok:
            return False, f"rows {i} and {i+1} violate ORDER BY: {erows[i]} then {erows[i+1]}"
    return True, ""


def check_types(q, schema):
    """Announced types must equal the statically known types of the generated items."""
    if len(schema) != len(q.out):
        return False, f"{len(schema)} columns announced, {len(q.out)} expected"
    for (name, t), (ename, etype) in zip(q.out, schema):
        want = TYPE_NAMES.get(t)
        if want and etype != want:
            # avg/abs style float results and implicit widenings are typed by the engine's own rules: only the
            # type *class* is fixed by the model
            return False, f"column {ename}: announced {etype}, model type {want}"
    return True, ""


def judge(chk, db, q, sql, step, case, tags, prop_sig_extra=None):
    """Compare one engine step with the model. Returns 'ok'|'violation'|'known'|'skip'."""
    chk.evaluated()
    spec = model_eval(db, q)
    out = step["outcome"]
    if out == "avoided":
        return "skip"
    replay = {"cases": [case], "sql": sql}
    if out == "skipped":
        chk.count("skipped_after_panic")
        return "skip"
    if out in ("panic",):
        sig = outcome_signature(step)
        if chk.violation(sig, f"panic: {step.get('panic_msg')} @ {step.get('panic_loc')}\n{sql}", replay):
            return "violation"
        return "known"
    if out in ("deadlock", "diverged", "timeout"):
        if out == "timeout":
            chk.inconc("wall-clock watchdog fired on the native executor")
            return "skip"
        sig = {"kind": "outcome", "class": out}
        if out == "deadlock":
            sig["deadlock_kind"] = step.get("deadlock_kind")
            sig["parked_ops"] = step.get("parked_ops")
        if chk.violation(sig, f"{out} ({step.get('deadlock_kind')}, parked at {step.get('parked_ops')}): {sql}", replay):
            return "violation"
        return "known"
    if spec["kind"] == "unspecified":
        chk.count("model_unspecified")
        chk.count("unspecified:" + spec["reason"][:40])
        return "skip"
    if out == "error":
        err = step.get("error", "")
        first = err.split("\n")[0]
        if spec["kind"] == "error":
            chk.count("both_error")
            return "ok"
        if any(m in first for m in UNSUPPORTED_MARKERS):
            chk.count("engine_unsupported")
            chk.count("unsupported:" + first[:70])
            return "skip"
        chk.violation({"kind": "unexpected-error", "message": compare_msg(first)}, f"engine error but the model has rows:\n{sql}\n{first}", replay)
        return "violation"
    if out not in ("rows", "empty"):
        chk.violation({"kind": "outcome", "class": out}, f"{out}: {sql}", replay)
        return "violation"
    rows = step.get("rows", [])
    if step.get("truncated"):
        chk.count("result_truncated_by_harness")
        return "skip"
    if spec["kind"] == "error":
        # deviation: engine returned rows where the specification says error
        sig = {"kind": "missing-error", "reason": spec["error"]}
        if chk.violation(sig, f"engine returned {len(rows)} rows but evaluation must fail ({spec['error']}):\n{sql}", replay):
            return "violation"
        return "known"
    ok, why = compare_rows(q, spec["full_rows"], rows)
    if ok:
        tok, twhy = check_types(q, step.get("schema", []))
        if not tok:
            chk.violation({"kind": "type-mismatch", "what": twhy.split(":")[0][:40]}, f"{twhy}\n{sql}", replay)
            return "violation"
        if step.get("mismatch"):
            chk.count("schema_value_mismatch_seen")
        return "ok"
    # disagreement: try each deviation switch whose trigger fired in the specification run (singly, then jointly)
    # (a deviation can expose the trigger of another one - a row kept by the two-valued IN now evaluates a correlated COUNT over
    # an empty set - so triggers seen in deviating runs extend the candidate set; at most 2^3 - 1 combinations)
    import itertools as _it
    fired = [sw for sw, (trigger, finding) in SWITCHES.items() if trigger in spec["triggers"]]
    tried = set()
    undecidable = False
    while True:
        combos = [c for r in range(1, len(fired) + 1) for c in _it.combinations(fired, r) if c not in tried]
        if not combos:
            break
        combo = combos[0]
        tried.add(combo)
        dev = model_eval(db, q, switches=combo)
        for sw, (trigger, finding) in SWITCHES.items():
            if trigger in dev.get("triggers", ()) and sw not in fired:
                fired.append(sw)
        if dev["kind"] == "unspecified":
            undecidable = True
        if dev["kind"] == "rows":
            ok2, _ = compare_rows(q, dev["full_rows"], rows)
            if ok2:
                res = "known"
                for sw in combo:
                    if chk.violation({"kind": "model-switch", "switch": sw}, f"{why}\n{sql}", replay):
                        res = "violation"
                return res
    if undecidable:
        # a recorded deviation's trigger fired but the model cannot evaluate the deviating variant (too large):
        # neither "known" nor "new" can be claimed
        chk.inconc("disagreement on a query that triggers a recorded deviation the model could not re-evaluate")
        return "skip"
    sig = {"kind": "wrong-result", "features": sorted(t for t in tags if t in SIG_TAGS)[:6]}
    exp = spec["full_rows"]
    chk.violation(sig, f"{why}\n{sql}\nexpected({len(exp)} rows before LIMIT)={exp[:6]}\nengine({len(rows)})={rows[:6]}", replay)
    return "violation"


SIG_TAGS = {"group_by", "rollup", "cube", "union", "distinct", "scalar_subquery", "subq_in", "subq_exists", "subq_any",
            "subq_all", "lateral", "join_left", "join_right", "join_semi", "join_inner", "limit", "order_by", "cte",
            "cte_materialized", "derived_table", "agg_distinct", "agg_filter", "having", "grouping_fn"}


def compare_msg(s):
    import re
    s = re.sub(r"\d+", "N", s)
    s = re.sub(r"'[^']*'", "'S'", s)
    s = re.sub(r"\[#N(?:, #N)*\]", "[#N..]", s)
    s = re.sub(r"\[TableRef \{ table_idx: N \}(?:, TableRef \{ table_idx: N \})*\]", "[TableRef..]", s)
    return s[:100]


def gen_workload(rng, n_dbs, q_per_db, weights=None, max_depth=3, max_rows=60, exec_fn=None, id_prefix="w", chk=None, steps_fn=None, extra_avoid=None, db_fn=None):
    """-> list of (case, db, [(q, sql, tags)]) ; steps = load + queries."""
    out = []
    for d in range(n_dbs):
        db = db_fn(rng) if db_fn else sqlgen.gen_database(rng, max_rows=max_rows)
        load = sqlgen.load_steps(db)
        ex = exec_fn(rng, d) if exec_fn else {"kind": "det", "policy": "random", "seed": rng.randint(0, 1 << 30), "yield_p": 0.05,
                                              "partitions": rng.choice([1, 2, 3, 4, 8])}
        qs = []
        for i in range(q_per_db):
            g = sqlgen.Gen(rng, db, weights=weights, max_depth=max_depth)
            try:
                q = g.query(rng.choice([1, 2, 2, 3]) if max_depth >= 3 else max_depth, top=True)
                sql = qsql(q)
            except (IndexError, ValueError, KeyError) as e:
                continue
            reasons = avoid.query_avoid_reasons(q, ex.get("partitions", 4))
            if extra_avoid:
                reasons |= extra_avoid(q)
            if reasons:
                if chk is not None:
                    for r in reasons:
                        chk.count("avoided:" + r)
                continue
            qs.append((q, sql, set(g.tags)))
        steps = [{"sql": s, "out": "count"} for s in load]
        bs = rng.choice([1, 2, 3, 7, 16, 64, 2048])
        steps.append({"sql": f"SET batch_size TO {bs}", "out": "count"})
        per = 1
        for (_, sql, _) in qs:
            st = steps_fn(sql) if steps_fn else [{"sql": sql}]
            per = len(st)
            steps += st
        case = {"id": f"{id_prefix}{d}", "exec": ex, "steps": steps, "max_rows": 20000, "per_query": per}
        out.append((case, db, qs, len(load) + 1))
    return out


def run_workload(chk, work, shards=16, wall_s=900, judge_fn=None):
    """Runs cases; re-runs the remainder of a case after a panic (fresh engine, reload). Yields judged results.
    With case["per_query"] = k > 1 every query owns k consecutive steps and judge_fn receives the list of them."""
    pending = [(case, db, qs, nload, 0) for (case, db, qs, nload) in work]
    rounds = 0
    stats = {"restarts": 0}
    while pending and rounds < 6:
        rounds += 1
        cases = []
        for (case, db, qs, nload, start) in pending:
            k = case.get("per_query", 1)
            c = {x: y for x, y in case.items() if x != "per_query"}
            c["id"] = f"{case['id']}@{start}"
            c["steps"] = case["steps"][:nload] + case["steps"][nload + start * k:]
            cases.append(c)
        results, meta = vrun.run_sharded(cases, shards=shards, wall_s=wall_s)
        stats["restarts"] += meta["restarts"]
        nxt = []
        for (case, db, qs, nload, start), c in zip(pending, cases):
            k = case.get("per_query", 1)
            res = results.get(c["id"])
            if res is None or "not_run" in res or "fatal" in res:
                chk.inconc("case not run")
                continue
            if "died" in res:
                sig = outcome_signature(res)
                chk.violation(sig, f"process died in case {c['id']}: {json.dumps(res['died'])[:300]}", {"cases": [c]})
                continue
            steps = res["steps"]
            if any(st["outcome"] not in ("rows", "empty") for st in steps[:nload]):
                bad = [st for st in steps[:nload] if st["outcome"] not in ("rows", "empty")][0]
                chk.violation({"kind": "load-failed"}, f"loading the database failed: {json.dumps(bad)[:300]}", {"cases": [c]})
                continue
            panicked_at = None
            qsteps = steps[nload:]
            for j in range(0, len(qsteps), k):
                qi = start + j // k
                if qi >= len(qs):
                    break
                q, sql, tags = qs[qi]
                group = qsteps[j:j + k]
                if group[0]["outcome"] == "skipped":
                    break
                if k == 1:
                    verdict = (judge_fn or judge)(chk, db, q, sql, group[0], c, tags)
                    st = group[0]
                else:
                    verdict = judge_fn(chk, db, q, sql, group, c, tags)
                    st = group[-1]
                yield (verdict, q, sql, tags, st, c)
                if any(g["outcome"] == "panic" for g in group):
                    panicked_at = qi
                    break
            if panicked_at is not None and panicked_at + 1 < len(qs):
                nxt.append((case, db, qs, nload, panicked_at + 1))
        pending = nxt
    chk.extra["process_restarts"] = chk.extra.get("process_restarts", 0) + stats["restarts"]
